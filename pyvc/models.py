"""Model plug-ins for libext.Ext.  Each model is a small class with optional
hook methods (see Ext).  Models are *assumed* specifications of code outside
the repository (stdlib, numpy, ...), except RecordModel, which reads
constructor signatures of the repository's own record classes from source."""
from __future__ import annotations
import ast
import z3
from .values import (U, IntS, BoolS, MS, TRUTHY, NONE_U, V, VInt, VBool, VNone,
                     VU, VRef, VOpt, VTuple, VList, VDict, VIter, VFunc,
                     VStream, VModule, VExc, sort_of_shape, wrap)
from . import source as S


class Model:
    def __init__(self, ext):
        self.ext = ext
        self.lib = ext.lib
        self.eng = ext.eng
        self.E = ext.E

    def axioms(self):
        return []


class RandomModel(Model):
    """random.shuffle(x): x becomes a permutation of itself (same multiset,
    same length); random.randint: an integer in range."""

    def call_dotted(self, st, d, node):
        eng = self.eng
        if d == "random.shuffle":
            lst = eng.eval(st, node.args[0])
            if not isinstance(lst, VList):
                raise self.E.Unsupported("shuffle of non-list")
            eng.check_unshared(st, lst, node.lineno)
            sort = sort_of_shape(lst.eshape)
            arr = st.fresh("shuf_arr", z3.ArraySort(IntS, sort))
            new = VList(arr, lst.n, lst.eshape, lst.ms, lid=lst.lid)
            eng.assume_list_facts(st, new)
            eng.write_back(st, node.args[0], new)
            return VNone()
        if d == "random.randint":
            a = eng.eval(st, node.args[0])
            b = eng.eval(st, node.args[1])
            t = st.fresh("randint", IntS)
            st.assume(z3.And(a.t <= t, t <= b.t))
            return VInt(t)
        if d == "time.sleep":
            eng.eval_args(st, node)
            return VNone()
        if d == "time.time":
            return VU(st.fresh("time", U))
        if d == "os.cpu_count":
            t = st.fresh("cpus", IntS)
            isn = st.fresh("cpus_none", BoolS)
            st.assume(t >= 1)
            return VOpt(isn, VInt(t))
        return NotImplemented


class LocalCallModel(Model):
    """Calls to functions / classes of the repository by (imported) name:
    resolved to their sidecar contract."""

    def call_global(self, st, name, node):
        eng = self.eng
        reg = eng.reg
        target = eng.imports.get(name, name)
        short = target.split(".")[-1]
        fc = reg.find_function(short)
        if fc is not None:
            args, kwargs = eng.eval_args(st, node)
            return self.lib.apply_contract(st, fc, None, args, kwargs,
                                           node.lineno)
        if short in reg.classes:
            return self.construct(st, short, node)
        return NotImplemented

    def call_dotted(self, st, d, node):
        eng = self.eng
        reg = eng.reg
        parts = d.split(".")
        # Class.staticmethod(...) / module.function(...)
        if len(parts) >= 2 and parts[-2] in reg.classes:
            fc = reg.find_method(parts[-2], parts[-1])
            if fc is not None:
                args, kwargs = eng.eval_args(st, node)
                return self.lib.apply_contract(st, fc, None, args, kwargs,
                                               node.lineno)
        if parts[0] in ("sedpack", "diutils", "utils") or \
                d.startswith("sedpack."):
            fc = reg.find_function(parts[-1])
            if fc is not None:
                args, kwargs = eng.eval_args(st, node)
                return self.lib.apply_contract(st, fc, None, args, kwargs,
                                               node.lineno)
            if parts[-1] in reg.classes:
                return self.construct(st, parts[-1], node)
        return NotImplemented

    def construct(self, st, cls, node):
        """Instantiate a repository class: a class with an __init__ contract
        -> allocate + apply it; a record class (dataclass / pydantic model)
        -> allocate + set the fields named in the call, defaults otherwise."""
        eng = self.eng
        reg = eng.reg
        init = reg.find_method(cls, "__init__")
        ref = eng.alloc(st, cls)
        if init is not None:
            args, kwargs = eng.eval_args(st, node)
            self.lib.apply_contract(st, init, ref, args, kwargs, node.lineno)
            return ref
        decl = reg.classes[cls]
        order = decl.get("_order")
        defaults = decl.get("_defaults", {})
        if order is None:
            raise self.E.Unsupported(f"constructor of {cls}")
        args, kwargs = eng.eval_args(st, node)
        vals = {}
        for n, a in zip(order, args):
            vals[n] = a
        vals.update(kwargs)
        for f in order:
            if f in vals:
                v = vals[f]
            elif f in defaults:
                v = eng.spec_eval(st, defaults[f])
            else:
                raise self.E.RaiseEx("TypeError", node.lineno,
                                     f"missing field {f}")
            v = self.lib.conform(st, v, decl[f], f"{cls}.{f}")
            v = self.field_init(st, cls, f, v)
            eng.store_field(st, ref, f, v)
        hook = decl.get("_validate")
        if hook:
            for vc in hook:
                fc = reg.find_method(cls, vc)
                # validators are applied through their contract
                if fc is not None:
                    fld = fc.params.get("_field")
                    self.lib.apply_contract(
                        st, fc, None, [eng.load_field(st, ref, fld)], {},
                        node.lineno)
        return ref

    def field_init(self, st, cls, f, v):
        # pydantic copies mutable defaults / converts lists: a list stored
        # in a fresh record is a fresh list object
        if isinstance(v, VList):
            return VList(v.arr, v.n, v.eshape, v.ms)
        return v


class CtxModel(Model):
    """Context managers without state: tf.device, contextlib.nullcontext."""

    def call_dotted(self, st, d, node):
        if d in ("tf.device", "tensorflow.device", "contextlib.nullcontext"):
            self.eng.eval_args(st, node)
            return VModule("ctx:noop")
        return NotImplemented

    def ctx_enter(self, st, ctx, line):
        if isinstance(ctx, VModule) and ctx.name == "ctx:noop":
            return VNone()
        if isinstance(ctx, VRef):
            fc = self.eng.reg.find_method(ctx.cls, "__enter__")
            if fc is not None:
                return self.lib.apply_contract(st, fc, ctx, [], {}, line)
        return None

    def ctx_exit(self, st, ctx, ex, line):
        if isinstance(ctx, VModule) and ctx.name == "ctx:noop":
            return "propagate"
        if isinstance(ctx, VRef):
            fc = self.eng.reg.find_method(ctx.cls, "__exit__")
            if fc is not None:
                if ex is None:
                    a = [VNone(), VNone(), VNone()]
                else:
                    a = [VModule("exctype"), VExc(ex.cls), VModule("tb")]
                # a raise of the passed exception by __exit__ is modelled by
                # the contract's `raises["PASSED"]`
                try:
                    r = self.lib.apply_contract(st, fc, ctx, a, {}, line)
                except self.E.RaiseEx as e2:
                    if e2.cls == "PASSED":
                        if ex is None:
                            raise PathEndError()
                        return "propagate"
                    raise
                if ex is None:
                    return "propagate"
                if isinstance(ex, self.E.AbandonEx):
                    return "propagate"
                # normal return with an exception in flight: truthy result
                # swallows it
                if st.branch(self.eng.truthy(st, r), f"exit-swallow@{line}"):
                    return "swallow"
                return "propagate"
        return None


def PathEndError():
    from .engine import PathEnd
    return PathEnd()


PJOIN = z3.Function("PJOIN", U, U, U)


class PathModel(Model):
    """pathlib: `a / b` is an opaque join of two opaque values."""

    def binop(self, st, op, a, b, line):
        if isinstance(op, ast.Div) and isinstance(a, VU) and isinstance(b, VU):
            return VU(PJOIN(a.t, b.t))
        return None


class CopyModel(Model):
    """copy.deepcopy / copy.copy of a dict object: a fresh object with an
    equal value (A-STD)."""

    def call_dotted(self, st, d, node):
        eng = self.eng
        if d in ("copy.deepcopy", "copy.copy"):
            v = eng.eval(st, node.args[0])
            return self.copy_value(st, v, node.lineno)
        return NotImplemented

    def call_global(self, st, name, node):
        if self.eng.imports.get(name) in ("copy.deepcopy", "copy.copy"):
            v = self.eng.eval(st, node.args[0])
            return self.copy_value(st, v, node.lineno)
        return NotImplemented

    def copy_value(self, st, v, line):
        eng = self.eng
        if isinstance(v, VRef) and v.cls == "DictObj":
            if st.branch(v.t == 0, f"deepcopy-none@{line}"):
                return VRef(z3.IntVal(0), "DictObj")
            new = eng.alloc(st, "DictObj")
            eng.store_field(st, new, "value", eng.load_field(st, v, "value"))
            return new
        if isinstance(v, (VU, VInt, VBool, VNone)):
            return v
        raise self.E.Unsupported(f"deepcopy of {v!r}")


ALL = [RandomModel, LocalCallModel, CtxModel, PathModel, CopyModel]
