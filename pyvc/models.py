"""Model plug-ins for libext.Ext.  Each model is a small class with optional
hook methods (see Ext).  Models are *assumed* specifications of code outside
the repository (stdlib, numpy, ...), except RecordModel, which reads
constructor signatures of the repository's own record classes from source."""
from __future__ import annotations
import ast
import z3
from .values import (U, IntS, BoolS, MS, TRUTHY, NONE_U, V, VInt, VBool, VNone,
                     VU, VRef, VOpt, VTuple, VList, VDict, VIter, VFunc,
                     VStream, VModule, VExc, sort_of_shape, wrap)
from . import source as S


class Model:
    def __init__(self, ext):
        self.ext = ext
        self.lib = ext.lib
        self.eng = ext.eng
        self.E = ext.E

    def axioms(self):
        return []


class RandomModel(Model):
    """random.shuffle(x): x becomes a permutation of itself (same multiset,
    same length); random.randint: an integer in range."""

    def call_dotted(self, st, d, node):
        eng = self.eng
        if d == "random.shuffle":
            lst = eng.eval(st, node.args[0])
            if not isinstance(lst, VList):
                raise self.E.Unsupported("shuffle of non-list")
            eng.check_unshared(st, lst, node.lineno)
            sort = sort_of_shape(lst.eshape)
            arr = st.fresh("shuf_arr", z3.ArraySort(IntS, sort))
            new = VList(arr, lst.n, lst.eshape, lst.ms, lid=lst.lid)
            eng.assume_list_facts(st, new)
            eng.write_back(st, node.args[0], new)
            return VNone()
        if d == "random.randint":
            a = eng.eval(st, node.args[0])
            b = eng.eval(st, node.args[1])
            t = st.fresh("randint", IntS)
            st.assume(z3.And(a.t <= t, t <= b.t))
            return VInt(t)
        if d in ("tqdm.auto.tqdm", "tqdm.tqdm"):
            args, kwargs = eng.eval_args(st, node)
            return args[0]
        if d == "time.sleep":
            eng.eval_args(st, node)
            return VNone()
        if d == "time.time":
            return VU(st.fresh("time", U))
        if d == "os.cpu_count":
            t = st.fresh("cpus", IntS)
            isn = st.fresh("cpus_none", BoolS)
            st.assume(t >= 1)
            return VOpt(isn, VInt(t))
        return NotImplemented


class LocalCallModel(Model):
    """Calls to functions / classes of the repository by (imported) name:
    resolved to their sidecar contract."""

    def call_global(self, st, name, node):
        eng = self.eng
        reg = eng.reg
        target = eng.imports.get(name, name)
        if target in ("tqdm.auto.tqdm", "tqdm.tqdm"):
            # progress bar: iterates its first argument unchanged
            args, kwargs = eng.eval_args(st, node)
            return args[0]
        short = target.split(".")[-1]
        fc = reg.find_function(short)
        if fc is not None:
            args, kwargs = eng.eval_args(st, node)
            return self.lib.apply_contract(st, fc, None, args, kwargs,
                                           node.lineno)
        if short in reg.classes and not reg.classes[short].get("_value"):
            return self.construct(st, short, node)
        return NotImplemented

    def call_dotted(self, st, d, node):
        eng = self.eng
        reg = eng.reg
        parts = d.split(".")
        if d in ("queue.Queue",):
            return self.construct(st, "Queue", node)
        if d.endswith("_sedpack_rs.RustIter"):
            return self.construct(st, "RustIter", node)
        # Class.staticmethod(...) / module.function(...)
        if len(parts) >= 2 and parts[-2] in reg.classes:
            fc = reg.find_method(parts[-2], parts[-1])
            if fc is not None:
                args, kwargs = eng.eval_args(st, node)
                return self.lib.apply_contract(st, fc, None, args, kwargs,
                                               node.lineno)
        if parts[0] in ("sedpack", "diutils", "utils") or \
                d.startswith("sedpack."):
            fc = reg.find_function(parts[-1])
            if fc is not None:
                args, kwargs = eng.eval_args(st, node)
                return self.lib.apply_contract(st, fc, None, args, kwargs,
                                               node.lineno)
            if parts[-1] in reg.classes:
                return self.construct(st, parts[-1], node)
        return NotImplemented

    def construct(self, st, cls, node):
        """Instantiate a repository class: a class with an __init__ contract
        -> allocate + apply it; a record class (dataclass / pydantic model)
        -> allocate + set the fields named in the call, defaults otherwise."""
        eng = self.eng
        reg = eng.reg
        init = reg.find_method(cls, "__init__")
        ref = eng.alloc(st, cls)
        if init is not None:
            args, kwargs = eng.eval_args(st, node)
            self.lib.apply_contract(st, init, ref, args, kwargs, node.lineno)
            return ref
        decl = reg.classes[cls]
        order = decl.get("_order")
        defaults = decl.get("_defaults", {})
        if order is None:
            raise self.E.Unsupported(f"constructor of {cls}")
        args, kwargs = eng.eval_args(st, node)
        vals = {}
        for n, a in zip(order, args):
            vals[n] = a
        vals.update(kwargs)
        for f in order:
            if f in vals:
                v = vals[f]
            elif f in defaults:
                v = eng.spec_eval(st, defaults[f])
            else:
                raise self.E.RaiseEx("TypeError", node.lineno,
                                     f"missing field {f}")
            v = self.lib.conform(st, v, decl[f], f"{cls}.{f}")
            v = self.field_init(st, cls, f, v)
            eng.store_field(st, ref, f, v)
        for fld, vname in (decl.get("_validate") or {}).items():
            fc = reg.find_method(cls, vname)
            if fc is None:
                raise self.E.Unsupported(f"validator {cls}.{vname} has no "
                                         f"contract")
            cur = eng.load_field(st, ref, fld)
            newv = self.lib.apply_contract(st, fc, None, [cur], {},
                                           node.lineno)
            eng.store_field(st, ref, fld, newv)
        return ref

    def field_init(self, st, cls, f, v):
        # pydantic copies mutable defaults / converts lists: a list stored
        # in a fresh record is a fresh list object
        if isinstance(v, VList):
            return VList(v.arr, v.n, v.eshape, v.ms)
        return v


class CtxModel(Model):
    """Context managers without state: tf.device, contextlib.nullcontext."""

    def call_dotted(self, st, d, node):
        if d in ("tf.device", "tensorflow.device", "contextlib.nullcontext"):
            self.eng.eval_args(st, node)
            return VModule("ctx:noop")
        return NotImplemented

    def call_global(self, st, name, node):
        if self.eng.imports.get(name, "").endswith("ThreadPoolExecutor"):
            self.eng.eval_args(st, node)
            return VModule("ctx:executor")
        return NotImplemented

    def call_other_method(self, st, recv, name, node):
        # executor.map(f, xs): ordered, lazy in results, re-raises (A-STD)
        if isinstance(recv, VModule) and recv.name == "ctx:executor" and \
                name == "map":
            sm = self.lib.stream_model()
            return sm.do_map(st, node)
        return NotImplemented

    def ctx_enter(self, st, ctx, line):
        if isinstance(ctx, VModule) and ctx.name == "ctx:executor":
            return ctx
        if isinstance(ctx, VModule) and ctx.name == "ctx:noop":
            return VNone()
        if isinstance(ctx, VRef):
            fc = self.eng.reg.find_method(ctx.cls, "__enter__")
            if fc is not None:
                return self.lib.apply_contract(st, fc, ctx, [], {}, line)
        return None

    def ctx_exit(self, st, ctx, ex, line):
        if isinstance(ctx, VModule) and ctx.name in ("ctx:noop",
                                                     "ctx:executor"):
            return "propagate"
        if isinstance(ctx, VRef):
            fc = self.eng.reg.find_method(ctx.cls, "__exit__")
            if fc is not None:
                if ex is None:
                    a = [VNone(), VNone(), VNone()]
                else:
                    a = [VModule("exctype"), VExc(ex.cls), VModule("tb")]
                # a raise of the passed exception by __exit__ is modelled by
                # the contract's `raises["PASSED"]`
                try:
                    r = self.lib.apply_contract(st, fc, ctx, a, {}, line)
                except self.E.RaiseEx as e2:
                    if e2.cls == "PASSED":
                        if ex is None:
                            raise PathEndError()
                        return "propagate"
                    raise
                if ex is None:
                    return "propagate"
                if isinstance(ex, self.E.AbandonEx):
                    return "propagate"
                # normal return with an exception in flight: truthy result
                # swallows it
                if st.branch(self.eng.truthy(st, r), f"exit-swallow@{line}"):
                    return "swallow"
                return "propagate"
        return None


def PathEndError():
    from .engine import PathEnd
    return PathEnd()


PJOIN = z3.Function("PJOIN", U, U, U)


class PathModel(Model):
    """pathlib: `a / b` is an opaque join of two opaque values; Path(x) of a
    path / string is that path; Path() is the empty relative path."""

    def call_global(self, st, name, node):
        if name == "cast" and self.eng.imports.get("cast") == "typing.cast":
            return self.eng.eval(st, node.args[1])
        if name == "Path" and self.eng.imports.get("Path", "").startswith(
                "pathlib"):
            if not node.args:
                return VU(self.eng.strconst("."))
            if len(node.args) == 1:
                v = self.eng.eval(st, node.args[0])
                if isinstance(v, VU):
                    return v
        return NotImplemented

    def binop(self, st, op, a, b, line):
        if isinstance(op, ast.Div) and isinstance(a, VU) and isinstance(b, VU):
            return VU(PJOIN(a.t, b.t))
        return None


class CopyModel(Model):
    """copy.deepcopy / copy.copy of a dict object: a fresh object with an
    equal value (A-STD)."""

    def call_dotted(self, st, d, node):
        eng = self.eng
        if d in ("copy.deepcopy", "copy.copy"):
            v = eng.eval(st, node.args[0])
            return self.copy_value(st, v, node.lineno)
        return NotImplemented

    def call_global(self, st, name, node):
        if self.eng.imports.get(name) in ("copy.deepcopy", "copy.copy"):
            v = self.eng.eval(st, node.args[0])
            return self.copy_value(st, v, node.lineno)
        return NotImplemented

    def copy_value(self, st, v, line):
        eng = self.eng
        if isinstance(v, VRef) and v.cls == "DictObj":
            if st.branch(v.t == 0, f"deepcopy-none@{line}"):
                return VRef(z3.IntVal(0), "DictObj")
            new = eng.alloc(st, "DictObj")
            eng.store_field(st, new, "value", eng.load_field(st, v, "value"))
            return new
        if isinstance(v, (VU, VInt, VBool, VNone)):
            return v
        raise self.E.Unsupported(f"deepcopy of {v!r}")


ALL = [RandomModel, LocalCallModel, CtxModel, PathModel, CopyModel]


# ---------------------------------------------------------------------------
class ValueClassModel(Model):
    """Classes whose instances flow through opaque (U) channels: instances are
    U values with class-membership predicates ISA_<cls> (hierarchy from the
    sidecar `cls(..., base=..., _value=True)`, compared with the real class
    statements by tools/check_classes.py)."""

    def isa(self, cls):
        return z3.Function("ISA_" + cls, U, BoolS)

    def value_classes(self):
        return [c for c, d in self.eng.reg.classes.items() if d.get("_value")]

    def new_instance(self, st, cls):
        t = st.fresh("obj_" + cls, U)
        st.assume(t != NONE_U)
        st.assume(TRUTHY(t))
        for c in self.value_classes():
            st.assume(self.isa(c)(t) ==
                      z3.BoolVal(self.eng.reg.is_subclass(cls, c)))
        return VU(t)

    def call_global(self, st, name, node):
        if name in self.eng.reg.classes and \
                self.eng.reg.classes[name].get("_value"):
            self.eng.eval_args(st, node)
            return self.new_instance(st, name)
        return NotImplemented

    def isinstance_of(self, st, v, clsnode, line):
        if isinstance(clsnode, ast.Name) and clsnode.id == "int":
            if isinstance(v, (VInt, VBool)):
                return VBool(True)
            if isinstance(v, VOpt) and isinstance(v.val, (VInt, VBool)):
                return VBool(z3.Not(v.isnone))
            if isinstance(v, VNone):
                return VBool(False)
        if isinstance(clsnode, ast.Name) and clsnode.id in self.value_classes():
            if isinstance(v, VU):
                return VBool(self.isa(clsnode.id)(v.t))
            if isinstance(v, VNone):
                return VBool(False)
        return None

    def axioms(self):
        # subclass relation on arbitrary values
        out = []
        x = z3.Const("x!isa", U)
        vcs = self.value_classes()
        for c in vcs:
            b = self.eng.reg.bases.get(c)
            if b in vcs:
                out.append(z3.ForAll([x], z3.Implies(self.isa(c)(x),
                                                     self.isa(b)(x))))
        return out


class ItertoolsModel(Model):
    """itertools.chain(it, itertools.cycle([x])): elements of `it`, then x
    forever (A-STD)."""

    def call_dotted(self, st, d, node):
        eng = self.eng
        if d == "itertools.cycle":
            arg = eng.eval(st, node.args[0])
            if isinstance(arg, VList):
                n_ = z3.simplify(arg.n)
                if z3.is_int_value(n_) and n_.as_long() == 1:
                    v = VFunc(name="cycle1")
                    v.elem = wrap(arg.eshape, z3.simplify(arg.arr[0]))
                    return v
                sm = self.lib.stream_model()
                return VStream(sm.CYC(sm.seq_of_list(st, arg)))
            raise self.E.Unsupported("itertools.cycle of this value")
        if d == "itertools.chain" and len(node.args) == 2:
            a = eng.eval(st, node.args[0])
            b = eng.eval(st, node.args[1])
            if isinstance(a, VIter) and isinstance(b, VFunc) and \
                    b.name == "cycle1":
                v = VFunc(name="chain_cycle")
                v.src = a
                v.tail = b.elem
                return v
            raise self.E.Unsupported("itertools.chain of these values")
        return NotImplemented

    def iter_of(self, st, v, line):
        if isinstance(v, VFunc) and v.name == "chain_cycle":
            return v
        return None

    def next_of(self, st, v, line):
        if isinstance(v, VFunc) and v.name == "chain_cycle":
            try:
                return self.lib.next_flat(st, v.src, line)
            except self.E.RaiseEx as ex:
                if ex.cls == "StopIteration":
                    return v.tail
                raise
        return None

    def for_source(self, st, node, srcv, K, stop):
        if isinstance(srcv, VFunc) and srcv.name == "chain_cycle":
            node._iter_src = True
            line = node.lineno

            def pull():
                return self.next_of(st, srcv, line)
            return pull
        return None


class ComprehensionModel(Model):
    """[Ctor(...) for _ in range(n)]: a list of n distinct fresh objects.
    (f(x) for x in xs) with f under contract returning a new object: a list
    of len(xs) distinct fresh objects, element i satisfying f's postcondition
    for argument xs[i]."""

    def map_contract(self, st, node, kind):
        eng = self.eng
        g = node.generators[0]
        elt = node.elt
        if not (isinstance(elt, ast.Call) and isinstance(elt.func, ast.Name)
                and isinstance(g.target, ast.Name) and len(elt.args) == 1
                and isinstance(elt.args[0], ast.Name)
                and elt.args[0].id == g.target.id and not elt.keywords):
            return None
        fc = eng.reg.find_function(eng.imports.get(elt.func.id,
                                                   elt.func.id).split(".")[-1])
        if fc is None or not (fc.returns or "").startswith("ref:") or \
                fc.modifies:
            return None
        src = eng.eval(st, g.iter)
        if not isinstance(src, VList):
            return None
        cls = fc.returns[4:]
        n = src.n
        base = st.next_ref
        nr = st.fresh("next_ref", IntS)
        st.assume(nr >= base + z3.If(n > 0, n, 0))
        st.next_ref = nr
        arr = st.fresh("mc_arr", z3.ArraySort(IntS, IntS))
        i = z3.Const("i!mc", IntS)
        j = z3.Const("j!mc", IntS)
        st.assume(z3.ForAll([i], z3.Implies(z3.And(0 <= i, i < n), z3.And(
            arr[i] >= base, arr[i] < nr))))
        st.assume(z3.ForAll([i, j], z3.Implies(
            z3.And(0 <= i, i < j, j < n), arr[i] != arr[j])))
        # fields of the new objects: havoc above `base`, frame below
        fields = set()
        for cl in fc.ensures:
            for nd in ast.walk(eng.spec_parse(cl.text)):
                if isinstance(nd, ast.Attribute) and isinstance(
                        nd.value, ast.Name) and nd.value.id == "result":
                    fields.add(nd.attr)
        keys = []
        for f_ in sorted(fields):
            k_, shp = eng.field_key(cls, f_)
            if not any(h == k_ or h.startswith(k_ + "#") for h in st.heap):
                eng._materialise(st, k_, shp)
            keys.append(k_)
        pre = dict(st.heap)
        eng.havoc_heap(st, keys)
        r = z3.Const("r!mc", IntS)
        for k in list(st.heap):
            if any(k == k_ or k.startswith(k_ + "#") for k_ in keys):
                st.assume(z3.ForAll([r], z3.Implies(r < base,
                                                    st.heap[k][r] == pre[k][r])))
        # postcondition of f for every element
        pname = list(fc.params)[0] if fc.params else None
        saved = st.locals
        st.locals = dict(saved)
        st.locals["result"] = VRef(arr[i], cls)
        if pname:
            st.locals[pname] = wrap(src.eshape, src.arr[i])
        try:
            conj = [eng.spec_bool(st, cl) for cl in fc.ensures]
        finally:
            st.locals = saved
        if conj:
            st.assume(z3.ForAll([i], z3.Implies(z3.And(0 <= i, i < n),
                                                z3.And(conj))))
        return VList(arr, n, "ref:" + cls)

    def tuple_of(self, st, v, line):
        if isinstance(v, VList):
            return v
        if isinstance(v, VStream) and getattr(v, "aslist", None) is not None:
            return v.aslist
        return None

    def comprehension(self, st, node, kind):
        eng = self.eng
        if kind in ("list", "gen") and len(node.generators) == 1 and \
                not node.generators[0].ifs:
            r = self.map_contract(st, node, kind)
            if r is not None:
                return r
        if kind != "list" or len(node.generators) != 1:
            return None
        g = node.generators[0]
        if g.ifs or g.is_async:
            return None
        elt = node.elt
        it = g.iter
        is_range = isinstance(it, ast.Call) and isinstance(it.func, ast.Name) \
            and it.func.id == "range" and len(it.args) == 1
        if is_range and isinstance(elt, ast.Call) and \
                isinstance(elt.func, ast.Name) and \
                elt.func.id in eng.reg.classes and \
                not eng.reg.classes[elt.func.id].get("_value"):
            cls = elt.func.id
            n = eng.eval(st, it.args[0]).t
            # evaluate the constructor arguments once (purity assumed for
            # attribute reads / names)
            for kw in elt.keywords:
                eng.eval(st, kw.value)
            for a in elt.args:
                eng.eval(st, a)
            base = st.next_ref
            cnt = z3.If(n > 0, n, 0)
            st.next_ref = base + cnt
            arr = st.fresh("comp_arr", z3.ArraySort(IntS, IntS))
            i = z3.Const("i!cp", IntS)
            st.assume(z3.ForAll([i], z3.Implies(z3.And(0 <= i, i < cnt),
                                                arr[i] == base + i)))
            lst = VList(arr, z3.simplify(cnt), "ref:" + cls)
            init = eng.reg.find_method(cls, "__init__")
            if init is not None:
                self.init_many(st, init, cls, base, cnt, elt)
            return lst
        return None


def _init_many(self, st, init, cls, base, cnt, elt):
    """Apply the __init__ contract to every object base <= q < base+cnt."""
    eng = self.eng
    q = z3.Const("q!cm", IntS)
    recv = VRef(q, cls)
    args, kwargs = eng.eval_args(st, elt)
    env = self.lib.bind_call(st, init, recv, args, kwargs, elt.lineno)
    keys = [m.split("@")[0] for m in init.modifies
            if not m.startswith("ghost:")]
    for k_ in keys:
        if not any(h == k_ or h.startswith(k_ + "#") for h in st.heap):
            eng._materialise(st, k_, eng._shape_of_key(k_))
    pre = {k: v for k, v in st.heap.items()}
    eng.havoc_heap(st, keys)
    r = z3.Const("r!cm", IntS)
    for k in list(st.heap):
        if any(k == k_ or k.startswith(k_ + "#") for k_ in keys):
            st.assume(z3.ForAll([r], z3.Implies(
                z3.Or(r < base, r >= base + cnt), st.heap[k][r] == pre[k][r])))
    saved = st.locals
    st.locals = dict(env)
    try:
        conj = [eng.spec_bool(st, cl) for cl in init.ensures]
    finally:
        st.locals = saved
    if conj:
        st.assume(z3.ForAll([q], z3.Implies(z3.And(base <= q, q < base + cnt),
                                            z3.And(conj))))


ComprehensionModel.init_many = _init_many

ALL = ALL + [ValueClassModel, ItertoolsModel, ComprehensionModel]


def _late():
    from .streams import StreamModel, TFModel, OpaqueLibModel
    return [TFModel, StreamModel, OpaqueLibModel]


# ---------------------------------------------------------------------------
DISKT = z3.ArraySort(U, U)


CERTT = z3.ArraySort(U, z3.ArraySort(U, BoolS))
GALGS_ARR = z3.Const("GALGS_ARR", z3.ArraySort(IntS, U))
GALGS_N = z3.Const("GALGS_N", IntS)


class DiskModel(Model):
    """Ghost file system (A-FS, A-IO):
       DSTATE : path -> {0 absent, 1 partial, 2 complete}
       DISK   : path -> content (meaningful when complete)
    `Path.read_text()` of a complete file returns DISK[path]; of anything else
    raises FileNotFoundError (a partial file is never reachable: C06)."""

    def init_ghosts(self, st, fc):
        st.ghost["DISK"] = z3.Const("DISK0", DISKT)
        st.ghost["DSTATE"] = z3.Const("DSTATE0", z3.ArraySort(U, IntS))
        st.ghost["FXN"] = VInt(z3.Const("FXN0", IntS))
        st.ghost["__fs_init"] = False
        # ghost label: CERT[root][rel] = "the list file rel of the dataset at
        # root is certified" (see contracts/c42_metadata.py GINV); a label
        # only: no program value depends on it
        st.ghost["CERT"] = z3.Const("CERT0", CERTT)

    def _facts(self, st):
        if st.ghost.get("__fs_init"):
            return
        st.ghost["__fs_init"] = True
        p = z3.Const("p!fs", U)
        d0 = z3.Const("DSTATE0", z3.ArraySort(U, IntS))
        st.pc.insert(0, z3.ForAll([p], z3.And(d0[p] >= 0, d0[p] <= 2)))

    def havoc_ghosts(self, st, ghosts, has_yield):
        if "cert" in ghosts:
            self.havoc_cert(st)
        if "fs" in ghosts:
            self._facts(st)
            old = st.ghost["DSTATE"]
            new = st.fresh("DSTATE", old.sort())
            p = z3.Const("p!fs", U)
            st.assume(z3.ForAll([p], z3.And(new[p] >= 0, new[p] <= 2)))
            # complete files stay complete (no effect of the code under
            # contract truncates or removes a complete file; renames replace
            # a complete file by a complete file)
            st.assume(z3.ForAll([p], z3.Implies(old[p] == 2, new[p] == 2)))
            st.ghost["DSTATE"] = new
            st.ghost["DISK"] = st.fresh("DISK", DISKT)
            oldn = st.ghost["FXN"].t
            n = st.fresh("FXN", IntS)
            st.assume(n >= oldn)
            st.ghost["FXN"] = VInt(n)

    def havoc_cert(self, st):
        st.ghost["CERT"] = st.fresh("CERT", CERTT)

    def fs_access(self, st, path, line, what):
        """C17: every file-system access of a function with a declared
        root stays (lexically) inside that root."""
        eng = self.eng
        fc = eng.cur
        if fc is None or not fc.fs_root:
            return
        saved = st.locals
        loc = dict(saved)
        for k_, v_ in (st.old["locals"] if st.old else {}).items():
            if v_ is not None:
                loc[k_] = v_
        st.locals = loc
        try:
            root = eng.coerce(st, eng.spec_eval(st, fc.fs_root), "U")
        finally:
            st.locals = saved
        eng.oblige(st, f"fs-inside-root({what})", line,
                   z3.Or(INSIDE(root, path), path == root), ["C17"])

    def call_other_method(self, st, recv, name, node):
        eng = self.eng
        if isinstance(recv, VU) and name in ("read_text", "mkdir"):
            self.fs_access(st, recv.t, node.lineno, name)
        if isinstance(recv, VU) and name == "read_text":
            self._facts(st)
            eng.eval_args(st, node)
            ds = st.ghost["DSTATE"]
            eng.require(st, ds[recv.t] == 2, "FileNotFoundError", node.lineno)
            return VU(st.ghost["DISK"][recv.t])
        if isinstance(recv, VU) and name == "is_file":
            self._facts(st)
            self.fs_access(st, recv.t, node.lineno, name)
            return VBool(st.ghost["DSTATE"][recv.t] == 2)
        if isinstance(recv, VU) and name in ("resolve", "expanduser"):
            # A-SYMLINK: no symlinks / '~' involved: lexical identity
            eng.used_assumptions.add("A-SYMLINK")
            return VU(recv.t)
        if isinstance(recv, VU) and name == "mkdir":
            eng.eval_args(st, node)
            st.ghost["FXN"] = VInt(st.ghost["FXN"].t + 1)
            return VNone()
        return NotImplemented

    def sp_disk(self, st):
        return st.ghost["DISK"]


class LoggerModel(Model):
    """self._logger.info(...) etc.: no effect on the modelled state."""

    def call_ref_method(self, st, recv, name, node):
        return NotImplemented

    def call_other_method(self, st, recv, name, node):
        if isinstance(recv, VModule) and recv.name.startswith("logger"):
            for a in node.args:
                try:
                    self.eng.eval(st, a)
                except self.E.Unsupported:
                    pass
            return VNone()
        return NotImplemented

    def getattr(self, st, obj, attr, line):
        if attr == "_logger":
            return VModule("logger")
        return None

    def property_get(self, st, obj, attr, line):
        if attr == "_logger":
            return VModule("logger")
        return None


class PydModel(Model):
    """pydantic (A-PYD): Cls.model_validate_json(text) returns a fresh object
    equal, field by field, to the document PARSE_<Cls>(text) and satisfying
    the class's validators (stated as the sidecar macro VALID_<Cls>, whose
    clauses are the postconditions of the validator contracts); it raises
    ValueError (pydantic.ValidationError) for a rejected document."""

    def parse_fn(self, cls):
        return z3.Function("PARSE_" + cls, U, IntS)

    def call_dotted(self, st, d, node):
        eng = self.eng
        parts = d.split(".")
        if len(parts) >= 2 and parts[-1] == "model_validate_json" and \
                parts[-2] in eng.reg.classes:
            cls = parts[-2]
            text = eng.eval(st, node.args[0])
            return self.validate_json(st, cls, text, node.lineno)
        return NotImplemented

    def validate_json(self, st, cls, text, line):
        eng = self.eng
        E = self.E
        tt = eng.coerce(st, text, "U")
        rejected = z3.Function("REJECTS_" + cls, U, BoolS)
        if st.branch(rejected(tt), f"validate-rejects@{line}"):
            raise E.RaiseEx("ValueError", line, "pydantic validation error")
        snap = VRef(self.parse_fn(cls)(tt), cls)
        st.assume(snap.t >= 1)
        st.assume(snap.t < st.old["next_ref"] if st.old else snap.t >= 1)
        new = eng.alloc(st, cls)
        self.copy_fields(st, cls, snap, new)
        from .engine import ISDISK
        st.assume(ISDISK(snap.t))
        for f_, shape in eng.reg.classes.get(cls, {}).items():
            if isinstance(shape, str) and shape.startswith("list:ref:"):
                lst = eng.load_field(st, snap, f_)
                i = z3.Const("i!dk", IntS)
                st.assume(z3.ForAll([i], z3.Implies(
                    z3.And(0 <= i, i < lst.n), ISDISK(lst.arr[i]))))
        macro = "VALID_" + cls
        if macro in eng.reg.macros:
            saved = st.locals
            st.locals = dict(saved)
            st.locals["__v"] = new
            try:
                st.assume(eng.spec_bool(st, f"{macro}(__v)"))
            finally:
                st.locals = saved
        new.snapshot = snap
        return new

    def dump_fn(self, cls):
        return z3.Function("DUMP_" + cls, IntS, U)

    def call_ref_method(self, st, recv, name, node):
        eng = self.eng
        if name == "model_dump_json" and recv.cls in eng.reg.classes:
            eng.eval_args(st, node)
            excl = False
            if node.args:
                raise self.E.Unsupported("model_dump_json with positional arguments")
            for kw in node.keywords:
                if kw.arg == "indent":
                    continue
                if kw.arg == "exclude_defaults" and isinstance(
                        kw.value, ast.Constant) and isinstance(
                            kw.value.value, bool):
                    excl = kw.value.value
                    continue
                raise self.E.Unsupported(f"model_dump_json({kw.arg}=...)")
            if excl:
                # A-PYD narrowed: a dump that leaves out the fields equal to
                # their defaults parses back to the same model only if the
                # reading side fills in the SAME defaults.  True for defaults
                # that are literals of the class statement; a default computed
                # from the environment (the running library's version) is a
                # different value in another release: the dump-parse identity
                # then needs DEFAULT_writer == DEFAULT_reader, which nothing
                # entails - one obligation per such field, refuted.
                for c_, f_, src_ in self.env_defaults(recv.cls):
                    w = z3.Const(f"DEFAULT_WRITER!{c_}.{f_}", U)
                    r = z3.Const(f"DEFAULT_READER!{c_}.{f_}", U)
                    # (independent of the path: stated without the path
                    # condition, so that the solver can exhibit the model)
                    eng.oblige(st, "dump-parse-identity", node.lineno, w == r,
                               label=f"{c_}.{f_} = {src_}", no_pc=True)
            snap = eng.alloc(st, recv.cls)
            self.copy_fields(st, recv.cls, recv, snap)
            t = self.dump_fn(recv.cls)(snap.t)
            # A-PYD: a dumped model parses back to itself and is accepted
            st.assume(self.parse_fn(recv.cls)(t) == snap.t)
            st.assume(z3.Not(z3.Function("REJECTS_" + recv.cls, U, BoolS)(t)))
            return VU(t)
        return NotImplemented

    _CONTAINER_FACTORIES = ("dict", "list", "set", "tuple", "frozenset")

    def env_defaults(self, cls):
        """[(class, field, source text)] over the model classes reachable from
        cls (as declared in the repository's real class statements): fields
        whose default is not a literal of the class statement."""
        from . import source as S
        idx = S.class_index(self.eng.repo)
        out, seen, todo = [], set(), [cls]

        def literal(e):
            if isinstance(e, ast.Constant):
                return True
            if isinstance(e, ast.UnaryOp):
                return literal(e.operand)
            if isinstance(e, (ast.Tuple, ast.List, ast.Set)):
                return all(literal(x) for x in e.elts)
            if isinstance(e, ast.Dict):
                return all(k is not None and literal(k) and literal(v)
                           for k, v in zip(e.keys, e.values))
            return False

        def names_in(e):
            return {n.id for n in ast.walk(e) if isinstance(n, ast.Name)}
        while todo:
            c = todo.pop()
            if c in seen or c not in idx:
                continue
            seen.add(c)
            _, cnode = idx[c]
            for b in cnode.bases:
                todo.extend(names_in(b) & set(idx))
            for n in cnode.body:
                if not isinstance(n, ast.AnnAssign) or not isinstance(
                        n.target, ast.Name):
                    continue
                todo.extend(names_in(n.annotation) & set(idx))
                d = n.value
                if d is None or literal(d):
                    continue
                if isinstance(d, ast.Call) and isinstance(d.func, ast.Name) \
                        and d.func.id == "Field" and not d.args:
                    ok = True
                    for kw in d.keywords:
                        if kw.arg == "default":
                            ok = ok and literal(kw.value)
                        elif kw.arg == "default_factory":
                            ok = ok and isinstance(kw.value, ast.Name) and (
                                kw.value.id in self._CONTAINER_FACTORIES or
                                kw.value.id in idx)
                            if isinstance(kw.value, ast.Name) and \
                                    kw.value.id in idx:
                                todo.append(kw.value.id)
                        elif kw.arg in ("default", "default_factory"):
                            ok = False
                    if ok:
                        continue
                out.append((c, n.target.id, ast.unparse(d)))
        return sorted(out)

    def copy_fields(self, st, cls, src, dst):
        eng = self.eng
        c = cls
        seen = set()
        while c is not None:
            for f, shape in eng.reg.classes.get(c, {}).items():
                if f.startswith("_") and f in ("_order", "_defaults",
                                               "_validate", "_value"):
                    continue
                if f in seen or not isinstance(shape, str):
                    continue
                seen.add(f)
                v = eng.load_field(st, src, f)
                if isinstance(v, VList):
                    v = VList(v.arr, v.n, v.eshape, v.ms)
                eng.store_field(st, dst, f, v)
            c = eng.reg.bases.get(c)


ALL = ALL + [DiskModel, LoggerModel, PydModel]


KSEQ = z3.Function("KSEQ", z3.ArraySort(U, BoolS), IntS, U)
KN = z3.Function("KN", z3.ArraySort(U, BoolS), IntS)
KIDX = z3.Function("KIDX", z3.ArraySort(U, BoolS), U, IntS)


class DictIterModel(Model):
    """for k / v / (k, v) in d.keys() / d.values() / d.items(): visits every
    key of d exactly once (KSEQ(dom, i), i < KN(dom) is a bijection onto the
    key set).  The order is left unspecified (a function of the key set)."""

    def for_source(self, st, node, srcv, K, stop):
        if isinstance(srcv, VDict):
            srcv_ = VFunc(name="keys", bound=srcv)
        else:
            srcv_ = srcv
        if not (isinstance(srcv_, VFunc) and isinstance(srcv_.bound, VDict)
                and srcv_.name in ("keys", "values", "items")):
            return None
        d = srcv_.bound
        line = node.lineno
        if d.val is None:
            def pull_empty():
                stop()
            return pull_empty
        dom = d.dom
        n = KN(dom)
        i = z3.Const("i!dk", IntS)
        j = z3.Const("j!dk", IntS)
        k = z3.Const("k!dk", U)
        st.assume(n >= 0)
        st.assume(z3.ForAll([i], z3.Implies(z3.And(0 <= i, i < n),
                                            z3.And(dom[KSEQ(dom, i)],
                                                   KIDX(dom, KSEQ(dom, i)) == i))))
        st.assume(z3.ForAll([k], z3.Implies(dom[k], z3.And(
            0 <= KIDX(dom, k), KIDX(dom, k) < n, KSEQ(dom, KIDX(dom, k)) == k))))

        def pull():
            if not st.branch(K() < n, f"fordict@{line}"):
                stop()
            key = KSEQ(dom, K())
            kv = VU(key)
            if d.vshape.startswith("list:"):
                vv = VList(d.val[key], d.vlen[key], d.vshape[5:])
            else:
                vv = wrap(d.vshape, d.val[key])
            if srcv_.name == "keys":
                return kv
            if srcv_.name == "values":
                return vv
            return VTuple([kv, vv])
        return pull


JDUMP = z3.Function("JDUMP", U, U)


class DictObjModel(Model):
    """d.items() / sorted(..) / tuple(..) of a dict object: opaque values
    determined by the dict's value.  A tuple built from a dict's items is
    hashable only if every value in it is: not guaranteed for JSON-like
    metadata (nested dicts / lists), hence `maybe_unhashable`."""

    def call_ref_method(self, st, recv, name, node):
        if recv.cls == "DictObj" and name in ("items", "keys", "values"):
            val = self.eng.load_field(st, recv, "value")
            f = z3.Function("DICT_" + name, U, U)
            v = VU(f(val.t))
            v.maybe_unhashable = name != "keys"
            return v
        return NotImplemented

    def call_global(self, st, name, node):
        eng = self.eng
        if name in ("sorted", "tuple", "list", "frozenset") and node.args:
            # peek: only handle opaque dict-derived values here
            if isinstance(node.args[0], ast.Call) or True:
                pass
        return NotImplemented

    def tuple_of(self, st, v, line):
        if isinstance(v, VU):
            f = z3.Function("TUPLE_OF", U, U)
            r = VU(f(v.t))
            r.maybe_unhashable = getattr(v, "maybe_unhashable", False)
            return r
        return None


class JsonModel(Model):
    """json.dumps(x, sort_keys=True): the canonical JSON text of the value
    of x (a function of the value; injective on JSON values: A-JSON)."""

    def call_dotted(self, st, d, node):
        eng = self.eng
        if d == "json.dumps":
            v = eng.eval(st, node.args[0])
            for kw in node.keywords:
                eng.eval(st, kw.value)
            if isinstance(v, VRef) and v.cls == "DictObj":
                val = eng.load_field(st, v, "value")
                return VU(JDUMP(val.t))
            if isinstance(v, VU):
                return VU(JDUMP(v.t))
            raise self.E.Unsupported("json.dumps of this value")
        return NotImplemented


ALL = ALL + [DictIterModel, DictObjModel, JsonModel]


# ---------------------------------------------------------------------------
FLEN = z3.Function("FLEN", U, IntS)          # length in bytes of a content
HEX = z3.Function("HEX", U, U, IntS, U)     # HEX(alg, content, n): hex digest of the first n bytes
FRESHNAME = z3.Function("FRESHNAME", U, BoolS)
PPARENT = z3.Function("PPARENT", U, U)
PNAME = z3.Function("PNAME", U, U)


class IOModel(Model):
    """Files and hashes (A-IO, A-HASH, A-FS).

    open(p, 'rb')   -> FileObj(content = DISK[p], pos = 0); FileNotFoundError
                       unless p is complete
    f.readinto(mv)  -> n with 0 <= n <= min(len(mv), flen - pos), n == 0 iff
                       pos == flen; mv[:n] = content[pos : pos + n]
    h.update(mv[:i])-> h has been fed exactly a longer prefix iff it had been
                       fed content[:off] and the view holds content[off:off+n],
                       i <= n
    h.hexdigest()   -> HEX(alg, content, fed_len) for a hash fed a prefix
    open(p, 'w')    -> obligation: p does not exist (never truncate a file that
                       may be referenced); p is partial until the with-block
                       is left (close); write(s) sets the pending content
    p.replace(q)    -> obligation: p is complete (closed); q becomes complete
                       with p's content atomically, p disappears
    """

    def axioms(self):
        c = z3.Const("c!io", U)
        c2 = z3.Const("c2!io", U)
        a = z3.Const("a!io", U)
        return [z3.ForAll([c], FLEN(c) >= 0),
                # the digest of the empty prefix does not depend on the file
                z3.ForAll([a, c, c2], HEX(a, c, 0) == HEX(a, c2, 0),
                          patterns=[z3.MultiPattern(HEX(a, c, 0),
                                                    HEX(a, c2, 0))])]

    def _fs(self):
        for m in self.ext.models:
            if type(m).__name__ == "DiskModel":
                return m

    def call_global(self, st, name, node):
        eng = self.eng
        if name == "open":
            args, kwargs = eng.eval_args(st, node)
            path = eng.coerce(st, args[0], "U")
            mode = args[1] if len(args) > 1 else kwargs.get("mode")
            m = mode.lit if isinstance(mode, VU) and mode.lit else "r"
            self._fs()._facts(st)
            self._fs().fs_access(st, path, node.lineno, "open")
            f = eng.alloc(st, "FileObj")
            eng.store_field(st, f, "path", VU(path))
            eng.store_field(st, f, "writing", VBool("w" in m or "a" in m))
            if "w" in m:
                ds = st.ghost["DSTATE"]
                # C06: a file that exists is never opened for (truncating) write
                eng.oblige(st, "open-for-write-is-fresh", node.lineno,
                           ds[path] == 0, ["C06"])
                st.ghost["DSTATE"] = z3.Store(ds, path, z3.IntVal(1))
                st.ghost["FXN"] = VInt(st.ghost["FXN"].t + 1)
                eng.store_field(st, f, "content", VU(eng.strconst("")))
                eng.store_field(st, f, "pos", VInt(0))
            else:
                ds = st.ghost["DSTATE"]
                eng.require(st, ds[path] == 2, "FileNotFoundError",
                            node.lineno)
                eng.store_field(st, f, "content", VU(st.ghost["DISK"][path]))
                eng.store_field(st, f, "pos", VInt(0))
            return f
        if name == "memoryview":
            v = eng.eval(st, node.args[0])
            mv = eng.alloc(st, "MemView")
            n = v.t if isinstance(v, VInt) else st.fresh("mvlen", IntS)
            eng.store_field(st, mv, "size", VInt(n))
            eng.store_field(st, mv, "src", VU(NONE_U))
            eng.store_field(st, mv, "off", VInt(0))
            eng.store_field(st, mv, "n", VInt(0))
            return mv
        if name == "bytearray":
            v = eng.eval(st, node.args[0])
            return v  # only its length matters (passed on to memoryview)
        return NotImplemented

    def ctx_enter(self, st, ctx, line):
        if isinstance(ctx, VRef) and ctx.cls == "FileObj":
            return ctx
        return None

    def ctx_exit(self, st, ctx, ex, line):
        if isinstance(ctx, VRef) and ctx.cls == "FileObj":
            eng = self.eng
            w = eng.load_field(st, ctx, "writing")
            if z3.is_true(z3.simplify(w.t)):
                path = eng.load_field(st, ctx, "path").t
                content = eng.load_field(st, ctx, "content").t
                # close: the file is complete with what was written
                st.ghost["DSTATE"] = z3.Store(st.ghost["DSTATE"], path,
                                              z3.IntVal(2))
                st.ghost["DISK"] = z3.Store(st.ghost["DISK"], path, content)
                st.ghost["FXN"] = VInt(st.ghost["FXN"].t + 1)
            return "propagate"
        return None

    def call_ref_method(self, st, recv, name, node):
        eng = self.eng
        E = self.E
        if recv.cls == "FileObj":
            if name == "readinto":
                mv = eng.eval(st, node.args[0])
                content = eng.load_field(st, recv, "content").t
                pos = eng.load_field(st, recv, "pos").t
                size = eng.load_field(st, mv, "size").t
                n = st.fresh("nread", IntS)
                flen = FLEN(content)
                st.assume(z3.And(n >= 0, n <= size, n <= flen - pos))
                st.assume((n == 0) == z3.Or(pos >= flen, size == 0))
                eng.store_field(st, mv, "src", VU(content))
                eng.store_field(st, mv, "off", VInt(pos))
                eng.store_field(st, mv, "n", VInt(n))
                eng.store_field(st, recv, "pos", VInt(pos + n))
                return VInt(n)
            if name == "write":
                v = eng.eval(st, node.args[0])
                eng.store_field(st, recv, "content",
                                VU(eng.coerce(st, v, "U")))
                return VNone()
            if name == "read":
                content = eng.load_field(st, recv, "content")
                return content
        if recv.cls == "HashObj":
            if name == "update":
                chunk = eng.eval(st, node.args[0])
                if isinstance(chunk, VRef) and chunk.cls == "MemView":
                    # the whole buffer, whatever part of it was filled
                    chunk = VTuple([chunk, VInt(0),
                                    eng.load_field(st, chunk, "size")])
                if not isinstance(chunk, VTuple) or len(chunk.items) != 3:
                    raise E.Unsupported("hash.update of this value")
                mv, lo, hi = chunk.items
                src = eng.load_field(st, mv, "src").t
                off = eng.load_field(st, mv, "off").t
                n = eng.load_field(st, mv, "n").t
                fed_len = eng.load_field(st, recv, "fed_len").t
                fed_src = eng.load_field(st, recv, "fed_src").t
                good = eng.load_field(st, recv, "fed_good").t
                k = hi.t - lo.t
                ok = z3.And(good, lo.t == 0, hi.t >= 0, hi.t == n,
                            z3.Or(fed_len == 0, fed_src == src),
                            fed_len == off)
                eng.store_field(st, recv, "fed_good", VBool(z3.simplify(ok)))
                eng.store_field(st, recv, "fed_src", VU(src))
                eng.store_field(st, recv, "fed_len", VInt(fed_len + k))
                return VNone()
            if name == "hexdigest":
                alg = eng.load_field(st, recv, "alg").t
                fed_len = eng.load_field(st, recv, "fed_len").t
                fed_src = eng.load_field(st, recv, "fed_src").t
                good = eng.load_field(st, recv, "fed_good").t
                bad = z3.Function("BADHEX", U, U, IntS, U)
                return VU(z3.If(good, HEX(alg, fed_src, fed_len),
                                bad(alg, fed_src, fed_len)))
        return NotImplemented

    def slice(self, st, obj, lo, hi, line):
        if isinstance(obj, VRef) and obj.cls == "MemView":
            l_ = lo if lo is not None else VInt(0)
            if hi is None:
                raise self.E.Unsupported("memoryview[a:]")
            return VTuple([obj, l_, hi])
        return None

    def call_dotted(self, st, d, node):
        eng = self.eng
        if d in ("xxhash.xxh32", "xxhash.xxh64", "xxhash.xxh128"):
            return self.new_hash(st, VU(eng.strconst(d.split(".")[1])))
        if d == "hashlib.new":
            return self.new_hash(st, eng.eval(st, node.args[0]))
        if d == "uuid.uuid4":
            t = st.fresh("uuid", U)
            st.assume(FRESHNAME(t))
            return VU(t)
        return NotImplemented

    def new_hash(self, st, alg):
        eng = self.eng
        h = eng.alloc(st, "HashObj")
        eng.store_field(st, h, "alg", alg)
        eng.store_field(st, h, "fed_len", VInt(0))
        eng.store_field(st, h, "fed_src", VU(NONE_U))
        eng.store_field(st, h, "fed_good", VBool(True))
        return h

    def getattr(self, st, obj, attr, line):
        if isinstance(obj, VU):
            if attr == "hex":
                t = st.fresh("hexname", U)
                st.assume(FRESHNAME(t) == FRESHNAME(obj.t))
                return VU(t)
            if attr == "parent":
                return VU(PPARENT(obj.t))
            if attr == "name":
                return VU(PNAME(obj.t))
        return None

    def call_other_method(self, st, recv, name, node):
        eng = self.eng
        if isinstance(recv, VU) and name == "replace" and len(node.args) == 1:
            dst = eng.coerce(st, eng.eval(st, node.args[0]), "U")
            src = recv.t
            self._fs().fs_access(st, dst, node.lineno, "replace")
            ds = st.ghost["DSTATE"]
            # C06: only a completely written (closed) file is renamed into place
            eng.oblige(st, "rename-source-complete", node.lineno,
                       ds[src] == 2, ["C06"])
            disk = st.ghost["DISK"]
            st.ghost["DISK"] = z3.Store(disk, dst, disk[src])
            ds = z3.Store(ds, dst, z3.IntVal(2))
            st.ghost["DSTATE"] = z3.Store(ds, src, z3.IntVal(0))
            st.ghost["FXN"] = VInt(st.ghost["FXN"].t + 1)
            return VNone()
        return NotImplemented

    def iter_sentinel(self, st, node):
        """iter(callable, sentinel)"""
        eng = self.eng
        f = eng.eval(st, node.args[0])
        sent = eng.eval(st, node.args[1])
        v = VFunc(name="iter_sentinel")
        v.fn = f
        v.sentinel = sent
        return v

    def for_source(self, st, node, srcv, K, stop):
        if isinstance(srcv, VFunc) and srcv.name == "iter_sentinel":
            eng = self.eng
            line = node.lineno

            def pull():
                fn = srcv.fn
                if isinstance(fn, VFunc) and isinstance(fn.bound, ast.Lambda):
                    if fn.bound.args.args:
                        raise self.E.Unsupported("iter(callable) with args")
                    v = eng.eval(st, fn.bound.body)
                else:
                    raise self.E.Unsupported("iter(callable, sentinel)")
                if st.branch(eng.equal(st, v, srcv.sentinel),
                             f"iter-sentinel@{line}"):
                    stop()
                return v
            return pull
        return None


class FStringNames(Model):
    """An f-string with a fresh (uuid) component is a fresh name; a path whose
    last component is fresh does not exist yet (A-STD uuid)."""
    pass


ALL = ALL + [IOModel]


# ---------------------------------------------------------------------------
ISABS = z3.Function("ISABS", U, BoolS)
HASDD = z3.Function("HASDD", U, BoolS)        # ".." among the parts
INSIDE = z3.Function("INSIDE", U, U, BoolS)   # INSIDE(root, p): p lexically inside root
PARTS = z3.Function("PARTS", U, U)
NPARTS = z3.Function("NPARTS", U, IntS)
PART = z3.Function("PART", U, IntS, U)        # i-th component
PPREFIX = z3.Function("PPREFIX", U, IntS, U)  # path of the first k components
DOT = z3.Const("str_dot", U)                   # Path() == Path('.'): no components


class PathModel2(Model):
    """pathlib (lexical model, A-SYMLINK): p.parts, p.name, p.parent,
    p.is_absolute(), a / b, '..' in p.parts, p.is_relative_to(q),
    Path().joinpath(*p.parts[:k])."""

    def axioms(self):
        a = z3.Const("a!p", U)
        b = z3.Const("b!p", U)
        c = z3.Const("c!p", U)
        i_ = z3.Const("i!p", IntS)
        k_ = z3.Const("k!p", IntS)
        m_ = z3.Const("m!p", IntS)
        return [
            # joining with an absolute right operand discards the left one
            z3.ForAll([a, b], z3.Implies(ISABS(b), PJOIN(a, b) == b),
                      patterns=[PJOIN(a, b)]),
            z3.ForAll([a, b], ISABS(PJOIN(a, b)) == z3.Or(ISABS(a), ISABS(b)),
                      patterns=[PJOIN(a, b)]),
            z3.ForAll([a, b], HASDD(PJOIN(a, b)) == z3.Or(
                HASDD(b), z3.And(z3.Not(ISABS(b)), HASDD(a))),
                patterns=[PJOIN(a, b)]),
            # a relative path without '..' stays inside the directory it is
            # joined to (lexical containment)
            z3.ForAll([a, b], z3.Implies(
                z3.And(z3.Not(ISABS(b)), z3.Not(HASDD(b))),
                INSIDE(a, PJOIN(a, b))), patterns=[PJOIN(a, b)]),
            z3.ForAll([a, b, c], z3.Implies(
                z3.And(INSIDE(a, b), z3.Not(ISABS(c)), z3.Not(HASDD(c))),
                INSIDE(a, PJOIN(b, c))), patterns=[INSIDE(a, PJOIN(b, c))]),
            # the directory of a file inside the root that is not the root
            # itself is inside (or is) the root
            z3.ForAll([a, b], z3.Implies(
                z3.And(z3.Not(ISABS(b)), z3.Not(HASDD(b)), NPARTS(b) >= 1),
                z3.Or(INSIDE(a, PPARENT(PJOIN(a, b))),
                      PPARENT(PJOIN(a, b)) == a)),
                patterns=[PPARENT(PJOIN(a, b))]),
            z3.ForAll([a], INSIDE(a, a), patterns=[INSIDE(a, a)]),
            # a / b == a / c  =>  b == c for relative b, c (the parts of a
            # join are the parts of the operands, one after the other)
            z3.ForAll([a, b, c], z3.Implies(
                z3.And(z3.Not(ISABS(b)), z3.Not(ISABS(c)),
                       PJOIN(a, b) == PJOIN(a, c)), b == c),
                patterns=[z3.MultiPattern(PJOIN(a, b), PJOIN(a, c))]),
            # ... and a / c == b / c  =>  a == b (relative c)
            z3.ForAll([a, b, c], z3.Implies(
                z3.And(z3.Not(ISABS(c)), PJOIN(a, c) == PJOIN(b, c)), a == b),
                patterns=[z3.MultiPattern(PJOIN(a, c), PJOIN(b, c))]),
            # the first component of a join is the first component of its
            # left operand (for a relative right operand)
            z3.ForAll([a, b], z3.Implies(
                z3.And(z3.Not(ISABS(b)), NPARTS(a) >= 1),
                PART(PJOIN(a, b), 0) == PART(a, 0)),
                patterns=[PJOIN(a, b)]),
            # the last component of a join is the last component of its
            # (relative) right operand
            # (a right operand with at least one component: `x / Path('.')`
            # is x, whose name is the name of x)
            z3.ForAll([a, b], z3.Implies(
                z3.And(z3.Not(ISABS(b)), NPARTS(b) >= 1),
                PNAME(PJOIN(a, b)) == PNAME(b)),
                patterns=[PJOIN(a, b)]),
            # number of components; the only path without components is '.'
            z3.ForAll([a], NPARTS(a) >= 0, patterns=[NPARTS(a)]),
            z3.ForAll([a], (NPARTS(a) == 0) == (a == DOT),
                      patterns=[NPARTS(a)]),
            z3.ForAll([a, b], z3.Implies(
                z3.Not(ISABS(b)),
                NPARTS(PJOIN(a, b)) == NPARTS(a) + NPARTS(b)),
                patterns=[PJOIN(a, b)]),
            z3.ForAll([a], PJOIN(a, DOT) == a, patterns=[PJOIN(a, DOT)]),
            z3.ForAll([a], PJOIN(DOT, a) == a, patterns=[PJOIN(DOT, a)]),
            z3.And(z3.Not(ISABS(DOT)), z3.Not(HASDD(DOT)), PNAME(DOT) == DOT),
        ]

    def lemma_axioms(self):
        """Facts about components and prefixes.  NOT given to the solver as
        quantified axioms (their terms feed each other's triggers: matching
        loops); a proof step asks for the instances it needs with the spec
        built-in path_inst(p, k, m).  Audited against pathlib together with
        axioms()."""
        a = z3.Const("a!p", U)
        b = z3.Const("b!p", U)
        i_ = z3.Const("i!p", IntS)
        k_ = z3.Const("k!p", IntS)
        m_ = z3.Const("m!p", IntS)
        return [
            # components of a join: those of the left operand, then those of
            # the (relative) right operand
            z3.ForAll([a, b, i_], z3.Implies(
                z3.And(z3.Not(ISABS(b)), 0 <= i_, i_ < NPARTS(a)),
                PART(PJOIN(a, b), i_) == PART(a, i_)),
                patterns=[PART(PJOIN(a, b), i_)]),
            z3.ForAll([a, b, i_], z3.Implies(
                z3.And(z3.Not(ISABS(b)), NPARTS(a) <= i_,
                       i_ < NPARTS(a) + NPARTS(b)),
                PART(PJOIN(a, b), i_) == PART(b, i_ - NPARTS(a))),
                patterns=[PART(PJOIN(a, b), i_)]),
            # prefixes: PPREFIX(a, k) = Path(*a.parts[:k]) for k >= 0
            z3.ForAll([a, k_], z3.Implies(
                z3.And(k_ >= 0, k_ <= NPARTS(a)),
                NPARTS(PPREFIX(a, k_)) == k_), patterns=[PPREFIX(a, k_)]),
            z3.ForAll([a, k_], z3.Implies(k_ >= NPARTS(a),
                                          PPREFIX(a, k_) == a),
                      patterns=[PPREFIX(a, k_)]),
            z3.ForAll([a, k_, i_], z3.Implies(
                z3.And(0 <= i_, i_ < k_, i_ < NPARTS(a)),
                PART(PPREFIX(a, k_), i_) == PART(a, i_)),
                patterns=[PART(PPREFIX(a, k_), i_)]),
            z3.ForAll([a, k_, m_], z3.Implies(
                z3.And(0 <= m_, m_ <= k_),
                PPREFIX(PPREFIX(a, k_), m_) == PPREFIX(a, m_)),
                patterns=[PPREFIX(PPREFIX(a, k_), m_)]),
            z3.ForAll([a, k_], z3.Implies(
                z3.And(k_ >= 0, z3.Not(ISABS(a))),
                z3.And(z3.Not(ISABS(PPREFIX(a, k_))),
                       z3.Implies(HASDD(PPREFIX(a, k_)), HASDD(a)))),
                patterns=[PPREFIX(a, k_)]),
            # a prefix of a join that ends inside the left operand
            z3.ForAll([a, b, k_], z3.Implies(
                z3.And(z3.Not(ISABS(b)), 0 <= k_, k_ <= NPARTS(a)),
                PPREFIX(PJOIN(a, b), k_) == PPREFIX(a, k_)),
                patterns=[PPREFIX(PJOIN(a, b), k_)]),
            # one more component: prefix(k + 1) = prefix(k) / part(k)
            z3.ForAll([a, k_], z3.Implies(
                z3.And(0 <= k_, k_ < NPARTS(a), z3.Not(ISABS(a))),
                PPREFIX(a, k_ + 1) == PJOIN(PPREFIX(a, k_), PART(a, k_))),
                patterns=[z3.MultiPattern(PPREFIX(a, k_), PART(a, k_))]),
            # a component of a relative path is a single plain name
            z3.ForAll([a, i_], z3.Implies(
                z3.And(0 <= i_, i_ < NPARTS(a), z3.Not(ISABS(a))),
                z3.And(NPARTS(PART(a, i_)) == 1, z3.Not(ISABS(PART(a, i_))),
                       z3.Implies(HASDD(PART(a, i_)), HASDD(a)),
                       PNAME(PART(a, i_)) == PART(a, i_),
                       PART(PART(a, i_), 0) == PART(a, i_))),
                patterns=[PART(a, i_)]),
            # the last component is the name; a path is its directory / name
            z3.ForAll([a], z3.Implies(
                z3.And(NPARTS(a) >= 1, z3.Not(ISABS(a))),
                z3.And(PNAME(a) == PART(a, NPARTS(a) - 1),
                       a == PJOIN(PPREFIX(a, NPARTS(a) - 1), PNAME(a)))),
                patterns=[PNAME(a)]),
            # lexical containment in terms of components
            z3.ForAll([a, b], z3.Implies(
                z3.And(z3.Not(ISABS(a)), z3.Not(ISABS(b))),
                INSIDE(a, b) == z3.And(NPARTS(a) <= NPARTS(b),
                                       PPREFIX(b, NPARTS(a)) == a)),
                patterns=[INSIDE(a, b)]),
        ]

    def path_inst(self, p, k, m=None, q=None, i=None):
        """ground instances of lemma_axioms() at a := p, k := k, i := i
        (default k), m := m (default k - 1), b := q (default p)"""
        a = z3.Const("a!p", U)
        b = z3.Const("b!p", U)
        i_ = z3.Const("i!p", IntS)
        k_ = z3.Const("k!p", IntS)
        m_ = z3.Const("m!p", IntS)
        m = k - 1 if m is None else m
        q = p if q is None else q
        out = []
        for ax in self.lemma_axioms():
            body = ax.body()
            n = ax.num_vars()
            names = [ax.var_name(j) for j in range(n)]
            vals = {"a!p": p, "b!p": q, "i!p": k if i is None else i,
                    "k!p": k, "m!p": m}
            # de Bruijn: variable j (in binding order) has index n-1-j
            subs = [vals[names[j]] for j in range(n)]
            out.append(z3.substitute_vars(body, *reversed(subs)))
        return z3.And(out)

    def getattr(self, st, obj, attr, line):
        if isinstance(obj, VU):
            if attr == "parts":
                v = VU(PARTS(obj.t))
                v.parts_of = obj.t
                return v
        return None

    def contains(self, st, container, x, line):
        if isinstance(container, VU) and getattr(container, "parts_of",
                                                 None) is not None:
            if isinstance(x, VU) and x.lit == "..":
                return HASDD(container.parts_of)
        return None

    def call_other_method(self, st, recv, name, node):
        eng = self.eng
        if isinstance(recv, VU):
            if name == "is_absolute":
                return VBool(ISABS(recv.t))
            if name == "is_relative_to":
                other = eng.coerce(st, eng.eval(st, node.args[0]), "U")
                return VBool(INSIDE(other, recv.t))
            if name == "joinpath" and not node.keywords:
                # p.joinpath(a, b, *q.parts[:k]): successive joins; a starred
                # prefix of another path's parts contributes that prefix path
                t = recv.t
                for a_ in node.args:
                    if isinstance(a_, ast.Starred):
                        v = eng.eval(st, a_.value)
                        if not (isinstance(v, VU) and getattr(
                                v, "parts_of", None) is not None):
                            raise self.E.Unsupported(
                                "joinpath(*x) where x is not a parts view")
                        t = PJOIN(t, v.parts_of)
                    else:
                        t = PJOIN(t, eng.coerce(st, eng.eval(st, a_), "U"))
                return VU(t)
        return NotImplemented

    def len_of(self, st, v, line):
        if isinstance(v, VU) and getattr(v, "parts_of", None) is not None:
            return VInt(NPARTS(v.parts_of))
        if isinstance(v, VRef) and v.cls == "MemView":
            return self.eng.load_field(st, v, "size")
        return None

    def getitem(self, st, obj, idx, line):
        if isinstance(obj, VU) and getattr(obj, "parts_of", None) is not None \
                and isinstance(idx, VInt):
            v = VU(PART(obj.parts_of, idx.t))
            v.is_part = True
            return v
        return None

    def str_of(self, st, v, line):
        # a component of p.parts is a str already
        if isinstance(v, VU) and getattr(v, "is_part", False):
            return v
        return None

    def slice(self, st, obj, lo, hi, line):
        if isinstance(obj, VU) and getattr(obj, "parts_of", None) is not None \
                and lo is None and isinstance(hi, VInt):
            v = VU(PARTS(PPREFIX(obj.parts_of, hi.t)))
            v.prefix_of = (obj.parts_of, hi.t)
            v.parts_of = PPREFIX(obj.parts_of, hi.t)
            return v
        return None

    def compare(self, st, op, a, b, line):
        # parts[:k] == parts'[:k]  <=>  equal prefixes
        if isinstance(op, (ast.Eq, ast.NotEq)) and isinstance(a, VU) and \
                isinstance(b, VU) and getattr(a, "prefix_of", None) and \
                getattr(b, "prefix_of", None):
            e = PPREFIX(*a.prefix_of) == PPREFIX(*b.prefix_of)
            return e if isinstance(op, ast.Eq) else z3.Not(e)
        return None


ALL = ALL + [PathModel2]


# ---------------------------------------------------------------------------
SSUM = z3.Function("SSUM", z3.ArraySort(IntS, IntS), z3.ArraySort(IntS, IntS),
                   IntS, IntS)
SSW = z3.Function("SSW", z3.ArraySort(IntS, IntS), z3.ArraySort(IntS, IntS),
                  z3.ArraySort(IntS, IntS), z3.ArraySort(IntS, IntS), IntS,
                  IntS)


class SumModel(Model):
    """Finite sums of an integer field over a list of records:
    SSUM(f, a, k) = sum_{i<k} f[a[i]]   (list theory; Lean: lemmas/ListFacts)
      SSUM(f, a, 0) = 0
      SSUM(f, a, k+1) = SSUM(f, a, k) + f[a[k]]      (instantiated at appends
                                                       and loop steps)
      extensionality in witness form."""

    def axioms(self):
        f = z3.Const("f!ss", z3.ArraySort(IntS, IntS))
        g = z3.Const("g!ss", z3.ArraySort(IntS, IntS))
        a = z3.Const("a!ss", z3.ArraySort(IntS, IntS))
        b = z3.Const("b!ss", z3.ArraySort(IntS, IntS))
        k = z3.Const("k!ss", IntS)
        w = SSW(f, g, a, b, k)
        return [
            z3.ForAll([f, a], SSUM(f, a, 0) == 0, patterns=[SSUM(f, a, 0)]),
            z3.ForAll([f, g, a, b, k], z3.Or(
                SSUM(f, a, k) == SSUM(g, b, k),
                z3.And(0 <= w, w < k, f[a[w]] != g[b[w]])),
                patterns=[z3.MultiPattern(SSUM(f, a, k), SSUM(g, b, k))]),
        ]

    def int_fields(self, cls):
        reg = self.eng.reg
        out = []
        c = cls
        while c is not None:
            for f_, shp in reg.classes.get(c, {}).items():
                if shp == "int":
                    out.append(f"{c}.{f_}")
            c = reg.bases.get(c)
        return out

    def step_facts(self, st, lst, k):
        """SSUM(f, arr, k+1) = SSUM(f, arr, k) + f[arr[k]] for every integer
        field f of the element class (current heap)."""
        eng = self.eng
        if not lst.eshape.startswith("ref:"):
            return
        cls = lst.eshape[4:]
        for key in self.int_fields(cls):
            f = eng.heap_arr(st, key, IntS)
            st.assume(SSUM(f, lst.arr, k + 1) ==
                      SSUM(f, lst.arr, k) + f[lst.arr[k]])

    def call_global(self, st, name, node):
        eng = self.eng
        if name == "sum" and len(node.args) == 1 and isinstance(
                node.args[0], ast.GeneratorExp):
            ge = node.args[0]
            if len(ge.generators) == 1 and not ge.generators[0].ifs and \
                    isinstance(ge.generators[0].target, ast.Name) and \
                    isinstance(ge.elt, ast.Attribute) and \
                    isinstance(ge.elt.value, ast.Name) and \
                    ge.elt.value.id == ge.generators[0].target.id:
                lst = eng.eval(st, ge.generators[0].iter)
                if isinstance(lst, VList) and lst.eshape.startswith("ref:"):
                    key, shp = eng.field_key(lst.eshape[4:], ge.elt.attr)
                    if shp == "int":
                        f = eng.heap_arr(st, key, IntS)
                        return VInt(SSUM(f, lst.arr, lst.n))
        return NotImplemented


ALL = ALL + [SumModel]


# ---------------------------------------------------------------------------
SEMCMP = z3.Function("SEMCMP", U, U, IntS)
CURVER = z3.Const("SEDPACK_VERSION", U)


class VersionModel(Model):
    """semver (A-SEMVER): Version.parse(a).compare(b) is the sign of the
    semver-2.0 precedence order; sedpack.__version__ is the running version."""

    def axioms(self):
        a = z3.Const("a!sv", U)
        b = z3.Const("b!sv", U)
        return [z3.ForAll([a], SEMCMP(a, a) == 0, patterns=[SEMCMP(a, a)]),
                z3.ForAll([a, b], z3.And(SEMCMP(a, b) >= -1,
                                         SEMCMP(a, b) <= 1,
                                         SEMCMP(a, b) == -SEMCMP(b, a)),
                          patterns=[SEMCMP(a, b)])]

    def dotted_value(self, st, d, node):
        if d == "sedpack.__version__":
            return VU(CURVER)
        return None

    def call_dotted(self, st, d, node):
        if d == "semver.Version.parse":
            v = self.eng.eval(st, node.args[0])
            out = VU(v.t)
            out.semver = True
            return out
        if d == "logging.getLogger":
            return VModule("logger")
        return NotImplemented

    def call_other_method(self, st, recv, name, node):
        if isinstance(recv, VU) and name == "compare" and getattr(
                recv, "semver", False):
            other = self.eng.coerce(st, self.eng.eval(st, node.args[0]), "U")
            return VInt(SEMCMP(recv.t, other))
        return NotImplemented

    def setattr(self, st, obj, attr, v, line):
        """Assignment to a property whose getter contract is
        `result is <expr>`: the setter stores into <expr> (setter bodies are
        compared with this reading by tools/check_classes.py)."""
        eng = self.eng
        if attr == "_logger":
            return True
        if eng.reg.field_owner(obj.cls, attr) is not None:
            return False
        pfc = eng.reg.find_method(obj.cls, attr)
        if pfc is not None and pfc.is_property:
            for cl in pfc.ensures:
                t = cl.text.strip()
                if t.startswith("result is "):
                    tgt = ast.parse(t[len("result is "):], mode="eval").body
                    saved = st.locals
                    st.locals = dict(saved)
                    st.locals["self"] = obj
                    try:
                        eng.assign(st, tgt, v)
                    finally:
                        st.locals = saved
                    return True
        return False


ALL = ALL + [VersionModel]


NAMESET_W = z3.Function("NAMESET_W", U, U, IntS)


class SetModel(Model):
    """{x.f for x in seq} over an opaque sequence: a set (characteristic
    function) containing exactly the f-values of its elements; `in`, len()."""

    def comprehension(self, st, node, kind):
        from .libspec import ISEQ, ILEN
        eng = self.eng
        if kind != "set" or len(node.generators) != 1:
            return None
        g = node.generators[0]
        if g.ifs or not isinstance(g.target, ast.Name):
            return None
        src = eng.eval(st, g.iter)
        if not isinstance(src, VU):
            return None
        # element function evaluated symbolically on element k
        k = z3.Const("k!set", IntS)
        saved = st.locals
        st.locals = dict(saved)
        st.locals[g.target.id] = VU(ISEQ(src.t, k))
        st.spec += 1
        try:
            body = eng.coerce(st, eng.eval(st, node.elt), "U")
        finally:
            st.spec -= 1
            st.locals = saved
        dom = st.fresh("set_dom", z3.ArraySort(U, BoolS))
        x = z3.Const("x!set", U)
        st.assume(z3.ForAll([k], z3.Implies(z3.And(0 <= k, k < ILEN(src.t)),
                                            dom[body])))
        w = NAMESET_W(src.t, x)
        st.assume(z3.ForAll([x], z3.Implies(dom[x], z3.And(
            0 <= w, w < ILEN(src.t),
            z3.substitute(body, (k, w)) == x))))
        v = VDict(dom, st.fresh("set_val", z3.ArraySort(U, U)), "U")
        v.is_set = True
        return v

    def len_of(self, st, v, line):
        if isinstance(v, VDict) and v.val is not None:
            return VInt(KN(v.dom))
        if isinstance(v, VDict):
            return VInt(0)
        return None

    def for_source(self, st, node, srcv, K, stop):
        return None


ALL = ALL + [SetModel]


class DictCompModel(Model):
    """{k: E(k, v) for k, v in d.items()}: same key set; value determined
    pointwise.  E may be a one-element list literal (dict of lists).
    set(d): the key set.  Comparison of key sets."""

    def comprehension(self, st, node, kind):
        eng = self.eng
        if kind != "dict" or len(node.generators) != 1:
            return None
        g = node.generators[0]
        if g.ifs or not isinstance(g.target, ast.Tuple) or \
                len(g.target.elts) != 2 or not all(
                    isinstance(e, ast.Name) for e in g.target.elts):
            return None
        if not (isinstance(g.iter, ast.Call) and isinstance(
                g.iter.func, ast.Attribute) and g.iter.func.attr == "items"):
            return None
        kname, vname = g.target.elts[0].id, g.target.elts[1].id
        if not (isinstance(node.key, ast.Name) and node.key.id == kname):
            return None
        src = eng.eval(st, g.iter.func.value)
        if not isinstance(src, VDict) or src.val is None or \
                src.vshape.startswith("list:"):
            return None
        x = z3.Const("x!dc", U)
        saved = st.locals
        st.locals = dict(saved)
        st.locals[kname] = VU(x)
        st.locals[vname] = wrap(src.vshape, src.val[x])
        st.spec += 1
        try:
            body = eng.eval(st, node.value)
        finally:
            st.spec -= 1
            st.locals = saved
        if isinstance(body, VList):
            n = z3.simplify(body.n)
            if not (z3.is_int_value(n) and n.as_long() == 1):
                return None
            es = body.eshape
            d = eng.fresh_dict(st, "list:" + es, "dictcomp")
            st.assume(z3.ForAll([x], d.dom[x] == src.dom[x]))
            st.assume(z3.ForAll([x], z3.Implies(src.dom[x], z3.And(
                d.vlen[x] == 1, d.val[x][0] == z3.simplify(body.arr[0])))))
            return d
        bt = eng.coerce(st, body, "U")
        d = eng.fresh_dict(st, "U", "dictcomp")
        st.assume(z3.ForAll([x], d.dom[x] == src.dom[x]))
        st.assume(z3.ForAll([x], z3.Implies(src.dom[x], d.val[x] == bt)))
        return d

    def _literal_alias(self, name):
        """the string constants of `X = Literal[...]` / `X: TypeAlias =
        Literal[...]` for an X imported from a module of the repository
        (read from that module's source on every run)"""
        from . import source as S
        dotted = self.eng.imports.get(name, "")
        if "." not in dotted:
            return None
        mod, attr = dotted.rsplit(".", 1)
        rel = mod.replace(".", "/") + ".py"
        try:
            tree, _, _ = S.load_module(self.eng.repo, rel)
        except Exception:  # noqa: BLE001
            return None
        for n in tree.body:
            tgt = val = None
            if isinstance(n, ast.AnnAssign) and isinstance(n.target, ast.Name):
                tgt, val = n.target.id, n.value
            elif isinstance(n, ast.Assign) and len(n.targets) == 1 and \
                    isinstance(n.targets[0], ast.Name):
                tgt, val = n.targets[0].id, n.value
            if tgt == attr and isinstance(val, ast.Subscript) and \
                    isinstance(val.value, ast.Name) and val.value.id == "Literal":
                sl = val.slice
                elts = sl.elts if isinstance(sl, ast.Tuple) else [sl]
                if all(isinstance(e, ast.Constant) and isinstance(e.value, str)
                       for e in elts):
                    return [e.value for e in elts]
        return None

    def call_global(self, st, name, node):
        if name == "get_args" and self.eng.imports.get("get_args") == \
                "typing.get_args" and len(node.args) == 1 and \
                isinstance(node.args[0], ast.Name):
            lits = self._literal_alias(node.args[0].id)
            if lits is not None:
                return VTuple([VU(self.eng.strconst(x)) for x in lits])
        if name == "defaultdict" and self.eng.imports.get(
                "defaultdict", "") == "collections.defaultdict" and \
                len(node.args) == 1 and isinstance(node.args[0], ast.Name) \
                and node.args[0].id == "list" and not node.keywords:
            d = VDict(z3.K(U, z3.BoolVal(False)), None, None)
            d.default_list = True
            return d
        if name == "set" and len(node.args) == 1:
            v = self.eng.eval(st, node.args[0])
            if isinstance(v, VDict):
                s = VDict(v.dom, st.fresh("set_val", z3.ArraySort(U, U)), "U")
                s.is_set = True
                return s
        return NotImplemented

    def compare(self, st, op, a, b, line):
        if isinstance(op, (ast.Eq, ast.NotEq)) and isinstance(a, VDict) and \
                isinstance(b, VDict) and getattr(a, "is_set", False) and \
                getattr(b, "is_set", False):
            x = z3.Const("x!se", U)
            e = z3.ForAll([x], a.dom[x] == b.dom[x])
            return e if isinstance(op, ast.Eq) else z3.Not(e)
        return None

    def global_name(self, st, name, imports):
        if name == "object":
            return VU(self.eng.strconst("<class object>"))
        return None


ALL = [DictCompModel] + ALL


# ---------------------------------------------------------------------------
BA = z3.ArraySort(IntS, BoolS)
CNT = z3.Function("CNT", BA, IntS, IntS)     # CNT(A, n) = |{i : 0 <= i < n, A[i]}|
IDX = z3.Function("IDX", BA, IntS, IntS)     # IDX(A, j) = index of the j-th true entry


class FilterCompModel(Model):
    """[x for x in xs if C(x)] over a list value xs: the sub-list of the
    elements satisfying C, in order.  With A[i] = C(xs[i]):

        len(result) = CNT(A, len(xs)),  result[j] = xs[IDX(A, j)],

    where CNT / IDX are the counting function and the enumeration of the true
    entries of A.  Only the facts below about CNT / IDX are given to the
    solver; each is a theorem about finite 0/1 sequences, machine-checked in
    lemmas/Count.lean (A-LEMMA-COUNT), none is an assumption about the code.
    C is evaluated in specification mode (attribute loads of typed records,
    len, comparisons: nothing that can raise).

    {E(x) for x in xs} over a list value: the set of the E-values."""

    def axioms(self):
        A = z3.Const("A!fc", BA)
        B = z3.Const("B!fc", BA)
        n = z3.Const("n!fc", IntS)
        i = z3.Const("i!fc", IntS)
        j = z3.Const("j!fc", IntS)
        return [
            # bounds
            z3.ForAll([A, n], z3.Implies(n >= 0, z3.And(
                CNT(A, n) >= 0, CNT(A, n) <= n)), patterns=[CNT(A, n)]),
            # partition: complementary predicates count to n
            z3.ForAll([A, B, n], z3.Implies(
                z3.And(n >= 0, z3.ForAll([i], z3.Implies(
                    z3.And(0 <= i, i < n), A[i] != B[i]))),
                CNT(A, n) + CNT(B, n) == n),
                patterns=[z3.MultiPattern(CNT(A, n), CNT(B, n))]),
            # at most one true entry
            z3.ForAll([A, n], z3.Implies(
                z3.And(n >= 0, z3.ForAll([i, j], z3.Implies(
                    z3.And(0 <= i, i < j, j < n),
                    z3.Not(z3.And(A[i], A[j]))))),
                CNT(A, n) <= 1), patterns=[CNT(A, n)]),
            # enumeration of the true entries below n: in range, true,
            # strictly increasing
            z3.ForAll([A, n, j], z3.Implies(
                z3.And(0 <= j, j < CNT(A, n)),
                z3.And(0 <= IDX(A, j), IDX(A, j) < n, A[IDX(A, j)])),
                patterns=[z3.MultiPattern(IDX(A, j), CNT(A, n))]),
            z3.ForAll([A, n, i, j], z3.Implies(
                z3.And(0 <= i, i < j, j < CNT(A, n)),
                IDX(A, i) < IDX(A, j)),
                patterns=[z3.MultiPattern(IDX(A, i), IDX(A, j), CNT(A, n))]),
            # ... and it reaches every true entry below n
            z3.ForAll([A, n, i], z3.Implies(
                z3.And(0 <= i, i < n, A[i]),
                z3.And(0 <= CNT(A, i), CNT(A, i) < CNT(A, n),
                       IDX(A, CNT(A, i)) == i)),
                patterns=[z3.MultiPattern(A[i], CNT(A, n))]),
        ]

    def _elem_env(self, st, g, elem):
        saved = st.locals
        st.locals = dict(saved)
        st.locals[g.target.id] = elem
        return saved

    def comprehension(self, st, node, kind):
        eng = self.eng
        if kind not in ("list", "set") or len(node.generators) != 1:
            return None
        g = node.generators[0]
        if g.is_async or not isinstance(g.target, ast.Name):
            return None
        if kind == "list" and not (len(g.ifs) == 1 and isinstance(
                node.elt, ast.Name) and node.elt.id == g.target.id):
            return None
        if kind == "set" and g.ifs:
            return None
        src = eng.eval(st, g.iter)
        if not isinstance(src, VList):
            return None
        k = z3.Const("k!fc%d" % st.fresh_id(), IntS)
        saved = self._elem_env(st, g, wrap(src.eshape, src.arr[k]))
        st.spec += 1
        try:
            if kind == "list":
                body = eng.truthy(st, eng.eval(st, g.ifs[0]))
            else:
                body = eng.coerce(st, eng.eval(st, node.elt), "U")
        finally:
            st.spec -= 1
            st.locals = saved
        if kind == "list":
            A = st.fresh("filt", BA)
            st.assume(z3.ForAll([k], z3.Implies(
                z3.And(0 <= k, k < src.n), A[k] == body)))
            n = CNT(A, src.n)
            arr = st.fresh("filt_arr", src.arr.sort())
            j = z3.Const("j!fc", IntS)
            st.assume(z3.ForAll([j], z3.Implies(
                z3.And(0 <= j, j < n), arr[j] == src.arr[IDX(A, j)]),
                patterns=[arr[j]]))
            st.assume(z3.And(n >= 0, n <= src.n))
            # ... and every element satisfying the condition is in the result
            # (at position CNT(A, k)): the "onto" theorem of lemmas/Count.lean
            # stated on the result list
            st.assume(z3.ForAll([k], z3.Implies(
                z3.And(0 <= k, k < src.n, body),
                z3.And(0 <= CNT(A, k), CNT(A, k) < n,
                       arr[CNT(A, k)] == src.arr[k])),
                patterns=[src.arr[k]]))
            out = VList(arr, n, src.eshape, None)
            out.filter_of = (src, A)
            return out
        # set of values
        dom = st.fresh("set_dom", z3.ArraySort(U, BoolS))
        x = z3.Const("x!set", U)
        st.assume(z3.ForAll([k], z3.Implies(z3.And(0 <= k, k < src.n),
                                            dom[body])))
        w = z3.Function("SETW!%d" % st.fresh_id(), U, IntS)
        st.assume(z3.ForAll([x], z3.Implies(dom[x], z3.And(
            0 <= w(x), w(x) < src.n,
            z3.substitute(body, (k, w(x))) == x)), patterns=[dom[x]]))
        v = VDict(dom, st.fresh("set_val", z3.ArraySort(U, U)), "U")
        v.is_set = True
        return v


ALL = [FilterCompModel] + ALL
