"""Symbolic values and shapes.

A *shape* is a string describing the static sort of a Python value as far as the
encoding cares:  int | bool | U | none | ref:Cls | opt:<shape> | list:<eshape>
| dict:<vshape> | tuple:<s1>,<s2>.. | iter | func | stream
`U` is one uninterpreted sort for every opaque immutable Python value (str,
bytes, Path, numpy scalars, examples...) with equality.
References are integers; 0 is None.
"""
from __future__ import annotations
import z3

U = z3.DeclareSort("U")
IntS = z3.IntSort()
BoolS = z3.BoolSort()
MS = z3.ArraySort(U, IntS)  # multiset of U

# uninterpreted observers on U
TRUTHY = z3.Function("truthy", U, BoolS)
NONE_U = z3.Const("None_U", U)


class V:
    pass


class VInt(V):
    def __init__(self, t):
        self.t = t if z3.is_expr(t) else z3.IntVal(t)

    def __repr__(self):
        return f"VInt({self.t})"


class VBool(V):
    def __init__(self, t):
        self.t = t if z3.is_expr(t) else z3.BoolVal(bool(t))

    def __repr__(self):
        return f"VBool({self.t})"


class VNone(V):
    def __repr__(self):
        return "VNone"


class VU(V):
    """Opaque value.  `tok` is an optional provenance token (u, p): the value
    was obtained as the p-th element of inner iterable u."""

    def __init__(self, t, tok=None, lit=None):
        self.t = t
        self.tok = tok
        self.lit = lit  # python literal (str) when this is a constant

    def __repr__(self):
        return f"VU({self.t})"


class VRef(V):
    def __init__(self, t, cls):
        self.t = t if z3.is_expr(t) else z3.IntVal(t)
        self.cls = cls

    def __repr__(self):
        return f"VRef({self.t}:{self.cls})"


class VOpt(V):
    """Optional int/bool (refs and U carry their own None encoding)."""

    def __init__(self, isnone, val):
        self.isnone = isnone
        self.val = val


class VTuple(V):
    def __init__(self, items):
        self.items = list(items)

    def __repr__(self):
        return f"VTuple({self.items})"


_lid = [0]


class VList(V):
    """Value-semantic list: arr[0:n) with exact ghost multiset ms (only for
    element sort U).  `lid` identifies the Python list object for the alias
    check (a list mutated through one name while another name holds it is
    outside the subset -> Unsupported)."""

    def __init__(self, arr, n, eshape, ms=None, lid=None):
        self.arr = arr
        self.n = n
        self.eshape = eshape
        self.ms = ms
        if lid is None:
            _lid[0] += 1
            lid = _lid[0]
        self.lid = lid

    def __repr__(self):
        return f"VList(n={self.n})"


class VDict(V):
    """dom : K -> Bool, val : K -> S.  Keys are U.  `kseq`/`kn`: insertion
    order of keys (ghost), maintained only when `ordered`."""

    def __init__(self, dom, val, vshape, kseq=None, kn=None, lid=None):
        self.dom = dom
        self.val = val
        self.vshape = vshape
        self.kseq = kseq
        self.kn = kn
        if lid is None:
            _lid[0] += 1
            lid = _lid[0]
        self.lid = lid


class VIter(V):
    """Iterator object; state lives in State.iters[iid]."""

    def __init__(self, iid):
        self.iid = iid

    def __repr__(self):
        return f"VIter({self.iid})"


class VFunc(V):
    """A callable value: either a python-side builtin/spec name or a symbolic
    function value (U term) applied through APP."""

    def __init__(self, name=None, t=None, bound=None):
        self.name = name
        self.t = t
        self.bound = bound  # bound receiver for methods


class VStream(V):
    """A lazy stream described by a term of the stream algebra (sort STREAM)."""

    def __init__(self, t):
        self.t = t


class VModule(V):
    def __init__(self, name):
        self.name = name


class VExc(V):
    def __init__(self, cls, payload=None):
        self.cls = cls
        self.payload = payload


def sort_of_shape(shape: str):
    if shape == "int":
        return IntS
    if shape == "bool":
        return BoolS
    if shape == "U" or shape == "func" or shape == "optU":
        return U
    if shape.startswith("ref:") or shape.startswith("optref:"):
        return IntS
    raise ValueError(f"no single sort for shape {shape}")


def wrap(shape: str, t):
    if shape == "int":
        return VInt(t)
    if shape == "bool":
        return VBool(t)
    if shape in ("U", "optU"):
        return VU(t)
    if shape == "func":
        return VFunc(t=t)
    if shape.startswith("ref:"):
        return VRef(t, shape[4:])
    if shape.startswith("optref:"):
        return VRef(t, shape[7:])
    raise ValueError(shape)


def term(v: V):
    if isinstance(v, (VInt, VBool, VU, VRef)):
        return v.t
    if isinstance(v, VFunc) and v.t is not None:
        return v.t
    if isinstance(v, VNone):
        raise ValueError("None has no single term; use shape-aware code")
    raise ValueError(f"no term for {v!r}")
