"""Sidecar contract registry.

Contracts are plain Python files under /verif/contracts executed with the
helper names below in scope.  Clause texts are Python expressions in the same
subset the engine translates for code, plus the spec builtins documented in
DESIGN.md 2.4.  A clause is either a string or a tuple (props, string) where
props is a property id or a list of ids the clause is evidence for."""
from __future__ import annotations
import os


class Clause:
    def __init__(self, text, props=None, label=None):
        # "internal: <expr>" = a clause about the function's own locals: an
        # obligation of its body, not a fact callers may use
        self.internal = text.startswith("internal:")
        if self.internal:
            text = text[len("internal:"):].strip()
        # "ghostdef: <expr>" = the definition of this function's own update of
        # a ghost label (ghost:cert): assumed when its body reaches the normal
        # exit (ghost state is ours to define; it constrains no program
        # value), assumed by callers like any other postcondition
        # "reveal A,B: <expr>": the obligation for this clause may use the
        # definitions of the hidden formulas A, B (see spec built-in hidden())
        self.reveal = ()
        if text.startswith("reveal "):
            head, text = text.split(":", 1)
            self.reveal = tuple(x.strip() for x in head[len("reveal "):].split(","))
            text = text.strip()
        # "hide NAME: <expr>": where this clause is ASSUMED (a callee's
        # postcondition at a call site, a proved lemma) it goes behind the
        # propositional name NAME; only obligations whose clause says
        # `reveal NAME:` see it.  Keeps quantifier-heavy facts out of the
        # queries that do not need them.
        self.hide = None
        if text.startswith("hide "):
            head, text = text.split(":", 1)
            self.hide = head[len("hide "):].strip()
            text = text.strip()
        # "assumed: <expr>": a postcondition that is NOT proved of the body
        # (callers may use it); every such clause is an assumption listed in
        # the evidence (Registry.assumed_clauses)
        self.assumed = text.startswith("assumed:")
        if self.assumed:
            text = text[len("assumed:"):].strip()
        self.ghostdef = text.startswith("ghostdef:")
        if self.ghostdef:
            text = text[len("ghostdef:"):].strip()
        self.text = text
        self.props = props
        self.label = label

    def __repr__(self):
        return f"Clause({self.text!r})"


def _clauses(xs, default_props):
    out = []
    for x in xs or []:
        if isinstance(x, Clause):
            out.append(x)
        elif isinstance(x, tuple):
            p, t = x
            out.append(Clause(t, [p] if isinstance(p, str) else list(p)))
        else:
            out.append(Clause(x, list(default_props)))
    return out


class Loop:
    def __init__(self, inv=(), variant=None, props=(), havoc=(), keep=(), frame=None, ghost_set=None, lemmas=(), end_lemmas=()):
        self.inv = inv
        self.variant = variant
        self.props = props
        self.havoc = list(havoc)
        self.keep = list(keep)
        self.frame = dict(frame or {})
        self.ghost_set = dict(ghost_set or {})
        self.lemmas = list(lemmas)
        # proof steps at the end of the loop body (each proved, then usable
        # by the following ones and by the invariant-preservation obligations)
        self.end_lemmas = list(end_lemmas)


class FuncContract:
    def __init__(self, module, qualname, *, props=(), params=None,
                 returns=None, requires=(), ensures=(), raises=None,
                 loops=None, at_yield=(), modifies=(), generator=False,
                 ghosts=None, cls=None, assumed=False, note="",
                 on_abandon=(), locals_=None, reads_async=False,
                 verify=True, pure=False, at_call=None, sig=None, stream_out=False, yields=None, summary=None, defs=(), decreases=None, property=False, at_diverge=(), fs_root=None, fs_effects=None, foreign_base=False, exit_lemmas=(), call_reveal=None):
        self.module = module
        self.qualname = qualname
        self.props = list(props)
        self.params = dict(params or {})
        self.returns = returns
        self.requires = _clauses(requires, props)
        self.ensures = _clauses(ensures, props)
        self.raises = {k: _clauses(v, props) for k, v in (raises or {}).items()}
        self.loops = {}
        for k, v in (loops or {}).items():
            if isinstance(v, dict):
                v = Loop(**v)
            elif not isinstance(v, Loop):
                v = Loop(inv=v)
            inv = list(v.inv)
            for fkey, refs in v.frame.items():
                inv.append("frame_loop(%r%s)" % (fkey, "".join(
                    ", loop_entry(%s)" % r for r in refs)))
            v.inv = _clauses(inv, v.props or props)
            self.loops[k] = v
        self.at_yield = _clauses(at_yield, props)
        self.on_abandon = _clauses(on_abandon, props)
        self.modifies = list(modifies)
        self.generator = generator
        self.ghosts = dict(ghosts or {})
        self.cls = cls if cls is not None else (
            qualname.split(".")[0] if "." in qualname else None)
        self.assumed = assumed   # no body to verify (library / external)
        self.note = note
        self.locals = dict(locals_ or {})
        self.verify = verify
        self.pure = pure
        self.sig_names = sig
        self.stream_out = stream_out
        self.yields = yields
        self.summary = summary
        self.defs = _clauses(defs, props)
        self.decreases = decreases
        self.is_property = property
        self.fs_root = fs_root
        self.fs_effects = fs_effects
        # caller-supplied callables may raise BaseException subclasses that
        # are not Exceptions (KeyboardInterrupt, SystemExit, ...)
        self.foreign_base = foreign_base
        # proof steps at the normal exit: each is proved from what precedes
        # it and may then be used by the following ones and by `ensures`
        self.exit_lemmas = _clauses(exit_lemmas, props)
        # hidden facts the precondition obligations of a call may use:
        # {callee method name: [NAME, ...]}
        self.call_reveal = dict(call_reveal or {})
        self.at_diverge = _clauses(at_diverge, props)
        self.at_call = {k: _clauses(v, props) for k, v in (at_call or {}).items()}

    @property
    def key(self):
        return f"{self.module}:{self.qualname}"

    @property
    def method_name(self):
        return self.qualname.split(".")[-1]


class Registry:
    def __init__(self):
        self.funcs: dict[str, FuncContract] = {}
        self.classes: dict[str, dict] = {}
        self.bases: dict[str, str] = {}
        self.extra_bases: dict[str, list] = {}
        self.class_truthy: dict[str, str] = {}
        self.ufuncs: dict[str, tuple] = {}
        self.axioms: list = []
        self.assumptions: dict[str, str] = {}
        self.lemmas: list = []
        self.macros: dict[str, tuple] = {}
        self.funcrefs: dict[tuple, str] = {}

    # -- declaration helpers exposed to sidecar files -----------------------
    def contract(self, module, qualname, **kw):
        fc = FuncContract(module, qualname, **kw)
        self.funcs[fc.key] = fc
        return fc

    def cls(self, name, base=None, truthy=None, **fields):
        self.classes.setdefault(name, {}).update(fields)
        if base:
            if isinstance(base, (list, tuple)):
                self.bases[name] = base[0]
                self.extra_bases[name] = list(base[1:])
            else:
                self.bases[name] = base
        if truthy:
            self.class_truthy[name] = truthy

    def ufunc(self, name, argshapes, retshape):
        self.ufuncs[name] = (list(argshapes), retshape)

    def macro(self, name, params, body):
        self.macros[name] = (list(params), body)

    def funcref(self, module, name, const):
        """A module-level function used as a *value* (`return identity`).

        `const` becomes a 0-ary spec function of sort U standing for the
        function object; its defining fact  forall x. APP(const(), x) == E(x)
        is not written by hand but generated here from the contract of
        `module:name`, which must be verified from source on every run
        (not assumed), have one parameter, no precondition, an empty frame, no
        exceptional exit and a postcondition of the form `result == E`."""
        fc = self.funcs.get(f"{module}:{name}")
        if fc is None:
            raise ValueError(f"funcref: no contract for {module}:{name}")
        posts = [c.text.strip() for c in fc.ensures]
        ok = (not fc.assumed and fc.verify and len(fc.params) == 1
              and not fc.requires and not fc.raises and not fc.modifies
              and not fc.generator and len(posts) == 1
              and posts[0].startswith("result == "))
        if not ok:
            raise ValueError(f"funcref: contract of {module}:{name} is not a "
                             "verified, total, pure `result == E` contract")
        (p,) = fc.params
        e = posts[0][len("result == "):]
        self.ufunc(const, [], "U")
        self.axiom(f"not is_none({const}())", fc.props)
        self.axiom(f"forall(lambda {p}: APP({const}(), {p}) == ({e}), {p}='U', "
                   f"pats=['APP({const}(), {p})'])", fc.props)
        self.funcrefs[(module, name)] = const

    def axiom(self, text, props=()):
        self.axioms.append(Clause(text, list(props)))

    def assumption(self, aid, text):
        self.assumptions[aid] = text

    # -- lookups --------------------------------------------------------------
    def mro(self, cls):
        """Depth-first, left-to-right linearisation (duplicates dropped; the
        class hierarchies under contract have no diamonds with overrides on
        both sides, where this would differ from C3)."""
        out = []

        def rec(c):
            if c is None or c in out:
                return
            out.append(c)
            rec(self.bases.get(c))
            for b in self.extra_bases.get(c, []):
                rec(b)
        rec(cls)
        return out

    def field_owner(self, cls, field):
        for c in self.mro(cls):
            if field in self.classes.get(c, {}):
                return c
        return None

    def field_shape(self, cls, field):
        o = self.field_owner(cls, field)
        if o is None:
            return None
        return self.classes[o][field]

    def is_subclass(self, c, base):
        return base in self.mro(c)

    def find_method(self, cls, name):
        for c in self.mro(cls):
            for fc in self.funcs.values():
                if fc.cls == c and fc.method_name == name and "." in fc.qualname:
                    return fc
        return None

    def find_function(self, name):
        for fc in self.funcs.values():
            if "." not in fc.qualname and fc.qualname == name:
                return fc
        return None

    def load_dir(self, d):
        ns = {
            "contract": self.contract, "cls": self.cls, "ufunc": self.ufunc,
            "axiom": self.axiom, "macro": self.macro, "assumption": self.assumption,
            "funcref": self.funcref,
            "Loop": Loop, "Clause": Clause,
        }
        for fn in sorted(os.listdir(d)):
            if fn.endswith(".py") and not fn.startswith("_"):
                with open(os.path.join(d, fn), "r", encoding="utf-8") as f:
                    code = compile(f.read(), os.path.join(d, fn), "exec")
                exec(code, ns)  # noqa: S102  (trusted local files; shared namespace)
        return self
