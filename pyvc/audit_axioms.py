"""Audit of assumed theory axioms against executable reference semantics.

The lexical path theory (PathModel2.axioms in pyvc/models.py and the facts the
engine assumes about string constants used as path components) is a set of
quantified z3 formulas over uninterpreted functions.  Here every one of those
formula OBJECTS is evaluated, by brute-force instantiation of its bound
variables over a finite universe of pathlib.PurePosixPath values (and small
integers), under the interpretation

    PJOIN(a, b) = a / b            ISABS(a) = a.is_absolute()
    HASDD(a) = '..' in a.parts     INSIDE(a, b) = b.is_relative_to(a)
    PPARENT(a) = a.parent          PNAME(a) = PurePosixPath(a.name)
    NPARTS(a) = len(a.parts)       PART(a, i) = PurePosixPath(a.parts[i])
    PPREFIX(a, k) = PurePosixPath(*a.parts[:k])

so there is no hand transcription of the axioms that could drift.  A failing
instance means the axiom is unsound for pathlib and everything proved with it
is void: the check reports a checker error, never a property violation.
Bounded: the universe is finite (stated in the result)."""
from __future__ import annotations
import itertools
from pathlib import PurePosixPath as P

import z3


class Undefined(Exception):
    pass


UNIVERSE = [P("."), P("a"), P("b"), P("a/b"), P("a/b/c"), P("b/a"),
            P("shards_list.json"), P("a/shards_list.json"), P(".."),
            P("../a"), P("a/.."), P("a/../b"), P("/"), P("/a"), P("/a/b"),
            P("/a/../b"), P("part1"), P("part10")]
INTS = [-1, 0, 1, 2, 3, 4]


def _part(a, i):
    if 0 <= i < len(a.parts):
        return P(a.parts[i])
    raise Undefined()


def _prefix(a, k):
    return P(*a.parts[:k]) if a.parts[:k] else P(".")


INTERP = {
    "PJOIN": lambda a, b: a / b,
    "ISABS": lambda a: a.is_absolute(),
    "HASDD": lambda a: ".." in a.parts,
    "INSIDE": lambda a, b: b.is_relative_to(a),
    "PPARENT": lambda a: a.parent,
    "PNAME": lambda a: P(a.name) if a.name else P("."),
    "NPARTS": lambda a: len(a.parts),
    "PART": _part,
    "PPREFIX": _prefix,
}


def ev(t, env):
    """Evaluate a z3 term under INTERP; env: de Bruijn index -> value."""
    if z3.is_var(t):
        return env[z3.get_var_index(t)]
    if z3.is_quantifier(t):
        n = t.num_vars()
        doms = []
        for i in range(n):
            s = t.var_sort(i)
            doms.append(INTS if s == z3.IntSort() else UNIVERSE)
        res = []
        for combo in itertools.product(*doms):
            # variable i of the quantifier has de Bruijn index n-1-i
            e2 = {k + n: v for k, v in env.items()}
            for i, v in enumerate(combo):
                e2[n - 1 - i] = v
            try:
                res.append(bool(ev(t.body(), e2)))
            except Undefined:
                continue
        return all(res) if t.is_forall() else any(res)
    if z3.is_int_value(t):
        return t.as_long()
    if z3.is_true(t):
        return True
    if z3.is_false(t):
        return False
    k = t.decl().kind()
    ch = t.children()
    name = t.decl().name()
    if k == z3.Z3_OP_AND:
        und = False
        for c in ch:
            try:
                if not ev(c, env):
                    return False
            except Undefined:
                und = True
        if und:
            raise Undefined()
        return True
    if k == z3.Z3_OP_OR:
        # lazy: an undefined disjunct does not matter when another holds
        und = False
        for c in ch:
            try:
                if ev(c, env):
                    return True
            except Undefined:
                und = True
        if und:
            raise Undefined()
        return False
    if k == z3.Z3_OP_NOT:
        return not ev(ch[0], env)
    if k == z3.Z3_OP_IMPLIES:
        if not ev(ch[0], env):
            return True
        return ev(ch[1], env)
    if k == z3.Z3_OP_EQ:
        return ev(ch[0], env) == ev(ch[1], env)
    if k == z3.Z3_OP_DISTINCT:
        vs = [ev(c, env) for c in ch]
        return len(set(vs)) == len(vs)
    if k == z3.Z3_OP_ITE:
        return ev(ch[1], env) if ev(ch[0], env) else ev(ch[2], env)
    if k == z3.Z3_OP_ADD:
        return sum(ev(c, env) for c in ch)
    if k == z3.Z3_OP_SUB:
        vs = [ev(c, env) for c in ch]
        return vs[0] - sum(vs[1:])
    if k == z3.Z3_OP_LE:
        return ev(ch[0], env) <= ev(ch[1], env)
    if k == z3.Z3_OP_LT:
        return ev(ch[0], env) < ev(ch[1], env)
    if k == z3.Z3_OP_GE:
        return ev(ch[0], env) >= ev(ch[1], env)
    if k == z3.Z3_OP_GT:
        return ev(ch[0], env) > ev(ch[1], env)
    if k == z3.Z3_OP_UNINTERPRETED:
        if name in INTERP:
            return INTERP[name](*[ev(c, env) for c in ch])
        if not ch and name == "str_dot":
            return P(".")
    raise KeyError(f"no interpretation for {name} ({t.sexpr()[:80]})")


def audit_paths():
    """Returns a result dict: ok, evaluations, failures."""
    from .models import PathModel2
    _pm = object.__new__(PathModel2)
    axs = PathModel2.axioms(_pm) + PathModel2.lemma_axioms(_pm)
    fails = []
    n = 0
    for i, ax in enumerate(axs):
        nv = ax.num_vars() if z3.is_quantifier(ax) else 0
        doms = [INTS if ax.var_sort(j) == z3.IntSort() else UNIVERSE
                for j in range(nv)]
        for combo in itertools.product(*doms):
            env = {nv - 1 - j: v for j, v in enumerate(combo)}
            n += 1
            try:
                ok = ev(ax.body() if nv else ax, env)
            except Undefined:
                # the axiom says something about a term the reference leaves
                # unspecified (e.g. PART out of range): it must be guarded
                fails.append({"axiom": i, "text": str(ax)[:300],
                              "instance": [str(c) for c in combo],
                              "problem": "constrains an unspecified value"})
                break
            if not ok:
                fails.append({"axiom": i, "text": str(ax)[:300],
                              "instance": [str(c) for c in combo]})
                break
    # facts assumed about plain names used as path components
    # (Engine.global_axioms): relative, no '..', own name, own first part
    for s in ("train", "shards_list.json", "dataset_info.json", "x.fb"):
        c = P(s)
        n += 1
        if c.is_absolute() or ".." in c.parts or P(c.name) != c or \
                _part(c, 0) != c:
            fails.append({"axiom": "string-constant facts", "instance": [s]})
    return {"check": "path theory axioms hold on pathlib.PurePosixPath "
                     "(every axiom object of PathModel2, brute-force "
                     "instances)", "ok": not fails and bool(axs),
            "evaluations": n, "axioms": len(axs),
            "bound": f"{len(UNIVERSE)} paths x ints {INTS}; up to 3 bound "
                     f"variables per axiom",
            "witness": fails[:3] or None}


if __name__ == "__main__":
    import json
    print(json.dumps(audit_paths(), indent=1, default=str))
