"""Audit of assumed theory axioms against executable reference semantics.

The lexical path theory (PathModel2.axioms in pyvc/models.py and the facts the
engine assumes about string constants used as path components) is a set of
quantified z3 formulas over uninterpreted functions.  Here every one of those
formula OBJECTS is evaluated, by brute-force instantiation of its bound
variables over a finite universe of pathlib.PurePosixPath values (and small
integers), under the interpretation

    PJOIN(a, b) = a / b            ISABS(a) = a.is_absolute()
    HASDD(a) = '..' in a.parts     INSIDE(a, b) = b.is_relative_to(a)
    PPARENT(a) = a.parent          PNAME(a) = PurePosixPath(a.name)
    NPARTS(a) = len(a.parts)       PART(a, i) = PurePosixPath(a.parts[i])
    PPREFIX(a, k) = PurePosixPath(*a.parts[:k])

so there is no hand transcription of the axioms that could drift.  A failing
instance means the axiom is unsound for pathlib and everything proved with it
is void: the check reports a checker error, never a property violation.
Bounded: the universe is finite (stated in the result)."""
from __future__ import annotations
import itertools
from pathlib import PurePosixPath as P

import z3


class Undefined(Exception):
    pass


UNIVERSE = [P("."), P("a"), P("b"), P("a/b"), P("a/b/c"), P("b/a"),
            P("shards_list.json"), P("a/shards_list.json"), P(".."),
            P("../a"), P("a/.."), P("a/../b"), P("/"), P("/a"), P("/a/b"),
            P("/a/../b"), P("part1"), P("part10")]
INTS = [-1, 0, 1, 2, 3, 4]


def _part(a, i):
    if 0 <= i < len(a.parts):
        return P(a.parts[i])
    raise Undefined()


def _prefix(a, k):
    return P(*a.parts[:k]) if a.parts[:k] else P(".")


INTERP = {
    "PJOIN": lambda a, b: a / b,
    "ISABS": lambda a: a.is_absolute(),
    "HASDD": lambda a: ".." in a.parts,
    "INSIDE": lambda a, b: b.is_relative_to(a),
    "PPARENT": lambda a: a.parent,
    "PNAME": lambda a: P(a.name) if a.name else P("."),
    "NPARTS": lambda a: len(a.parts),
    "PART": _part,
    "PPREFIX": _prefix,
}


def ev(t, env):
    """Evaluate a z3 term under INTERP; env: de Bruijn index -> value."""
    if z3.is_var(t):
        return env[z3.get_var_index(t)]
    if z3.is_quantifier(t):
        n = t.num_vars()
        doms = []
        for i in range(n):
            s = t.var_sort(i)
            doms.append(INTS if s == z3.IntSort() else UNIVERSE)
        res = []
        for combo in itertools.product(*doms):
            # variable i of the quantifier has de Bruijn index n-1-i
            e2 = {k + n: v for k, v in env.items()}
            for i, v in enumerate(combo):
                e2[n - 1 - i] = v
            try:
                res.append(bool(ev(t.body(), e2)))
            except Undefined:
                continue
        return all(res) if t.is_forall() else any(res)
    if z3.is_int_value(t):
        return t.as_long()
    if z3.is_true(t):
        return True
    if z3.is_false(t):
        return False
    k = t.decl().kind()
    ch = t.children()
    name = t.decl().name()
    if k == z3.Z3_OP_AND:
        und = False
        for c in ch:
            try:
                if not ev(c, env):
                    return False
            except Undefined:
                und = True
        if und:
            raise Undefined()
        return True
    if k == z3.Z3_OP_OR:
        # lazy: an undefined disjunct does not matter when another holds
        und = False
        for c in ch:
            try:
                if ev(c, env):
                    return True
            except Undefined:
                und = True
        if und:
            raise Undefined()
        return False
    if k == z3.Z3_OP_NOT:
        return not ev(ch[0], env)
    if k == z3.Z3_OP_IMPLIES:
        if not ev(ch[0], env):
            return True
        return ev(ch[1], env)
    if k == z3.Z3_OP_EQ:
        return ev(ch[0], env) == ev(ch[1], env)
    if k == z3.Z3_OP_DISTINCT:
        vs = [ev(c, env) for c in ch]
        return len(set(vs)) == len(vs)
    if k == z3.Z3_OP_ITE:
        return ev(ch[1], env) if ev(ch[0], env) else ev(ch[2], env)
    if k == z3.Z3_OP_ADD:
        return sum(ev(c, env) for c in ch)
    if k == z3.Z3_OP_SUB:
        vs = [ev(c, env) for c in ch]
        return vs[0] - sum(vs[1:])
    if k == z3.Z3_OP_LE:
        return ev(ch[0], env) <= ev(ch[1], env)
    if k == z3.Z3_OP_LT:
        return ev(ch[0], env) < ev(ch[1], env)
    if k == z3.Z3_OP_GE:
        return ev(ch[0], env) >= ev(ch[1], env)
    if k == z3.Z3_OP_GT:
        return ev(ch[0], env) > ev(ch[1], env)
    if k == z3.Z3_OP_UNINTERPRETED:
        if name in INTERP:
            return INTERP[name](*[ev(c, env) for c in ch])
        if not ch and name == "str_dot":
            return P(".")
    raise KeyError(f"no interpretation for {name} ({t.sexpr()[:80]})")


def audit_paths():
    """Returns a result dict: ok, evaluations, failures."""
    from .models import PathModel2
    _pm = object.__new__(PathModel2)
    axs = PathModel2.axioms(_pm) + PathModel2.lemma_axioms(_pm)
    fails = []
    n = 0
    for i, ax in enumerate(axs):
        nv = ax.num_vars() if z3.is_quantifier(ax) else 0
        doms = [INTS if ax.var_sort(j) == z3.IntSort() else UNIVERSE
                for j in range(nv)]
        for combo in itertools.product(*doms):
            env = {nv - 1 - j: v for j, v in enumerate(combo)}
            n += 1
            try:
                ok = ev(ax.body() if nv else ax, env)
            except Undefined:
                # the axiom says something about a term the reference leaves
                # unspecified (e.g. PART out of range): it must be guarded
                fails.append({"axiom": i, "text": str(ax)[:300],
                              "instance": [str(c) for c in combo],
                              "problem": "constrains an unspecified value"})
                break
            if not ok:
                fails.append({"axiom": i, "text": str(ax)[:300],
                              "instance": [str(c) for c in combo]})
                break
    # facts assumed about plain names used as path components
    # (Engine.global_axioms): relative, no '..', own name, own first part
    for s in ("train", "shards_list.json", "dataset_info.json", "x.fb"):
        c = P(s)
        n += 1
        if c.is_absolute() or ".." in c.parts or P(c.name) != c or \
                _part(c, 0) != c:
            fails.append({"axiom": "string-constant facts", "instance": [s]})
    return {"check": "path theory axioms hold on pathlib.PurePosixPath "
                     "(every axiom object of PathModel2, brute-force "
                     "instances)", "ok": not fails and bool(axs),
            "evaluations": n, "axioms": len(axs),
            "bound": f"{len(UNIVERSE)} paths x ints {INTS}; up to 3 bound "
                     f"variables per axiom",
            "witness": fails[:3] or None}


if __name__ == "__main__":
    import json
    print(json.dumps(audit_paths(), indent=1, default=str))


# ===========================================================================
# Sequence / stream algebra (contracts/c05_theory.py, A-ALG / A-STREAMLAWS)
# ===========================================================================
# Reference interpretation:
#   SEQ     finite Python tuples
#   STREAM  ("fin", t) a finite stream, ("fail", t) the elements t then a
#           failure, ("cyc", t) t repeated for ever (t non-empty)
#   U       small integers, tuples (iterables as elements), boxed references
#           ("box", r), and a few functions (Python callables)
#   MS      collections.Counter (compared over the whole universe)
#   SHUF / RRS / LAZYS are non-deterministic in the code; the laws must hold
#   for EVERY behaviour the contracts allow, in particular for the
#   deterministic ones used here (identity order; flatten in order; map in
#   order), so a law failing under them is unsound.
import collections


class _Fn:
    def __init__(self, name, f):
        self.name, self.f = name, f

    def __call__(self, x):
        return self.f(x)

    def __repr__(self):
        return f"<{self.name}>"

    def __eq__(self, o):
        return isinstance(o, _Fn) and o.name == self.name

    def __hash__(self):
        return hash(self.name)


F_ID = _Fn("id", lambda x: x)
F_K0 = _Fn("const0", lambda x: 0)
F_PAIR = _Fn("pair", lambda x: (x, x))          # element -> iterable
F_EVEN = _Fn("even", lambda x: isinstance(x, int) and x % 2 == 0)
NONE = "None"
U_UNIV = [0, 1, 2, (), (0,), (1, 2), F_ID, F_K0, F_PAIR, NONE]
SEQ_UNIV = [(), (0,), (1,), (0, 1), (2, 1, 0), ((0,), (1, 2)), ((), (0,))]
STREAM_UNIV = [("fin", ()), ("fin", (0, 1)), ("fin", ((0,), (1, 2))),
               ("fail", ()), ("fail", (1,)), ("cyc", (0, 1)), ("cyc", ((0,),))]
INT_UNIV = [-1, 0, 1, 2, 3]


def _app(f, x):
    if isinstance(f, _Fn):
        return f(x)
    return ("app", repr(f), repr(x))      # unspecified: some fixed value


def _elems(s, k):
    """first k elements of a stream (fewer if it ends or fails earlier)"""
    kind, t = s
    if k <= 0:
        return ()
    if kind == "cyc":
        return tuple(t[i % len(t)] for i in range(k))
    return tuple(t[:k])


def _as_stream(x):
    if isinstance(x, tuple):
        return ("fin", x)
    raise Undefined()


def _flats(s):
    kind, t = s
    if kind == "cyc":
        inner = tuple(y for x in t for y in _iter(x))
        if not inner:
            raise Undefined()      # infinitely many empty iterables
        return ("cyc", inner)
    return (kind, tuple(y for x in t for y in _iter(x)))


def _iter(x):
    if isinstance(x, tuple):
        return x
    raise Undefined()


def _maps(f, s):
    kind, t = s
    return (kind, tuple(_app(f, x) for x in t))


def _cats(a, b):
    ka, ta = a
    kb, tb = b
    if ka == "fin":
        if kb == "cyc":
            if not ta:
                return b
            raise Undefined()      # finite prefix + cycle: not representable
        return (kb, ta + tb)
    return a                       # a fails / never ends: b is never reached


def _seqof(s):
    if s[0] == "fin":
        return s[1]
    raise Undefined()


def _nths(s, i):
    e = _elems(s, i + 1)
    if 0 <= i < len(e):
        return e[i]
    raise Undefined()


def _drops(s, k):
    kind, t = s
    if k <= 0:
        return s
    if kind == "cyc":
        r = k % len(t)
        return ("cyc", t[r:] + t[:r])
    if k > len(t):
        raise Undefined()
    return (kind, t[k:])


def _ms(t):
    return collections.Counter(t)


def _mss(s):
    if s[0] == "fin":
        return _ms(s[1])
    raise Undefined()


SEQ_INTERP = {
    "EMPTY": lambda: (), "EMPTYS": lambda: ("fin", ()),
    "CAT": lambda a, b: a + b, "UNIT": lambda x: (x,),
    "LEN": lambda a: len(a),
    "NTH": lambda a, i: a[i] if 0 <= i < len(a) else (_ for _ in ()).throw(Undefined()),
    "TAKE": lambda a, k: a[:k] if k >= 0 else (_ for _ in ()).throw(Undefined()),
    "MAPQ": lambda f, a: tuple(_app(f, x) for x in a),
    "FILT": lambda f, a: tuple(x for x in a if _app(f, x) is True),
    "OFSEQ": lambda a: ("fin", a),
    "CYC": lambda a: ("cyc", a) if len(a) >= 1 else ("fin", ()),
    "CATS": _cats, "FIN": lambda s: s[0] != "cyc",
    "FAILS": lambda s: s[0] == "fail", "SEQOF": _seqof, "NTHS": _nths,
    "TAKES": lambda s, k: _elems(s, k) if k >= 0 else (_ for _ in ()).throw(Undefined()),
    "DROPS": _drops, "MAPS": _maps, "FLATS": _flats,
    "SHUF": lambda s, n: s, "RRS": lambda s, n: _flats(s),
    "LAZYS": lambda f, s, n: _maps(f, s),
    "MSS": _mss, "APP": _app,
    "BOX": lambda r: ("box", r),
    "UNBOX": lambda u: u[1] if isinstance(u, tuple) and len(u) == 2 and u[0] == "box" else (_ for _ in ()).throw(Undefined()),
    "None_U": lambda: NONE,
    "FOI": lambda f: F_ID if f == NONE else f,
    "FN_IDENTITY": lambda: F_ID,
    "JDUMP": lambda x: ("json", repr(x)),
}


def _mapms(f, m):
    out = collections.Counter()
    for x, c in m.items():
        out[_app(f, x)] += c
    return out


def _flatms(m):
    out = collections.Counter()
    for x, c in m.items():
        for y in _iter(x):
            out[y] += c
    return out


def _first_diff(f, g, xs):
    for x in xs:
        if _app(f, x) != _app(g, x):
            return x
    return 0


def _allepochs(s, m):
    if s[0] != "fin":
        return False
    t = s[1]
    n = sum(m.values())
    if n == 0:
        return len(t) == 0
    if len(t) % n:
        return False
    return all(_ms(t[i:i + n]) == m for i in range(0, len(t), n))


SEQ_INTERP.update({
    "MAPMS": _mapms, "FLATMS": _flatms,
    "WITQ": lambda f, g, s: _first_diff(f, g, s),
    "WITS": lambda f, g, s: _first_diff(f, g, _elems(s, 8)),
    "WITM": lambda f, g, m: _first_diff(f, g, list(m)),
    "ALLEPOCHS": _allepochs,
})
MS_UNIV = [collections.Counter(), collections.Counter([0, 1]),
           collections.Counter([(0,), (1, 2)]), collections.Counter([1, 1])]


def ev2(t, env, interp):
    """like ev() with an interpretation table and sort-indexed universes;
    Counters stand for multiset arrays"""
    if z3.is_var(t):
        return env[z3.get_var_index(t)]
    if z3.is_quantifier(t):
        n = t.num_vars()
        doms = [_univ(t.var_sort(i)) for i in range(n)]
        if any(d is None for d in doms):
            raise KeyError("quantifier over an un-interpreted sort")
        res = []
        for combo in itertools.product(*doms):
            e2 = {k + n: v for k, v in env.items()}
            for i, v in enumerate(combo):
                e2[n - 1 - i] = v
            try:
                res.append(bool(ev2(t.body(), e2, interp)))
            except Undefined:
                continue
        return all(res) if t.is_forall() else any(res)
    if z3.is_int_value(t):
        return t.as_long()
    if z3.is_true(t):
        return True
    if z3.is_false(t):
        return False
    k = t.decl().kind()
    ch = t.children()
    name = t.decl().name()
    if k == z3.Z3_OP_AND:
        und = False
        for c in ch:
            try:
                if not ev2(c, env, interp):
                    return False
            except Undefined:
                und = True
        if und:
            raise Undefined()
        return True
    if k == z3.Z3_OP_OR:
        und = False
        for c in ch:
            try:
                if ev2(c, env, interp):
                    return True
            except Undefined:
                und = True
        if und:
            raise Undefined()
        return False
    if k == z3.Z3_OP_NOT:
        return not ev2(ch[0], env, interp)
    if k == z3.Z3_OP_IMPLIES:
        if not ev2(ch[0], env, interp):
            return True
        return ev2(ch[1], env, interp)
    if k == z3.Z3_OP_EQ:
        return ev2(ch[0], env, interp) == ev2(ch[1], env, interp)
    if k == z3.Z3_OP_DISTINCT:
        vs = [ev2(c, env, interp) for c in ch]
        return len({repr(v) for v in vs}) == len(vs)
    if k == z3.Z3_OP_ITE:
        return ev2(ch[1], env, interp) if ev2(ch[0], env, interp) \
            else ev2(ch[2], env, interp)
    if k == z3.Z3_OP_ADD:
        return sum(ev2(c, env, interp) for c in ch)
    if k == z3.Z3_OP_SUB:
        vs = [ev2(c, env, interp) for c in ch]
        return vs[0] - sum(vs[1:])
    if k == z3.Z3_OP_MUL:
        r = 1
        for c in ch:
            r *= ev2(c, env, interp)
        return r
    if k == z3.Z3_OP_LE:
        return ev2(ch[0], env, interp) <= ev2(ch[1], env, interp)
    if k == z3.Z3_OP_LT:
        return ev2(ch[0], env, interp) < ev2(ch[1], env, interp)
    if k == z3.Z3_OP_GE:
        return ev2(ch[0], env, interp) >= ev2(ch[1], env, interp)
    if k == z3.Z3_OP_GT:
        return ev2(ch[0], env, interp) > ev2(ch[1], env, interp)
    if k == z3.Z3_OP_SELECT:
        a = ev2(ch[0], env, interp)
        i = ev2(ch[1], env, interp)
        if isinstance(a, collections.Counter):
            return a[i]
        if isinstance(a, dict):
            return a.get(i, a.get("default"))
        raise KeyError("select of an un-interpreted array")
    if k == z3.Z3_OP_UNINTERPRETED:
        if name in interp:
            return interp[name](*[ev2(c, env, interp) for c in ch])
    raise KeyError(f"no interpretation for {name}")


ARR_INT_U = [{"default": 0, 0: 1, 1: 2}, {"default": (0,), 0: 0}]
ARR_INT_INT = [{"default": 0, 0: 3, 1: 4}, {"default": 7}]


def _univ(sort):
    s = str(sort)
    return {"Int": INT_UNIV, "U": U_UNIV, "SEQ": SEQ_UNIV,
            "STREAM": STREAM_UNIV, "Array(U, Int)": MS_UNIV,
            "Array(Int, U)": ARR_INT_U,
            "Array(Int, Int)": ARR_INT_INT}.get(s)


SEQ_INTERP["LSEQU"] = lambda a, n: tuple(a.get(i, a["default"]) for i in range(n)) if n >= 0 else (_ for _ in ()).throw(Undefined())
SEQ_INTERP["LSEQR"] = lambda a, n: tuple(("box", a.get(i, a["default"])) for i in range(n)) if n >= 0 else (_ for _ in ()).throw(Undefined())


def audit_algebra(contracts_dir, repo="/repo"):
    """Evaluates every registry axiom all of whose symbols are interpreted;
    returns a result dict (audited / skipped counts, failures)."""
    from .contracts import Registry
    from .engine import Engine
    reg = Registry().load_dir(contracts_dir)
    eng = Engine(reg, repo)
    axs = eng.registry_axioms()
    fails, skipped, n_inst, audited = [], [], 0, 0
    for i, ax in enumerate(axs):
        txt = reg.axioms[i].text[:160]
        try:
            if z3.is_quantifier(ax):
                nv = ax.num_vars()
                doms = [_univ(ax.var_sort(j)) for j in range(nv)]
                if any(d is None for d in doms):
                    raise KeyError("un-interpreted sort")
                bad = None
                for combo in itertools.product(*doms):
                    env = {nv - 1 - j: v for j, v in enumerate(combo)}
                    n_inst += 1
                    try:
                        ok = ev2(ax.body(), env, SEQ_INTERP)
                    except Undefined:
                        continue
                    if not ok:
                        bad = [repr(c)[:60] for c in combo]
                        break
                if bad:
                    fails.append({"axiom": txt, "instance": bad})
            else:
                n_inst += 1
                try:
                    if not ev2(ax, {}, SEQ_INTERP):
                        fails.append({"axiom": txt, "instance": []})
                except Undefined:
                    pass
            audited += 1
        except KeyError as e:
            skipped.append((txt[:70], str(e)[:60]))
    return {"check": "sequence / stream algebra axioms hold under the "
                     "reference interpretation (tuples, finite / failing / "
                     "cyclic streams, Counters); every interpretable axiom "
                     "object of the contracts, brute-force instances",
            "ok": not fails and audited > 0, "evaluations": n_inst,
            "axioms_audited": audited, "axioms_skipped": len(skipped),
            "skipped": skipped[:40],
            "bound": f"{len(SEQ_UNIV)} sequences, {len(STREAM_UNIV)} streams, "
                     f"{len(U_UNIV)} values, ints {INT_UNIV}",
            "witness": fails[:5] or None}
