"""Sequence / stream algebra for the interface-level contracts (C02, C03, C07,
C12, C14, C19).

SEQ    finite sequences of opaque elements (references are boxed with BOX)
STREAM lazy, possibly infinite iterables

Python operations on lists / iterables are given *defining facts* in terms of
the algebra at the point where they are executed (e.g. a list comprehension
yields `LSEQ(result) == MAPQ(F, LSEQ(source))` with F a function term defined
by the comprehension body).  The algebra's own laws (semantic axioms such as
"a shuffle buffer preserves the multiset") are stated in
/verif/contracts/c05_theory.py; each is either a list-theory lemma or the
stream-level reading of a contract proved on the real generator."""
from __future__ import annotations
import ast
import z3
from .values import (U, IntS, BoolS, MS, TRUTHY, NONE_U, V, VInt, VBool, VNone,
                     VU, VRef, VOpt, VTuple, VList, VDict, VIter, VFunc,
                     VStream, VModule, VExc, sort_of_shape, wrap)
from .models import Model
from .libspec import VSpecTerm, APP, APPFAILS


class StreamModel(Model):
    def __init__(self, ext):
        super().__init__(ext)
        lib = self.lib
        self.SEQ = lib.SEQ
        self.STREAM = lib.STREAM
        SEQ, STREAM = self.SEQ, self.STREAM
        F = z3.Function
        self.EMPTY = z3.Const("EMPTY", SEQ)
        self.CAT = F("CAT", SEQ, SEQ, SEQ)
        self.UNIT = F("UNIT", U, SEQ)
        self.LSEQU = F("LSEQU", z3.ArraySort(IntS, U), IntS, SEQ)
        self.LSEQR = F("LSEQR", z3.ArraySort(IntS, IntS), IntS, SEQ)
        self.LEN = F("LEN", SEQ, IntS)
        self.NTH = F("NTH", SEQ, IntS, U)
        self.BOX = F("BOX", IntS, U)
        self.UNBOX = F("UNBOX", U, IntS)
        self.MAPQ = F("MAPQ", U, SEQ, SEQ)
        self.FILT = F("FILT", U, SEQ, SEQ)
        self.TAKE = F("TAKE", SEQ, IntS, SEQ)
        self.DROP = F("DROP", SEQ, IntS, SEQ)
        self.EMPTYS = z3.Const("EMPTYS", STREAM)
        self.CATS = F("CATS", STREAM, STREAM, STREAM)
        self.OFSEQ = F("OFSEQ", SEQ, STREAM)
        self.CYC = F("CYC", SEQ, STREAM)
        self.MAPS = F("MAPS", U, STREAM, STREAM)
        self.FLATS = F("FLATS", STREAM, STREAM)
        self.FIN = F("FIN", STREAM, BoolS)
        self.SEQOF = F("SEQOF", STREAM, SEQ)
        self.FAILS = F("FAILS", STREAM, BoolS)
        self.NTHS = F("NTHS", STREAM, IntS, U)
        self.STREAMVAL = F("STREAMVAL", U, STREAM)   # an opaque iterable value
        self.ITER_U = F("ITER_U", STREAM, U)           # a stream as a value
        self.BOUND = F("BOUND", IntS, U, U)            # bound method as value
        self.PREDFAILS = F("PREDFAILS", U, SEQ, BoolS)
        self.DROPS = F("DROPS", STREAM, IntS, STREAM)
        self.TAKES = F("TAKES", STREAM, IntS, SEQ)
        self.site_funcs = {}

    # ---- conversions -----------------------------------------------------
    def seq_of_list(self, st, lst: VList):
        n = z3.simplify(lst.n)
        if z3.is_int_value(n) and n.as_long() == 0:
            return self.EMPTY
        if sort_of_shape(lst.eshape) == U:
            return self.LSEQU(lst.arr, lst.n)
        if sort_of_shape(lst.eshape) == IntS:
            return self.LSEQR(lst.arr, lst.n)
        raise self.E.Unsupported("SEQ of list of this shape")

    def elem_u(self, st, v):
        """element as U (references are boxed)"""
        if isinstance(v, VRef):
            return self.BOX(v.t)
        return self.eng.coerce(st, v, "U")

    def stream_of(self, st, v, line=0):
        if isinstance(v, VStream):
            return v.t
        if isinstance(v, VList):
            return self.OFSEQ(self.seq_of_list(st, v))
        if isinstance(v, VU):
            return self.STREAMVAL(v.t)
        if isinstance(v, VIter):
            s = getattr(st.iters[v.iid], "stream", None)
            if s is not None:
                return s
        raise self.E.Unsupported(f"not a stream: {v!r} (line {line})")

    def func_term(self, st, v):
        """U term standing for a callable value."""
        if isinstance(v, VFunc):
            if v.t is not None:
                return v.t
            if isinstance(v.bound, VRef) and v.name:
                eng = self.eng
                mv = None
                c = v.bound.cls
                while c is not None and mv is None:
                    mv = eng.reg.classes.get(c, {}).get("_methv")
                    c = eng.reg.bases.get(c)
                if mv:
                    METHV = z3.Function("METHV", U, U, IntS, U, U)
                    ds = eng.load_field(st, v.bound, mv[0])
                    pr = eng.load_field(st, v.bound, mv[1])
                    return METHV(eng.strconst(v.bound.cls),
                                 eng.strconst(v.name), ds.t, pr.t)
                return self.BOUND(v.bound.t, self.eng.strconst(v.name))
            if isinstance(v.bound, ast.Lambda):
                return self.lambda_term(st, v.bound)
        if isinstance(v, VU):
            return v.t
        return None

    def lambda_term(self, st, lam: ast.Lambda):
        """A function term F for a lambda / comprehension body with the
        defining fact  forall x. APP(F, x) == body(x)  (body evaluated in the
        current state; sound while the heap it reads does not change, which
        holds for the read-only functions this is used in)."""
        eng = self.eng
        if len(lam.args.args) != 1:
            raise self.E.Unsupported("lambda with != 1 parameter")
        return None

    def define_site_func(self, st, key, param_name, param_shape, body_node):
        """Create F with  forall x. APP(F, elem(x)) == body(x)."""
        eng = self.eng
        f = st.fresh(f"F_site{key}", U)
        st.assume(f != NONE_U)
        if param_shape.startswith("ref:"):
            x = z3.Const("x!sf", U)
            xv = VRef(self.UNBOX(x), param_shape[4:])
            xe = x
        else:
            x = z3.Const("x!sf", U)
            xv = VU(x)
            xe = x
        saved = st.locals
        st.locals = dict(saved)
        st.locals[param_name] = xv
        st.spec += 1
        try:
            body = eng.eval(st, body_node)
        finally:
            st.spec -= 1
            st.locals = saved
        bt = self.elem_u(st, body)
        st.assume(z3.ForAll([x], APP(f, xe) == bt))
        return f

    # ---- hooks -----------------------------------------------------------
    def seq_of_list_hook(self, st, lst):
        return self.seq_of_list(st, lst)

    def call_dotted(self, st, d, node):
        eng = self.eng
        E = self.E
        if d in ("itertools.chain.from_iterable",
                 "asyncstdlib.chain.from_iterable"):
            if d.startswith("asyncstdlib"):
                eng.used_assumptions.add("A-ASYNC")
            s = self.stream_of(st, eng.eval(st, node.args[0]), node.lineno)
            return VStream(self.FLATS(s))
        if d == "asyncstdlib.map":
            eng.used_assumptions.add("A-ASYNC")
            return self.do_map(st, node)
        if d == "itertools.islice":
            it = eng.eval(st, node.args[0])
            n = eng.eval(st, node.args[1])
            v = VFunc(name="islice")
            v.src = it
            v.count = n
            return v
        return NotImplemented

    def do_map(self, st, node):
        eng = self.eng
        f = eng.eval(st, node.args[0])
        ft = self.func_term(st, f)
        if ft is None:
            raise self.E.Unsupported("map with this callable")
        s = self.stream_of(st, eng.eval(st, node.args[1]), node.lineno)
        return VStream(self.MAPS(ft, s))

    def call_global(self, st, name, node):
        eng = self.eng
        if name == "map" and len(node.args) == 2:
            return self.do_map(st, node)
        if name == "filter" and len(node.args) == 2:
            f = eng.eval(st, node.args[0])
            src = eng.eval(st, node.args[1])
            v = VFunc(name="filter")
            v.pred = f
            v.src = src
            return v
        if name == "sorted" or name == "set":
            args = [eng.eval(st, a) for a in node.args]
            if args and isinstance(args[0], VU):
                f = z3.Function("PY_" + name, U, U)
                r = VU(f(args[0].t))
                r.maybe_unhashable = getattr(args[0], "maybe_unhashable",
                                             False)
                return r
            return VU(st.fresh(name, U))
        return NotImplemented


    def list_of(self, st, v, line):
        eng = self.eng
        E = self.E
        if isinstance(v, VFunc) and v.name == "filter":
            src = v.src
            if not isinstance(src, VList):
                raise E.Unsupported("filter over a non-list")
            ft = self.func_term(st, v.pred)
            res = eng.fresh_list(st, src.eshape, "filtered")
            st.assume(res.n <= src.n)
            st.assume(self.seq_of_list_raw(res) ==
                      self.FILT(ft, self.seq_of_list_raw(src)))
            # the predicate is caller code: it may raise
            if st.branch(self.PREDFAILS(ft, self.seq_of_list_raw(src)),
                         f"filter-fails@{line}"):
                raise E.RaiseEx("Foreign", line, "shard_filter raised")
            return res
        if isinstance(v, VStream):
            return self.list_of_stream(st, v.t, line,
                                       eshape=getattr(v, "elem", None))
        if isinstance(v, VFunc) and v.name == "islice":
            return self.list_of_islice(st, v, line)
        return None

    def seq_of_list_raw(self, lst):
        if sort_of_shape(lst.eshape) == U:
            return self.LSEQU(lst.arr, lst.n)
        return self.LSEQR(lst.arr, lst.n)

    def list_of_stream(self, st, s, line, eshape=None):
        """list(S): diverges for an infinite stream, raises if the stream
        fails, otherwise the list of its elements."""
        eng = self.eng
        E = self.E
        if st.branch(self.FAILS(s), f"list-fails@{line}"):
            st.ghost["__failed"] = True
            raise E.RaiseEx("Foreign", line, "stream failed")
        if not st.branch(self.FIN(s), f"list-fin@{line}"):
            raise E.PathEnd()
        es = eshape or getattr(self, "_elem_shape", {}).get(s.get_id(), "U")
        res = eng.fresh_list(st, es, "listed")
        st.assume(self.seq_of_list_raw(res) == self.SEQOF(s))
        st.assume(res.n == self.LEN(self.SEQOF(s)))
        return res

    def list_of_islice(self, st, v, line):
        """list(itertools.islice(it, n)) for an iterator `it` over a stream:
        the next min(n, remaining) elements."""
        eng = self.eng
        E = self.E
        itv = v.src
        if not isinstance(itv, VIter):
            raise E.Unsupported("islice of a non-iterator")
        it = st.iters[itv.iid]
        n = v.count.t if isinstance(v.count, VInt) else None
        if n is None:
            raise E.Unsupported("islice count")
        if it.closed:
            return eng.empty_list(st, "U")
        m = st.fresh("islice_m", IntS)
        # how many elements are delivered
        st.assume(m >= 0)
        st.assume(m <= z3.If(n > 0, n, 0))
        st.assume(z3.Implies(z3.Not(it.inf), m <= it.n - it.pos))
        fail_in = z3.And(it.failat >= it.pos, it.failat < it.pos + z3.If(
            n > 0, n, 0), z3.Or(it.inf, it.failat <= it.n))
        if st.branch(z3.And(z3.Not(it.done), fail_in), f"islice-fail@{line}"):
            st.ghost["__failed"] = True
            it.done = z3.BoolVal(True)
            raise E.RaiseEx("Foreign", line, "source failed")
        want = z3.If(n > 0, n, 0)
        st.assume(z3.If(it.done, m == 0,
                        z3.If(it.inf, m == want,
                              m == z3.If(want <= it.n - it.pos, want,
                                         it.n - it.pos))))
        res = eng.fresh_list(st, "U", "batch")
        st.assume(res.n == m)
        i = z3.Const("i!is", IntS)
        st.assume(z3.ForAll([i], z3.Implies(z3.And(0 <= i, i < m),
                                            res.arr[i] == it.seq[it.pos + i])))
        src_stream = getattr(it, "stream", None)
        if src_stream is not None:
            st.assume(self.seq_of_list_raw(res) ==
                      self.TAKES(self.DROPS(src_stream, it.pos), m))
        newpos = z3.simplify(it.pos + m)
        # exhausted iff fewer than requested were available
        it.done = z3.simplify(z3.Or(it.done, z3.And(z3.Not(it.inf),
                                                    m < want)))
        it.pos = newpos
        return res

    def iter_of(self, st, v, line):
        if isinstance(v, VRef) and v.cls == "RustIter":
            f = z3.Function("RITER_STREAM", IntS, self.STREAM)
            return VStream(f(v.t))
        if isinstance(v, VStream):
            return self.iter_of_stream(st, v.t, line)
        if isinstance(v, VList):
            return self.iter_of_stream(st, self.OFSEQ(self.seq_of_list(st, v)),
                                       line, lst=v)
        return None

    def iter_of_stream(self, st, s, line, lst=None):
        """iter(S): an iterator whose element i is NTHS(S, i)."""
        E = self.E
        iid = len(st.iters) + 1
        name = f"sit{iid}"
        seq = st.fresh(name + "_seq", z3.ArraySort(IntS, U))
        n = st.fresh(name + "_n", IntS)
        i = z3.Const("i!it", IntS)
        st.assume(z3.ForAll([i], seq[i] == self.NTHS(s, i)))
        st.assume(n >= 0)
        inf = z3.Not(self.FIN(s))
        st.assume(z3.Implies(self.FIN(s), n == self.LEN(self.SEQOF(s))))
        failat = st.fresh(name + "_failat", IntS)
        st.assume(failat >= -1)
        st.assume((failat >= 0) == self.FAILS(s))
        st.assume(z3.Or(inf, failat <= n))
        pms = z3.Function(f"pms_{name}", IntS, MS)
        st.assume(pms(0) == z3.K(U, z3.IntVal(0)))
        it = E.IterState(iid, seq, n, inf, z3.IntVal(0), failat, pms, name)
        it.stream = s
        st.iters[iid] = it
        return VIter(iid)

    # ---- yield from a stream ----------------------------------------------
    def yield_from(self, st, src, line):
        eng = self.eng
        E = self.E
        if not isinstance(src, (VStream,)):
            return False
        s = src.t
        outs = st.ghost.get("outs", self.EMPTYS)
        st.ghost["outs"] = self.CATS(outs, s)
        st.ghost["nyf"] = st.ghost.get("nyf", 0) + 1
        fc = eng.cur
        # at-yield obligations are checked with the stream so far
        st.ghost["yielding_stream"] = VStream(s)
        for k, cl in enumerate(fc.at_yield):
            eng.oblige(st, "at-yield", line, eng.spec_bool(st, cl), cl.props,
                       label=f"{k}.ys")
        if fc.on_abandon and not st.ghost.get("__no_abandon"):
            if st.choose(2, f"abandon-ys@{line}") == 1:
                raise E.AbandonEx(line)
        if st.branch(self.FAILS(s), f"yf-fails@{line}"):
            st.ghost["__failed"] = True
            raise E.RaiseEx("Foreign", line, "stream failed")
        if not st.branch(self.FIN(s), f"yf-fin@{line}"):
            # an infinite stream is yielded forever: the generator never
            # terminates; what it yields is `outs`
            st.ghost["__diverged"] = True
            for k, cl in enumerate(fc.at_diverge):
                eng.oblige(st, "at-diverge", line, eng.spec_bool(st, cl),
                           cl.props, label=str(k))
            if getattr(eng, "canaries", False):
                eng.oblige(st, "canary", line, z3.BoolVal(False), [])
            raise E.PathEnd()
        return True

    def record_yield(self, st, v, line):
        if "outs" in st.ghost or self.eng.cur.stream_out:
            outs = st.ghost.get("outs", self.EMPTYS)
            e = self.elem_u(st, v) if not isinstance(v, VNone) else NONE_U
            st.ghost["outs"] = self.CATS(outs, self.OFSEQ(self.UNIT(e)))

    def init_ghosts(self, st, fc):
        if fc.generator and getattr(fc, "stream_out", False):
            st.ghost["outs"] = self.EMPTYS

    def havoc_ghosts(self, st, ghosts, has_yield):
        if has_yield and "outs" in st.ghost:
            st.ghost["outs"] = st.fresh("outs", self.STREAM)

    def spec_name(self, st, name):
        if name == "outs":
            return VStream(st.ghost.get("outs", self.EMPTYS))
        if name == "yielding_stream":
            return st.ghost.get("yielding_stream")
        return None

    def for_source(self, st, node, srcv, K, stop):
        """for x in <stream>: element k is NTHS(S, k); stops after
        LEN(SEQOF(S)) elements of a finite stream; a failing stream raises at
        position FAILAT(S)."""
        if not isinstance(srcv, VStream):
            return None
        E = self.E
        s = srcv.t
        line = node.lineno
        FAILAT = z3.Function("FAILAT", self.STREAM, IntS)
        st.assume((FAILAT(s) >= 0) == self.FAILS(s))
        st.assume(FAILAT(s) >= -1)
        st.assume(z3.Implies(self.FIN(s),
                             FAILAT(s) <= self.LEN(self.SEQOF(s))))
        st.ghost["__forstream"] = VStream(s)

        def pull():
            if st.branch(K() == FAILAT(s), f"forstream-fail@{line}"):
                st.ghost["__failed"] = True
                raise E.RaiseEx("Foreign", line, "stream failed")
            if st.branch(z3.And(self.FIN(s),
                                K() >= self.LEN(self.SEQOF(s))),
                         f"forstream-stop@{line}"):
                stop()
            return VU(self.NTHS(s, K()))
        return pull

    # ---- comprehensions over lists -----------------------------------------
    def comprehension(self, st, node, kind):
        eng = self.eng
        E = self.E
        if len(node.generators) != 1:
            return None
        g = node.generators[0]
        if g.ifs or not isinstance(g.target, ast.Name):
            return None
        if kind == "set":
            # used for logging only
            eng.eval(st, g.iter)
            return VU(st.fresh("setcomp", U))
        if kind not in ("list", "gen"):
            return None
        src = eng.eval(st, g.iter)
        if isinstance(src, VStream) and kind == "list":
            # [f(x) for x in stream]  ==  list(map(F, stream))
            f = self.define_site_func(st, node.lineno, g.target.id, "U",
                                      node.elt)
            mapped = self.MAPS(f, src.t)
            return self.list_of_stream(st, mapped, node.lineno)
        if not isinstance(src, VList):
            return None
        f = self.define_site_func(st, node.lineno, g.target.id, src.eshape,
                                  node.elt)
        # result element shape from a sample evaluation
        res = eng.fresh_list(st, "U", "comp")
        st.assume(res.n == src.n)
        i = z3.Const("i!cmp", IntS)
        elem = (self.BOX(src.arr[i]) if sort_of_shape(src.eshape) == IntS
                else src.arr[i])
        st.assume(z3.ForAll([i], z3.Implies(z3.And(0 <= i, i < src.n),
                                            res.arr[i] == APP(f, elem))))
        st.assume(self.seq_of_list_raw(res) ==
                  self.MAPQ(f, self.seq_of_list_raw(src)))
        if kind == "gen":
            out = VStream(self.OFSEQ(self.seq_of_list_raw(res)))
            out.aslist = res
            return out
        return res

    # ---- spec-level helpers ---------------------------------------------------
    def sp_helpers(self):
        return {}


def install(lib):
    pass


# ---------------------------------------------------------------------------
class TFModel(Model):
    """TensorFlow (A-TF): tf.data operations are uninterpreted stream
    operators TFOP(name, S, args); tf.* constructors are uninterpreted
    values TFCALL(name, args).  Argument packs are built positionally then by
    keyword name, so a contract can restate the same term from the interface
    parameters (`tfop(...)`, `tfcall(...)` in the clause language)."""

    def __init__(self, ext):
        super().__init__(ext)
        lib = self.lib
        STREAM = lib.STREAM
        F = z3.Function
        self.TFOP = F("TFOP", U, STREAM, U, STREAM)
        self.TFCALL = F("TFCALL", U, U, U)
        self.PACK = F("PACK", U, U, U)
        self.PACKK = F("PACKK", U, U, U, U)
        self.NIL = z3.Const("NILPACK", U)
        self.INTU = F("INTU", IntS, U)
        self.BOOLU = F("BOOLU", BoolS, U)
        self.OPTU = F("OPTU", BoolS, U, U)
        self.SEQU = F("SEQU", lib.SEQ, U)
        self.THUNK = F("THUNK", U, U)

    def sm(self):
        return self.lib.stream_model()

    def to_u(self, st, v):
        eng = self.eng
        sm = self.sm()
        if isinstance(v, VInt):
            return self.INTU(v.t)
        if isinstance(v, VBool):
            return self.BOOLU(v.t)
        if isinstance(v, VNone):
            return NONE_U
        if isinstance(v, VOpt):
            return self.OPTU(v.isnone, self.to_u(st, v.val))
        if isinstance(v, VU):
            return v.t
        if isinstance(v, VList):
            return self.SEQU(sm.seq_of_list(st, v))
        if isinstance(v, VStream):
            return sm.ITER_U(v.t)
        if isinstance(v, VRef):
            return sm.BOX(v.t)
        if isinstance(v, VTuple):
            t = self.NIL
            for x in reversed(v.items):
                t = self.PACK(self.to_u(st, x), t)
            return t
        if isinstance(v, VFunc):
            if v.t is not None:
                return v.t
            if isinstance(v.bound, ast.Lambda):
                return self.lambda_u(st, v.bound)
            t = sm.func_term(st, v)
            if t is not None:
                return t
        if isinstance(v, VModule):
            return eng.strconst("module:" + v.name)
        if isinstance(v, VDict):
            if v.val is None:
                return eng.strconst("{}")
            f = z3.Function("DICTU", z3.ArraySort(U, BoolS), v.val.sort(), U)
            return f(v.dom, v.val)
        raise self.E.Unsupported(f"tf argument {v!r}")

    def lambda_u(self, st, lam):
        eng = self.eng
        sm = self.sm()
        if len(lam.args.args) == 0:
            body = eng.eval(st, lam.body)
            return self.THUNK(self.to_u(st, body))
        if len(lam.args.args) == 1:
            # canonical term of a one-parameter lambda: LAM(body[HOLE]); two
            # lambdas with the same body (up to the parameter name) are the
            # same term
            name = lam.args.args[0].arg
            hole = z3.Const("HOLE", U)
            saved = st.locals
            st.locals = dict(saved)
            st.locals[name] = VU(hole)
            st.spec += 1
            try:
                body = eng.eval(st, lam.body)
            finally:
                st.spec -= 1
                st.locals = saved
            return z3.Function("LAM", U, U)(self.to_u(st, body))
        raise self.E.Unsupported("lambda with several parameters")

    def pack(self, st, args, kwargs):
        t = self.NIL
        for k in sorted(kwargs, reverse=True):
            t = self.PACKK(self.eng.strconst(k), self.to_u(st, kwargs[k]), t)
        for a in reversed(args):
            t = self.PACK(self.to_u(st, a), t)
        return t

    STREAM_CTORS = ("from_tensor_slices", "from_generator", "TFRecordDataset")

    def call_dotted(self, st, d, node):
        eng = self.eng
        if not (d.startswith("tf.") or d.startswith("tensorflow.")):
            return NotImplemented
        d = "tf." + d.split(".", 1)[1]
        if d == "tf.io.TFRecordWriter":
            args, kwargs = eng.eval_args(st, node)
            w = eng.alloc(st, "TFWriter")
            eng.store_field(st, w, "nwritten", VInt(0))
            eng.store_field(st, w, "tfclosed", VBool(False))
            eng.store_field(st, w, "tfpath", args[0] if isinstance(
                args[0], VU) else VU(st.fresh("tfpath", U)))
            return w
        args, kwargs = eng.eval_args(st, node)
        t = self.TFCALL(eng.strconst(d), self.pack(st, args, kwargs))
        if d.split(".")[-1] in self.STREAM_CTORS:
            return VStream(self.sm().STREAMVAL(t))
        return VU(t)

    def call_other_method(self, st, recv, name, node):
        eng = self.eng
        if isinstance(recv, VStream) and name in (
                "interleave", "map", "shuffle", "batch", "prefetch", "repeat",
                "take", "cache", "unbatch", "filter"):
            args, kwargs = eng.eval_args(st, node)
            return VStream(self.TFOP(eng.strconst(name), recv.t,
                                     self.pack(st, args, kwargs)))
        return NotImplemented

    def comprehension(self, st, node, kind):
        # {attribute.name: tf.TensorSpec(...) for attribute in description}:
        # an opaque value determined by the iterated value
        if kind == "dict" and len(node.generators) == 1:
            src = self.eng.eval(st, node.generators[0].iter)
            f = z3.Function("DICTCOMP_%d" % node.lineno, U, U)
            return VU(f(self.to_u(st, src)))
        return None

    # spec builtins -----------------------------------------------------------
    def sp_args(self, st, node, skip):
        eng = self.eng
        args = [eng.eval(st, a) for a in node.args[skip:]]
        kwargs = {k.arg: eng.eval(st, k.value) for k in node.keywords}
        return self.pack(st, args, kwargs)


def _sp_tfop(lib, st, node):
    eng = lib.eng
    tf = [m for m in lib.ext.models if type(m).__name__ == "TFModel"][0]
    name = node.args[0].value
    s = eng.eval(st, node.args[1])
    return VStream(tf.TFOP(eng.strconst(name), s.t, tf.sp_args(st, node, 2)))


def _sp_tfcall(lib, st, node):
    eng = lib.eng
    tf = [m for m in lib.ext.models if type(m).__name__ == "TFModel"][0]
    name = node.args[0].value
    t = tf.TFCALL(eng.strconst(name), tf.sp_args(st, node, 1))
    if name.split(".")[-1] in tf.STREAM_CTORS:
        return VStream(lib.stream_model().STREAMVAL(t))
    return VU(t)


def _sp_thunk(lib, st, node):
    eng = lib.eng
    tf = [m for m in lib.ext.models if type(m).__name__ == "TFModel"][0]
    v = eng.eval(st, node.args[0])
    return VU(tf.THUNK(tf.to_u(st, v)))


def _sp_lam(lib, st, node):
    tf = [m for m in lib.ext.models if type(m).__name__ == "TFModel"][0]
    return VU(tf.lambda_u(st, node.args[0]))


# ---------------------------------------------------------------------------
class OpaqueLibModel(Model):
    """numpy / flatbuffers / generated flatbuffer API / sys: calls are
    uninterpreted pure functions of their arguments (LIBCALL / LIBMETH), so
    code and contract build the same term; their meaning is given by the
    assumed laws in contracts/c50_writers.py (A-NP, A-FB).  Attributes of
    opaque values are uninterpreted getters."""

    PREFIXES = ("np.", "numpy.", "flatbuffers.", "fbapi_", "sys.", "sedpack.io."
                "flatbuffer.shardfile.", "lz4.", "gzip.", "bz2.", "lzma.",
                "zstd.", "zstandard.")

    def __init__(self, ext):
        super().__init__(ext)
        self.LIBCALL = z3.Function("LIBCALL", U, U, U)
        self.LIBMETH = z3.Function("LIBMETH", U, U, U, U)
        self.GETATTR = z3.Function("GETATTR", U, U, U)

    def tf(self):
        return [m for m in self.ext.models if type(m).__name__ == "TFModel"][0]

    def is_lib(self, d):
        return any(d.startswith(p) for p in self.PREFIXES)

    def dotted_value(self, st, d, node):
        if d == "sys.byteorder":
            return VU(z3.Const("SYS_BYTEORDER", U))
        return None

    def call_dotted(self, st, d, node):
        eng = self.eng
        if not self.is_lib(d):
            return NotImplemented
        if d.startswith("numpy."):
            d = "np." + d[len("numpy."):]
        args, kwargs = eng.eval_args(st, node)
        tf = self.tf()
        if d in ("np.savez", "np.savez_compressed"):
            # A-NPZ / A-FS: the archive exists completely when the call returns
            pth = args[0].t
            if z3.is_app(pth) and pth.decl().name() == "STR":
                pth = pth.arg(0)
            for m in self.ext.models:
                if type(m).__name__ == "DiskModel":
                    m._facts(st)
                    m.fs_access(st, pth, node.lineno, "savez")
            st.ghost["DSTATE"] = z3.Store(st.ghost["DSTATE"], pth,
                                          z3.IntVal(2))
            st.ghost["DISK"] = z3.Store(st.ghost["DISK"], pth,
                                        st.fresh("npz_content", U))
            st.ghost["FXN"] = VInt(st.ghost["FXN"].t + 1)
            return VNone()
        t = self.LIBCALL(eng.strconst(d), tf.pack(st, args, kwargs))
        if d.split(".")[-1][:1].isupper():
            st.assume(t != NONE_U)      # a constructor returns an object
            st.assume(TRUTHY(t))        # ... without __bool__/__len__ (Builder)
        return VU(t)

    def call_other_method(self, st, recv, name, node):
        eng = self.eng
        if isinstance(recv, VU) and not getattr(recv, "parts_of", None) and \
                name not in ("read_text", "mkdir", "is_file", "resolve",
                             "expanduser", "replace", "is_absolute",
                             "is_relative_to", "compare"):
            args, kwargs = eng.eval_args(st, node)
            tf = self.tf()
            return VU(self.LIBMETH(eng.strconst(name), recv.t,
                                   tf.pack(st, args, kwargs)))
        return NotImplemented

    def getattr(self, st, obj, attr, line):
        if isinstance(obj, VU) and attr not in ("parts", "name", "parent",
                                                "hex"):
            return VU(self.GETATTR(self.eng.strconst(attr), obj.t))
        return None

    def len_of(self, st, v, line):
        if isinstance(v, VU) and not getattr(v, "parts_of", None):
            f = z3.Function("LENOF", U, IntS)
            st.assume(f(v.t) >= 0)
            return VInt(f(v.t))
        return None

    def slice_assign(self, st, target, v):
        # buf[a:b] = bytes on an opaque buffer (flatbuffers builder): the
        # effect is part of the builder's opaque state
        cont = self.eng.eval(st, target.value)
        if isinstance(cont, VU):
            return True
        return False

    def setattr(self, st, obj, attr, v, line):
        return False

    def binop(self, st, op, a, b, line):
        # arithmetic with an opaque integer-valued result (e.g. builder.Head())
        UINT = z3.Function("UINT", U, IntS)
        if isinstance(op, (ast.Add, ast.Sub, ast.Mult)):
            if isinstance(a, VU) and isinstance(b, (VInt, VBool)) and \
                    not getattr(a, "parts_of", None):
                a = VInt(UINT(a.t))
            elif isinstance(b, VU) and isinstance(a, (VInt, VBool)):
                b = VInt(UINT(b.t))
            elif isinstance(a, VU) and isinstance(b, VU) and \
                    isinstance(op, (ast.Add, ast.Sub)) and False:
                return None
            else:
                return None
            x, y = a.t, b.t
            return VInt(x + y if isinstance(op, ast.Add) else
                        x - y if isinstance(op, ast.Sub) else x * y)
        return None


def _sp_libcall(lib, st, node):
    eng = lib.eng
    m = [m for m in lib.ext.models if type(m).__name__ == "OpaqueLibModel"][0]
    tf = m.tf()
    name = node.args[0].value
    return VU(m.LIBCALL(eng.strconst(name), tf.sp_args(st, node, 1)))


def _sp_libmeth(lib, st, node):
    eng = lib.eng
    m = [m for m in lib.ext.models if type(m).__name__ == "OpaqueLibModel"][0]
    tf = m.tf()
    name = node.args[0].value
    recv = eng.coerce(st, eng.eval(st, node.args[1]), "U")
    return VU(m.LIBMETH(eng.strconst(name), recv, tf.sp_args(st, node, 2)))


def _sp_attr(lib, st, node):
    eng = lib.eng
    m = [m for m in lib.ext.models if type(m).__name__ == "OpaqueLibModel"][0]
    name = node.args[0].value
    recv = eng.coerce(st, eng.eval(st, node.args[1]), "U")
    if name == "name":      # same reading as in code: .name of an opaque value
        from .models import PNAME
        return VU(PNAME(recv))
    if name == "parent":
        from .models import PPARENT
        return VU(PPARENT(recv))
    return VU(m.GETATTR(eng.strconst(name), recv))
