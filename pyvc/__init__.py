"""pyvc: a small verification-condition generator for the Python subset used by
google/sedpack.  It reads the real source from --repo on every run, executes
function bodies symbolically against sidecar contracts (/verif/contracts) and
hands named obligations to z3 / cvc5.  See /verif/DESIGN.md section 2."""
