"""Development helper: dump / re-check one obligation."""
import sys, time, z3

from . import solve

def main():
    key, pat = sys.argv[1], sys.argv[2]
    import os
    os.environ["PYVC_NOSOLVE"] = "1"
    from .contracts import Registry
    from .engine import Engine
    reg = Registry().load_dir("contracts")
    eng = Engine(reg, os.environ.get("PYVC_REPO", "/repo"))
    fc = [f for k, f in reg.funcs.items() if key in k][0]
    eng.verify(fc)
    obs = [o for o in eng.obligations if pat in o.name]
    print(len(obs), "matching")
    ob = obs[0]
    print(ob.name)
    ax = eng.global_axioms()
    s = z3.Solver()
    s.set("timeout", int(sys.argv[3]) if len(sys.argv) > 3 else 60000)
    for a in ax: s.add(a)
    for h in ob.hyps: s.add(h)
    s.add(z3.Not(ob.goal))
    t0 = time.time()
    r = s.check()
    print(r, time.time() - t0)
    if len(sys.argv) > 4:
        open(sys.argv[4], "w").write(s.to_smt2())
    print("GOAL:", ob.goal)

main()
