"""Symbolic executor producing named verification conditions.

Path exploration is by re-execution under a decision script (every fork asks
`State.choose`); loops are cut at sidecar invariants; calls to functions under
contract use the callee contract only (modular).  Anything outside the
supported subset raises Unsupported, which the driver reports as UNDECIDED."""
from __future__ import annotations
import ast
import copy
import z3
from .values import (U, IntS, BoolS, MS, TRUTHY, NONE_U, V, VInt, VBool, VNone,
                     VU, VRef, VOpt, VTuple, VList, VDict, VIter, VFunc,
                     VStream, VModule, VExc, sort_of_shape, wrap)
from . import source as S
from .contracts import Clause


HASHABLE = z3.Function("HASHABLE", U, BoolS)
# objects that are (sub)objects of a document parsed from disk (A-PYD: a
# parsed document is a fresh object graph, disjoint from the program's)
ISDISK = z3.Function("ISDISK", IntS, BoolS)


_RECORDED_LOCALS = None


def recorded_locals():
    """baseline/locals.json: function key -> [[local name, skeleton of its
    first binding], ...] of the audited version of the function"""
    global _RECORDED_LOCALS
    if _RECORDED_LOCALS is None:
        import json
        import os
        p = os.path.join(os.path.dirname(os.path.dirname(
            os.path.abspath(__file__))), "baseline", "locals.json")
        try:
            with open(p) as f:
                _RECORDED_LOCALS = json.load(f)
        except (OSError, ValueError):
            _RECORDED_LOCALS = {}
    return _RECORDED_LOCALS


def contract_identifiers(fc):
    """every identifier occurring in the text of a function's contract"""
    import re
    out, seen = set(), set()

    def walk(x, depth=0):
        if depth > 8 or id(x) in seen:
            return
        seen.add(id(x))
        if isinstance(x, str):
            out.update(re.findall(r"[A-Za-z_]\w*", x))
        elif isinstance(x, dict):
            for k, v in x.items():
                walk(k, depth + 1)
                walk(v, depth + 1)
        elif isinstance(x, (list, tuple, set)):
            for v in x:
                walk(v, depth + 1)
        elif hasattr(x, "__dict__") and not callable(x):
            walk(vars(x), depth + 1)
    walk(vars(fc))
    return out


class Unsupported(Exception):
    pass


class PathEnd(Exception):
    pass


class ReturnEx(Exception):
    def __init__(self, val):
        self.val = val


class BreakEx(Exception):
    pass


class ContinueEx(Exception):
    pass


class RaiseEx(Exception):
    """A Python exception raised by the code under verification."""

    def __init__(self, cls, line=0, info=""):
        self.cls = cls
        self.line = line
        self.info = info


class AbandonEx(Exception):
    """The consumer of a generator stopped at a yield (GeneratorExit)."""

    def __init__(self, line=0):
        self.line = line
        self.cls = "GeneratorExit"


# Python builtin exception hierarchy (only what the code base uses)
EXC_BASE = {
    "BaseException": None, "Exception": "BaseException",
    "GeneratorExit": "BaseException", "KeyboardInterrupt": "BaseException",
    "StopIteration": "Exception", "StopAsyncIteration": "Exception",
    "ArithmeticError": "Exception", "ZeroDivisionError": "ArithmeticError",
    "AssertionError": "Exception", "AttributeError": "Exception",
    "LookupError": "Exception", "IndexError": "LookupError",
    "KeyError": "LookupError", "OSError": "Exception",
    "FileNotFoundError": "OSError", "RuntimeError": "Exception",
    "NotImplementedError": "RuntimeError", "TypeError": "Exception",
    "ValueError": "Exception", "Foreign": "Exception",
    "ForeignBase": "BaseException",
    "DatasetExistsError": "Exception", "queue.Empty": "Exception",
    "Empty": "Exception", "UnboundLocalError": "Exception",
}


def exc_isinstance(cls, base):
    c = cls
    while c is not None:
        if c == base:
            return True
        c = EXC_BASE.get(c)
    return False


class Obligation:
    def __init__(self, name, hyps, goal, props, func, kind, line, path):
        self.name = name
        self.hyps = hyps
        self.goal = goal
        self.props = props
        self.func = func
        self.kind = kind
        self.line = line
        self.path = path
        self.status = None
        self.backend = None
        self.time = 0.0
        self.model = None


class IterState:
    def __init__(self, iid, seq, n, inf, pos, failat, pms, label):
        self.iid = iid
        self.seq = seq
        self.n = n
        self.inf = inf
        self.pos = pos
        self.failat = failat
        self.pms = pms
        self.label = label
        self.done = z3.BoolVal(False)  # StopIteration already delivered
        self.closed = False  # aclose()d by asyncstdlib.zip (elements lost)


class State:
    def __init__(self, eng, script):
        self.eng = eng
        self.locals: dict[str, V] = {}
        self.heap: dict[str, z3.ExprRef] = {}
        self.pc: list = []
        self.iters: dict[int, IterState] = {}
        self.ghost: dict[str, object] = {}
        self.out = None
        self.decisions: list[int] = []
        self.script = script
        self.alternatives: list = []
        self.ctr = 0
        self.nbranch = 0
        self.next_ref = None
        self.spec = 0
        self.old = None
        self.shared_lids: set = set()
        self.nyield = 0
        self.trace: list[str] = []

    # ---- naming / forking --------------------------------------------------
    def fresh(self, name, sort):
        self.ctr += 1
        return z3.Const(f"{name}!{self.ctr}", sort)

    def fresh_id(self):
        self.ctr += 1
        return self.ctr

    def choose(self, k, label=""):
        idx = len(self.decisions)
        if idx < len(self.script):
            c = self.script[idx]
        else:
            c = 0
            for alt in range(1, k):
                self.alternatives.append(self.decisions + [alt])
        self.decisions.append(c)
        self.trace.append(f"{label}={c}")
        return c

    def assume(self, f):
        if z3.is_true(f):
            return
        self.pc.append(f)

    def feasible(self, extra):
        """Cheap feasibility test (cached per decision prefix so replays are
        deterministic).  unknown counts as feasible."""
        self.nbranch += 1
        key = (tuple(self.decisions), self.nbranch)
        cache = self.eng.feas_cache
        if key in cache:
            return cache[key]
        s = z3.Solver()
        # a deterministic resource limit decides (same answer on every run and
        # under any load); the wall-clock limit is only a backstop
        s.set("rlimit", self.eng.feas_rlimit)
        s.set("timeout", self.eng.feas_timeout_ms)
        for h in self.pc:
            s.add(h)
        s.add(extra)
        r = s.check() != z3.unsat
        cache[key] = r
        return r

    def branch(self, cond, label="if"):
        cond = z3.simplify(cond)
        if z3.is_true(cond):
            return True
        if z3.is_false(cond):
            return False
        ft = self.feasible(cond)
        ff = self.feasible(z3.Not(cond))
        if ft and not ff:
            self.assume(cond)
            return True
        if ff and not ft:
            self.assume(z3.Not(cond))
            return False
        if not ft and not ff:
            # the path condition itself is unsatisfiable: contradictory
            # assumptions (reported by the driver: vacuity guard)
            self.eng.inconsistent.append((label, ".".join(map(str,
                                                               self.decisions))))
            raise PathEnd()
        c = self.choose(2, label)
        if c == 0:
            self.assume(cond)
            return True
        self.assume(z3.Not(cond))
        return False

    def snapshot(self):
        return {
            "locals": dict(self.locals), "heap": dict(self.heap),
            "iters": {k: (v.pos, v.done) for k, v in self.iters.items()},
            "ghost": dict(self.ghost), "out": self.out,
            "next_ref": self.next_ref,
        }


def _is_int_like(v):
    return isinstance(v, (VInt, VBool))


def _as_int(v):
    if isinstance(v, VInt):
        return v.t
    if isinstance(v, VBool):
        return z3.If(v.t, z3.IntVal(1), z3.IntVal(0))
    raise Unsupported(f"expected int, got {v!r}")


class Engine:
    def __init__(self, registry, repo, feas_timeout_ms=3000,
                 feas_rlimit=400000):
        self.reg = registry
        self.repo = repo
        self.feas_cache = {}
        self.feas_timeout_ms = feas_timeout_ms
        self.feas_rlimit = feas_rlimit
        self.obligations: list[Obligation] = []
        self._obl_keys = set()
        self.str_consts: dict[str, z3.ExprRef] = {}
        self.ufuncs: dict[str, z3.FuncDeclRef] = {}
        self.cur = None       # FuncContract being verified
        self.cur_node = None
        self.imports = {}
        self.used_assumptions: set = set()
        self.inconsistent: list = []
        self.site_ok: set = set()
        self.site_bad: dict = {}
        self.paths = 0
        from . import libspec
        self.lib = libspec.Lib(self)

    # ======================================================================
    # constants
    # ======================================================================
    def strconst(self, s):
        if s == "." and s not in self.str_consts:
            from .models import DOT
            self.str_consts[s] = DOT
        if s not in self.str_consts:
            self.str_consts[s] = z3.Const(f"str_{len(self.str_consts)}_" +
                                          "".join(c if c.isalnum() else "_"
                                                  for c in s)[:24], U)
        return self.str_consts[s]

    def global_axioms(self):
        ax = []
        cs = list(self.str_consts.values())
        if len(cs) > 1:
            ax.append(z3.Distinct(*cs))
        from .models import ISABS, HASDD, PNAME
        for s, c in self.str_consts.items():
            ax.append(TRUTHY(c) == z3.BoolVal(len(s) > 0))
            ax.append(c != NONE_U)
            # a literal of the program text is not a freshly generated
            # (uuid-bearing) name (A-STD)
            from .models import FRESHNAME as _FN
            ax.append(z3.Not(_FN(c)))
            if s and "/" not in s and s not in ("..", ".") and \
                    not s.startswith(("b:", "float:")):
                # a plain file / directory name used as a path component
                from .models import PART, NPARTS
                ax.append(z3.And(z3.Not(ISABS(c)), z3.Not(HASDD(c)),
                                 PNAME(c) == c, PART(c, 0) == c,
                                 NPARTS(c) == 1))
        ax.append(z3.Not(TRUTHY(NONE_U)))
        ax.extend(self.lib.axioms())
        ax.extend(self.registry_axioms())
        return ax

    def registry_axioms(self):
        if getattr(self, "_reg_ax", None) is None:
            st = State(self, [])
            st.next_ref = z3.Const("ref0", IntS)
            self.lib.init_ghosts_min(st)
            out = []
            for cl in self.reg.axioms:
                out.append(self.spec_bool(st, cl))
            self._reg_ax = out
        return self._reg_ax

    def ufunc(self, name):
        if name not in self.ufuncs:
            if name not in self.reg.ufuncs:
                raise Unsupported(f"unknown spec function {name}")
            args, ret = self.reg.ufuncs[name]
            sorts = [self.sort_of(a) for a in args] + [self.sort_of(ret)]
            self.ufuncs[name] = z3.Function(name, *sorts)
        return self.ufuncs[name]

    def sort_of(self, shape):
        if shape == "MS":
            return MS
        if shape == "STREAM":
            return self.lib.STREAM
        if shape == "SEQ":
            return self.lib.SEQ
        if shape == "ArrIntU":
            return z3.ArraySort(IntS, U)
        if shape == "ArrIntInt":
            return z3.ArraySort(IntS, IntS)
        return sort_of_shape(shape)

    # ======================================================================
    # fresh symbolic values by shape
    # ======================================================================
    def fresh_value(self, st: State, shape: str, name: str) -> V:
        if shape == "int":
            return VInt(st.fresh(name, IntS))
        if shape == "nat":
            t = st.fresh(name, IntS)
            st.assume(t >= 0)
            return VInt(t)
        if shape == "bool":
            return VBool(st.fresh(name, BoolS))
        if shape == "U":
            t = st.fresh(name, U)
            st.assume(t != NONE_U)
            return VU(t)
        if shape == "optU":
            return VU(st.fresh(name, U))
        if shape == "none":
            return VNone()
        if shape == "func":
            return VFunc(t=st.fresh(name, U))
        if shape == "optfunc":
            return VFunc(t=st.fresh(name, U))
        if shape.startswith("ref:"):
            t = st.fresh(name, IntS)
            st.assume(t >= 1)
            if st.next_ref is not None:
                st.assume(t < st.next_ref)
            return VRef(t, shape[4:])
        if shape.startswith("optref:"):
            t = st.fresh(name, IntS)
            st.assume(t >= 0)
            if st.next_ref is not None:
                st.assume(t < st.next_ref)
            return VRef(t, shape[7:])
        if shape.startswith("opt:"):
            return VOpt(st.fresh(name + "_isnone", BoolS),
                        self.fresh_value(st, shape[4:], name))
        if shape.startswith("list:"):
            es = shape[5:]
            return self.fresh_list(st, es, name)
        if shape.startswith("dict:"):
            vs = shape[5:]
            return self.fresh_dict(st, vs, name)
        if shape.startswith("tuple:"):
            return VTuple([self.fresh_value(st, s, f"{name}_{i}")
                           for i, s in enumerate(shape[6:].split(","))])
        if shape == "optexc":
            # exception instance or None (two scenarios)
            if st.choose(2, f"optexc:{name}") == 0:
                return VNone()
            return VExc("PASSED")
        if shape.startswith("iter"):
            return self.lib.fresh_iter(st, name)
        if shape in ("stream", "anystream"):
            return VStream(st.fresh(name, self.lib.STREAM))
        raise Unsupported(f"fresh value of shape {shape}")

    def fresh_list(self, st, es, name):
        sort = sort_of_shape(es)
        arr = st.fresh(name + "_arr", z3.ArraySort(IntS, sort))
        n = st.fresh(name + "_len", IntS)
        st.assume(n >= 0)
        ms = None
        if sort == U:
            ms = st.fresh(name + "_ms", MS)
        lst = VList(arr, n, es, ms)
        self.assume_list_facts(st, lst)
        return lst

    def assume_list_facts(self, st, lst: VList):
        """Datatype facts of (arr, n, ms): ms is the exact multiset of
        arr[0:n) (maintained exactly by every list operation), so its sound
        consequences may be assumed for a havocked / fresh list."""
        st.assume(lst.n >= 0)
        if lst.ms is not None:
            x = z3.Const("x!lf", U)
            i = z3.Const("i!lf", IntS)
            st.assume(z3.ForAll([x], lst.ms[x] >= 0))
            st.assume(z3.ForAll([i], z3.Implies(
                z3.And(0 <= i, i < lst.n), lst.ms[lst.arr[i]] >= 1)))
            st.assume(z3.Implies(lst.n == 0,
                                 z3.ForAll([x], lst.ms[x] == 0)))
        if lst.eshape.startswith("ref:"):
            i = z3.Const("i!lf", IntS)
            bound = st.next_ref
            body = lst.arr[i] >= 1
            if bound is not None:
                body = z3.And(body, lst.arr[i] < bound)
            st.assume(z3.ForAll([i], z3.Implies(z3.And(0 <= i, i < lst.n),
                                                body)))

    def fresh_dict(self, st, vs, name):
        if vs.startswith("list:"):
            es = vs[5:]
            esort = sort_of_shape(es)
            dom = st.fresh(name + "_dom", z3.ArraySort(U, BoolS))
            d = VDict(dom, st.fresh(name + "_varr", z3.ArraySort(
                U, z3.ArraySort(IntS, esort))), vs)
            d.vlen = st.fresh(name + "_vlen", z3.ArraySort(U, IntS))
            k = z3.Const("k!dl", U)
            st.assume(z3.ForAll([k], d.vlen[k] >= 0))
            return d
        sort = sort_of_shape(vs)
        dom = st.fresh(name + "_dom", z3.ArraySort(U, BoolS))
        val = st.fresh(name + "_val", z3.ArraySort(U, sort))
        d = VDict(dom, val, vs)
        if vs.startswith("ref:"):
            k = z3.Const("k!df", U)
            body = val[k] >= 1
            if st.next_ref is not None:
                body = z3.And(body, val[k] < st.next_ref)
            st.assume(z3.ForAll([k], z3.Implies(dom[k], body)))
        return d

    # ======================================================================
    # heap
    # ======================================================================
    def field_key(self, cls, field):
        owner = self.reg.field_owner(cls, field)
        if owner is None:
            raise Unsupported(f"unknown field {cls}.{field}")
        return f"{owner}.{field}", self.reg.classes[owner][field]

    def heap_arr(self, st: State, key: str, sort):
        if key not in st.heap:
            st.heap[key] = z3.Const(f"H0_{key}", z3.ArraySort(IntS, sort))
            self._assume_heap_facts(st, key, st.heap[key], sort)
        return st.heap[key]

    def _assume_heap_facts(self, st, key, arr, sort):
        shape = self._shape_of_key(key)
        if shape and (shape.startswith("ref:") or shape.startswith("optref:")) \
                and not key.endswith("#val") and st.next_ref is not None:
            r = z3.Const("r!hf", IntS)
            lo = 1 if shape.startswith("ref:") else 0
            # typed heap: reference fields are never below `lo`; objects
            # allocated so far point to objects allocated so far.  (Nothing is
            # said about the fields of objects a callee allocates later: they
            # are described by that callee's postcondition.)
            st.assume(z3.ForAll([r], arr[r] >= lo))
            st.assume(z3.ForAll([r], z3.Implies(
                z3.And(r >= 1, r < st.next_ref), arr[r] < st.next_ref)))
        if key.endswith("#len"):
            r = z3.Const("r!hf", IntS)
            st.assume(z3.ForAll([r], arr[r] >= 0))

    def _shape_of_key(self, key):
        base = key.split("#")[0]
        c, f = base.split(".", 1)
        return self.reg.classes.get(c, {}).get(f)

    def load_field(self, st: State, ref: VRef, field: str) -> V:
        key, shape = self.field_key(ref.cls, field)
        return self._load(st, key, shape, ref.t)

    def _load(self, st, key, shape, r):
        if shape.startswith("list:"):
            es = shape[5:]
            sort = sort_of_shape(es)
            arr = self.heap_arr(st, key + "#arr", z3.ArraySort(IntS, sort))[r]
            n = self.heap_arr(st, key + "#len", IntS)[r]
            ms = None
            if sort == U:
                ms = self.heap_arr(st, key + "#ms", MS)[r]
            lst = VList(arr, n, es, ms, lid=("heap", key, str(r)))
            if es.startswith("ref:"):
                self._list_heap_facts(st, key)
            return lst
        if shape.startswith("dict:list:"):
            vs = shape[5:]
            esort = sort_of_shape(vs[5:])
            dom = self.heap_arr(st, key + "#dom", z3.ArraySort(U, BoolS))[r]
            varr = self.heap_arr(st, key + "#varr", z3.ArraySort(
                U, z3.ArraySort(IntS, esort)))[r]
            vlen = self.heap_arr(st, key + "#vlen", z3.ArraySort(U, IntS))[r]
            d = VDict(dom, varr, vs, lid=("heap", key, str(r)))
            d.vlen = vlen
            return d
        if shape.startswith("dict:"):
            vs = shape[5:]
            sort = sort_of_shape(vs)
            dom = self.heap_arr(st, key + "#dom", z3.ArraySort(U, BoolS))[r]
            val = self.heap_arr(st, key + "#val", z3.ArraySort(U, sort))[r]
            if vs.startswith("ref:"):
                self._dict_heap_facts(st, key)
            return VDict(dom, val, vs, lid=("heap", key, str(r)))
        if shape.startswith("opt:"):
            inner = shape[4:]
            isn = self.heap_arr(st, key + "#none", BoolS)[r]
            v = self.heap_arr(st, key, sort_of_shape(inner))[r]
            return VOpt(isn, wrap(inner, v))
        if shape == "optfunc":
            return VFunc(t=self.heap_arr(st, key, U)[r])
        sort = sort_of_shape(shape)
        return wrap(shape, self.heap_arr(st, key, sort)[r])

    def _dict_heap_facts(self, st, key):
        """values of a dict of records stored in the heap are allocated
        objects"""
        D = st.heap[key + "#dom"]
        Vv = st.heap[key + "#val"]
        done = st.ghost.setdefault("__lhf", set())
        ident = (key, D.get_id(), Vv.get_id())
        if ident in done:
            return
        done.add(ident)
        r = z3.Const("r!dh", IntS)
        k = z3.Const("k!dh", U)
        st.assume(z3.ForAll([r, k], z3.Implies(
            z3.And(D[r][k], r >= 0, r < st.next_ref),
            z3.And(Vv[r][k] >= 1, Vv[r][k] < st.next_ref)),
            patterns=[Vv[r][k]]))

    def _list_heap_facts(self, st, key):
        """elements of a list of records stored in the heap are allocated
        objects (allocation discipline): assumed once per heap version"""
        A = st.heap[key + "#arr"]
        L = st.heap[key + "#len"]
        done = st.ghost.setdefault("__lhf", set())
        ident = (key, A.get_id(), L.get_id())
        if ident in done:
            return
        done.add(ident)
        r = z3.Const("r!lh", IntS)
        i = z3.Const("i!lh", IntS)
        st.assume(z3.ForAll([r, i], z3.Implies(
            z3.And(0 <= i, i < L[r], r >= 0, r < st.next_ref),
            A[r][i] < st.next_ref), patterns=[A[r][i]]))
        # a list of records holds records (never None): type invariant of
        # the pydantic models / dataclasses (A-PYD)
        st.assume(z3.ForAll([r, i], z3.Implies(
            z3.And(0 <= i, i < L[r]), A[r][i] >= 1), patterns=[A[r][i]]))

    def store_field(self, st: State, ref: VRef, field: str, v: V):
        key, shape = self.field_key(ref.cls, field)
        self._store(st, key, shape, ref.t, v)

    def _store(self, st, key, shape, r, v):
        if shape.startswith("list:"):
            if isinstance(v, VTuple):
                # a tuple literal stored into a sequence field (pydantic
                # accepts any sequence for tuple[...] / list[...] fields)
                lst = self.empty_list(st, shape[5:])
                for it in v.items:
                    lst = self.list_append(st, lst, it)
                v = lst
            if not isinstance(v, VList):
                raise Unsupported(f"store non-list into {key}")
            es = shape[5:]
            sort = sort_of_shape(es)
            if getattr(v, "untyped", False) and v.arr.sort().range() != sort:
                v = self.empty_list(st, es)     # the literal []
            a = self.heap_arr(st, key + "#arr", z3.ArraySort(IntS, sort))
            st.heap[key + "#arr"] = z3.Store(a, r, v.arr)
            a = self.heap_arr(st, key + "#len", IntS)
            st.heap[key + "#len"] = z3.Store(a, r, v.n)
            if sort == U:
                a = self.heap_arr(st, key + "#ms", MS)
                st.heap[key + "#ms"] = z3.Store(a, r, v.ms)
            return
        if shape.startswith("dict:list:"):
            if not isinstance(v, VDict):
                raise Unsupported(f"store non-dict into {key}")
            vs = shape[5:]
            esort = sort_of_shape(vs[5:])
            a = self.heap_arr(st, key + "#dom", z3.ArraySort(U, BoolS))
            st.heap[key + "#dom"] = z3.Store(a, r, v.dom)
            a = self.heap_arr(st, key + "#varr", z3.ArraySort(
                U, z3.ArraySort(IntS, esort)))
            b = self.heap_arr(st, key + "#vlen", z3.ArraySort(U, IntS))
            if v.val is None:      # the literal {}
                st.heap[key + "#varr"] = z3.Store(a, r, st.fresh(
                    "dvarr", z3.ArraySort(U, z3.ArraySort(IntS, esort))))
                st.heap[key + "#vlen"] = z3.Store(b, r, z3.K(U, z3.IntVal(0)))
            else:
                st.heap[key + "#varr"] = z3.Store(a, r, v.val)
                st.heap[key + "#vlen"] = z3.Store(b, r, v.vlen)
            return
        if shape.startswith("dict:"):
            if not isinstance(v, VDict):
                raise Unsupported(f"store non-dict into {key}")
            vs = shape[5:]
            sort = sort_of_shape(vs)
            if v.val is None:      # empty literal {}
                v = VDict(v.dom, st.fresh("dval", z3.ArraySort(U, sort)), vs,
                          lid=v.lid)
            a = self.heap_arr(st, key + "#dom", z3.ArraySort(U, BoolS))
            st.heap[key + "#dom"] = z3.Store(a, r, v.dom)
            a = self.heap_arr(st, key + "#val", z3.ArraySort(U, sort))
            st.heap[key + "#val"] = z3.Store(a, r, v.val)
            return
        if shape.startswith("opt:"):
            inner = shape[4:]
            a = self.heap_arr(st, key + "#none", BoolS)
            b = self.heap_arr(st, key, sort_of_shape(inner))
            if isinstance(v, VNone):
                st.heap[key + "#none"] = z3.Store(a, r, z3.BoolVal(True))
            elif isinstance(v, VOpt):
                st.heap[key + "#none"] = z3.Store(a, r, v.isnone)
                st.heap[key] = z3.Store(b, r, self.coerce(st, v.val, inner))
            else:
                st.heap[key + "#none"] = z3.Store(a, r, z3.BoolVal(False))
                st.heap[key] = z3.Store(b, r, self.coerce(st, v, inner))
            return
        sort = sort_of_shape(shape if shape != "optfunc" else "U")
        a = self.heap_arr(st, key, sort)
        st.heap[key] = z3.Store(a, r, self.coerce(st, v, shape))

    def coerce(self, st, v: V, shape: str):
        """z3 term of value v at a single-sort shape."""
        if shape == "int":
            return _as_int(v)
        if shape == "bool":
            if isinstance(v, VBool):
                return v.t
            raise Unsupported(f"coerce {v!r} to bool")
        if shape in ("U", "optU", "func", "optfunc"):
            if isinstance(v, VNone):
                return NONE_U
            if isinstance(v, VU):
                return v.t
            if isinstance(v, VFunc) and v.t is not None:
                return v.t
            raise Unsupported(f"coerce {v!r} to U")
        if shape.startswith("ref:") or shape.startswith("optref:"):
            if isinstance(v, VNone):
                return z3.IntVal(0)
            if isinstance(v, VRef):
                return v.t
            raise Unsupported(f"coerce {v!r} to {shape}")
        raise Unsupported(f"coerce to {shape}")

    def alloc(self, st: State, cls: str) -> VRef:
        r = st.next_ref
        st.next_ref = r + 1
        return VRef(r, cls)

    def havoc_heap(self, st: State, keys):
        """Replace the named heap components by fresh arrays."""
        for key in keys:
            matched = [k for k in list(st.heap) if k == key or
                       k.startswith(key + "#")]
            if not matched:
                # materialise so that later reads see the havocked version
                shape = self._shape_of_key(key)
                if shape is None:
                    raise Unsupported(f"havoc of unknown field {key}")
                self._materialise(st, key, shape)
                matched = [k for k in list(st.heap) if k == key or
                           k.startswith(key + "#")]
            for k in matched:
                old = st.heap[k]
                new = st.fresh("H_" + k, old.sort())
                st.heap[k] = new
                self._assume_heap_facts(st, k, new, old.sort().range())

    def _materialise(self, st, key, shape):
        r = z3.IntVal(0)
        self._load(st, key, shape, r)

    # ======================================================================
    # truthiness / equality
    # ======================================================================
    def truthy(self, st, v: V):
        if isinstance(v, VBool):
            return v.t
        if isinstance(v, VInt):
            return v.t != 0
        if isinstance(v, VNone):
            return z3.BoolVal(False)
        if isinstance(v, VU):
            return TRUTHY(v.t)
        if isinstance(v, VRef):
            tr = self.reg.class_truthy.get(v.cls)
            if tr:
                inner = self.load_field(st, v, tr)
                return z3.And(v.t != 0, self.truthy(st, inner))
            return v.t != 0
        if isinstance(v, VList):
            return v.n > 0
        if isinstance(v, VOpt):
            return z3.And(z3.Not(v.isnone), self.truthy(st, v.val))
        if isinstance(v, VTuple):
            return z3.BoolVal(len(v.items) > 0)
        if isinstance(v, VFunc):
            if v.t is not None:
                return v.t != NONE_U
            return z3.BoolVal(True)
        if isinstance(v, VExc):
            return z3.BoolVal(True)
        if isinstance(v, VDict):
            k = z3.Const("k!tr", U)
            return z3.Exists([k], v.dom[k])
        if isinstance(v, (VIter, VStream)):
            return z3.BoolVal(True)
        raise Unsupported(f"truthiness of {v!r}")

    def is_none(self, st, v: V):
        if isinstance(v, VNone):
            return z3.BoolVal(True)
        if isinstance(v, VU):
            return v.t == NONE_U
        if isinstance(v, VRef):
            return v.t == 0
        if isinstance(v, VOpt):
            return v.isnone
        if isinstance(v, VFunc):
            if v.t is not None:
                return v.t == NONE_U
            return z3.BoolVal(False)
        return z3.BoolVal(False)

    def equal(self, st, a: V, b: V):
        if isinstance(a, VNone) or isinstance(b, VNone):
            other = b if isinstance(a, VNone) else a
            return self.is_none(st, other)
        if _is_int_like(a) and _is_int_like(b):
            if isinstance(a, VBool) and isinstance(b, VBool):
                return a.t == b.t
            return _as_int(a) == _as_int(b)
        if isinstance(a, VU) and isinstance(b, VU):
            return a.t == b.t
        if isinstance(a, VRef) and isinstance(b, VRef):
            tr = self.reg.class_truthy.get(a.cls)
            if tr and a.cls == b.cls:
                # value objects (dict payload): equality of the value
                va = self.load_field(st, a, tr)
                vb = self.load_field(st, b, tr)
                return z3.If(z3.Or(a.t == 0, b.t == 0), a.t == b.t,
                             self.equal(st, va, vb))
            if st.spec:
                return a.t == b.t
            # structural equality of records: identity implies equality
            e = st.fresh("eq", BoolS)
            st.assume(z3.Implies(a.t == b.t, e))
            return e
        if isinstance(a, VTuple) and isinstance(b, VTuple):
            if len(a.items) != len(b.items):
                return z3.BoolVal(False)
            return z3.And([self.equal(st, x, y)
                           for x, y in zip(a.items, b.items)] or
                          [z3.BoolVal(True)])
        if isinstance(a, VOpt) and isinstance(b, VOpt):
            return z3.Or(z3.And(a.isnone, b.isnone),
                         z3.And(z3.Not(a.isnone), z3.Not(b.isnone),
                                self.equal(st, a.val, b.val)))
        if isinstance(a, VOpt) or isinstance(b, VOpt):
            o, x = (a, b) if isinstance(a, VOpt) else (b, a)
            return z3.And(z3.Not(o.isnone), self.equal(st, o.val, x))
        if isinstance(a, VList) and isinstance(b, VList):
            if a.eshape in ("U", "int", "bool") and a.eshape == b.eshape:
                i = z3.Const("i!eq", IntS)
                return z3.And(a.n == b.n, z3.ForAll([i], z3.Implies(
                    z3.And(0 <= i, i < a.n), a.arr[i] == b.arr[i])))
            if st.spec:
                i = z3.Const("i!eq", IntS)
                return z3.And(a.n == b.n, z3.ForAll([i], z3.Implies(
                    z3.And(0 <= i, i < a.n), a.arr[i] == b.arr[i])))
            raise Unsupported("list equality in code")
        if isinstance(a, VU) and isinstance(b, (VInt, VBool)):
            # an opaque value compared with an int: the opaque value is the
            # embedding INTU(i) of that int
            return a.t == z3.Function("INTU", IntS, U)(_as_int(b))
        if isinstance(b, VU) and isinstance(a, (VInt, VBool)):
            return b.t == z3.Function("INTU", IntS, U)(_as_int(a))
        if isinstance(a, VU) and isinstance(b, VFunc) and b.t is not None:
            return a.t == b.t
        if isinstance(a, VFunc) and isinstance(b, VU) and a.t is not None:
            return a.t == b.t
        if isinstance(a, VStream) and isinstance(b, VStream):
            return a.t == b.t
        if hasattr(a, "t") and hasattr(b, "t") and \
                type(a).__name__ == "VSpecTerm" and \
                type(b).__name__ == "VSpecTerm":
            return a.t == b.t
        if isinstance(a, VFunc) and isinstance(b, VFunc) and \
                a.t is not None and b.t is not None:
            return a.t == b.t
        raise Unsupported(f"equality of {a!r} and {b!r}")

    # ======================================================================
    # obligations
    # ======================================================================
    def oblige(self, st: State, kind, line, goal, props=None, label="",
               extra_hyps=(), no_pc=False):
        goal = z3.simplify(goal) if z3.is_expr(goal) else z3.BoolVal(bool(goal))
        if z3.is_true(goal):
            # still count trivially-true obligations: they were generated
            pass
        # a goal that is literally a formula assumed behind a `hide` name on
        # this path holds (the name itself is asserted): no solver needed
        for ent in st.ghost.get("__hidden", {}).values():
            for p_, f_ in (ent if isinstance(ent, list) else [ent]):
                if z3.eq(goal, f_) or z3.eq(goal, z3.simplify(f_)):
                    goal = p_
                    break
        fc = self.cur
        name = f"{fc.key}/{kind}@{line}" + (f"[{label}]" if label else "")
        pathid = ".".join(map(str, st.decisions))
        key = (name, pathid, len([1 for k in self._obl_keys
                                  if k[0] == name and k[1] == pathid]))
        # stable identity: same site + same decision prefix + occurrence index
        occ = st.ghost.setdefault("__occ", {})
        o = occ.get((name, pathid), 0)
        occ[(name, pathid)] = o + 1
        key = (name, pathid, o)
        if key in self._obl_keys:
            return
        self._obl_keys.add(key)
        ob = Obligation(name + f"#p{pathid}" + (f"~{o}" if o else ""),
                        ([] if no_pc else list(st.pc)) + list(extra_hyps),
                        goal,
                        list(props if props is not None else fc.props),
                        fc.key, kind, line, pathid)
        self.obligations.append(ob)

    def reveal_hyps(self, st, cl):
        """definitions of the hidden formulas a clause asks to see"""
        out = []
        for nm in getattr(cl, "reveal", ()) or ():
            hid = st.ghost.get("__hidden", {})
            if nm not in hid:
                continue        # nothing was hidden under this name here
            ent = hid[nm]
            for p_, f_ in (ent if isinstance(ent, list) else [ent]):
                out.append(p_ == f_)
        return out

    def assume_clause(self, st, cl, formula):
        """assume a clause, behind its `hide` name if it has one"""
        nm = getattr(cl, "hide", None)
        if not nm:
            st.assume(formula)
            return
        hid = st.ghost.setdefault("__hidden", {})
        p_ = st.fresh("hid_" + nm, z3.BoolSort())
        ent = hid.get(nm)
        if ent is None:
            hid[nm] = [(p_, formula)]
        elif isinstance(ent, list):
            ent.append((p_, formula))
        else:
            hid[nm] = [ent, (p_, formula)]
        st.assume(p_)

    def require(self, st: State, cond, exc_cls, line, info=""):
        """Python raises exc_cls when cond is false."""
        if st.spec:
            return
        if not st.branch(cond, f"req:{exc_cls}@{line}"):
            raise RaiseEx(exc_cls, line, info)

    # ======================================================================
    # expression evaluation
    # ======================================================================
    def eval(self, st: State, node) -> V:
        m = getattr(self, "e_" + type(node).__name__, None)
        if m is None:
            raise Unsupported(f"expression {type(node).__name__} "
                              f"at line {getattr(node, 'lineno', '?')}")
        return m(st, node)

    def e_Constant(self, st, node):
        v = node.value
        if v is None:
            return VNone()
        if isinstance(v, bool):
            return VBool(v)
        if isinstance(v, int):
            return VInt(v)
        if isinstance(v, str):
            return VU(self.strconst(v), lit=v)
        if isinstance(v, bytes):
            return VU(self.strconst("b:" + v.decode("latin1")), lit=v)
        if v is Ellipsis:
            return VNone()
        if isinstance(v, float):
            return VU(self.strconst("float:" + repr(v)), lit=v)
        raise Unsupported(f"constant {v!r}")

    def e_Name(self, st, node):
        name = node.id
        if name in st.locals:
            v = st.locals[name]
            if v is None:
                if st.spec and st.old and st.old["locals"].get(name) is not None:
                    return st.old["locals"][name]  # deleted parameter
                raise RaiseEx("UnboundLocalError", node.lineno, name)
            return v
        if st.spec and name in st.ghost and isinstance(st.ghost[name], V):
            return st.ghost[name]
        if st.spec:
            sv = self.lib.spec_name(st, name)
            if sv is not None:
                return sv
        if name in ("True", "False"):
            return VBool(name == "True")
        g = self.lib.global_name(st, name, self.imports)
        if g is not None:
            return g
        raise Unsupported(f"unknown name {name} at line {node.lineno}")

    def e_JoinedStr(self, st, node):
        # f-string: evaluate the pieces (for exceptions); the value is an
        # opaque non-empty string; it is a *fresh name* if a piece is
        from .models import FRESHNAME, PJOIN
        fresh_parts = []
        parts_u = []
        has_text = any(isinstance(p_, ast.Constant) and p_.value
                       for p_ in node.values)
        for part in node.values:
            if isinstance(part, ast.FormattedValue):
                try:
                    v = self.eval(st, part.value)
                    if isinstance(v, VU):
                        fresh_parts.append(FRESHNAME(v.t))
                        parts_u.append(v.t)
                except Unsupported:
                    pass
        t = st.fresh("fstr", U)
        st.assume(t != NONE_U)
        st.assume(TRUTHY(t))
        if has_text:
            # literal text + an interpolated string is longer than, hence
            # different from, the interpolated string
            for pu in parts_u:
                st.assume(t != pu)
        if fresh_parts:
            from .models import ISABS, HASDD
            st.assume(FRESHNAME(t) == z3.Or(fresh_parts))
            # a generated file name is a single plain component (A-STD)
            from .models import PNAME
            from .models import NPARTS
            st.assume(z3.Implies(FRESHNAME(t), z3.And(z3.Not(ISABS(t)),
                                                      z3.Not(HASDD(t)),
                                                      PNAME(t) == t,
                                                      NPARTS(t) == 1)))
            if "DSTATE" in st.ghost:
                # a name containing a fresh uuid does not exist anywhere (A-STD)
                par = z3.Const("par!fn", U)
                st.assume(z3.Implies(FRESHNAME(t), z3.ForAll(
                    [par], st.ghost["DSTATE"][PJOIN(par, t)] == 0)))
        return VU(t)

    def e_Tuple(self, st, node):
        if any(isinstance(e, ast.Starred) for e in node.elts):
            # (a, *xs): an opaque tuple value determined by its pieces
            f = z3.Function("TUPLE2", U, U, U)
            t = self.strconst("()")
            for e in reversed(node.elts):
                v = self.eval(st, e.value if isinstance(e, ast.Starred) else e)
                if isinstance(v, (VInt, VBool)):
                    u = z3.Function("INTU", IntS, U)(_as_int(v))
                else:
                    u = self.coerce(st, v, "U")
                t = f(u, t)
            return VU(t)
        return VTuple([self.eval(st, e) for e in node.elts])

    def e_List(self, st, node):
        if not node.elts:
            return self.empty_list(st, None)
        items = [self.eval(st, e) for e in node.elts]
        return self.list_from_items(st, items)

    def empty_list(self, st, eshape):
        es = eshape or "U"
        sort = sort_of_shape(es)
        arr = st.fresh("emp_arr", z3.ArraySort(IntS, sort))
        ms = z3.K(U, z3.IntVal(0)) if sort == U else None
        lst = VList(arr, z3.IntVal(0), es, ms)
        lst.untyped = eshape is None
        return lst

    def shape_of_value(self, v: V):
        if isinstance(v, VInt):
            return "int"
        if isinstance(v, VBool):
            return "bool"
        if isinstance(v, VU):
            return "U"
        if isinstance(v, VRef):
            return "ref:" + v.cls
        if isinstance(v, VFunc):
            return "U"
        if isinstance(v, VNone):
            return "optU"
        raise Unsupported(f"element shape of {v!r}")

    def list_from_items(self, st, items):
        es = self.shape_of_value(items[0])
        lst = self.empty_list(st, es)
        for it in items:
            lst = self.list_append(st, lst, it)
        return lst

    def list_append(self, st, lst: VList, v: V) -> VList:
        if getattr(lst, "untyped", False) and z3.is_int_value(lst.n) \
                and lst.n.as_long() == 0:
            es = self.shape_of_value(v)
            if es != lst.eshape:
                new = self.empty_list(st, es)
                new.lid = lst.lid
                lst = new
        t = self.coerce(st, v, lst.eshape)
        ms = lst.ms
        if ms is not None:
            ms = z3.Store(ms, t, ms[t] + 1)
        new = VList(z3.Store(lst.arr, lst.n, t), z3.simplify(lst.n + 1),
                    lst.eshape, ms, lid=lst.lid)
        self.lib.note_append(st, lst, new, t)
        return new

    def e_Dict(self, st, node):
        if node.keys:
            raise Unsupported("non-empty dict literal")
        d = VDict(z3.K(U, z3.BoolVal(False)), None, None)
        return d

    def e_BoolOp(self, st, node):
        if st.spec:
            vals = [self.truthy(st, self.eval(st, v)) for v in node.values]
            return VBool(z3.And(vals) if isinstance(node.op, ast.And)
                         else z3.Or(vals))
        v = None
        for i, e in enumerate(node.values):
            v = self.eval(st, e)
            if i == len(node.values) - 1:
                return v
            t = st.branch(self.truthy(st, v), f"boolop@{node.lineno}")
            if isinstance(node.op, ast.And) and not t:
                return v
            if isinstance(node.op, ast.Or) and t:
                if isinstance(v, VOpt):
                    return v.val  # truthy => not None
                return v
        return v

    def e_UnaryOp(self, st, node):
        v = self.eval(st, node.operand)
        if isinstance(node.op, ast.Not):
            return VBool(z3.Not(self.truthy(st, v)))
        if isinstance(node.op, ast.USub):
            return VInt(-_as_int(v))
        if isinstance(node.op, ast.UAdd):
            return VInt(_as_int(v))
        raise Unsupported("unary op")

    def e_IfExp(self, st, node):
        if st.spec:
            c = self.truthy(st, self.eval(st, node.test))
            a = self.eval(st, node.body)
            b = self.eval(st, node.orelse)
            return self.ite(st, c, a, b)
        if st.branch(self.truthy(st, self.eval(st, node.test)),
                     f"ifexp@{node.lineno}"):
            return self.eval(st, node.body)
        return self.eval(st, node.orelse)

    def ite(self, st, c, a, b):
        if isinstance(a, VBool) and isinstance(b, VBool):
            return VBool(z3.If(c, a.t, b.t))
        if _is_int_like(a) and _is_int_like(b):
            return VInt(z3.If(c, _as_int(a), _as_int(b)))
        if isinstance(a, VU) and isinstance(b, VU):
            return VU(z3.If(c, a.t, b.t))
        if isinstance(a, VRef) and isinstance(b, VRef):
            return VRef(z3.If(c, a.t, b.t), a.cls)
        raise Unsupported("if-expression over these values")

    def e_BinOp(self, st, node):
        a = self.eval(st, node.left)
        b = self.eval(st, node.right)
        return self.binop(st, node.op, a, b, node.lineno)

    def binop(self, st, op, a, b, line):
        r = self.lib.binop(st, op, a, b, line)
        if r is not None:
            return r
        if isinstance(a, VOpt) or isinstance(b, VOpt):
            # arithmetic on None raises TypeError
            for o in (a, b):
                if isinstance(o, VOpt):
                    self.require(st, z3.Not(o.isnone), "TypeError", line)
            a = a.val if isinstance(a, VOpt) else a
            b = b.val if isinstance(b, VOpt) else b
        if _is_int_like(a) and _is_int_like(b):
            x, y = _as_int(a), _as_int(b)
            if isinstance(op, ast.Add):
                return VInt(x + y)
            if isinstance(op, ast.Sub):
                return VInt(x - y)
            if isinstance(op, ast.Mult):
                return VInt(x * y)
            if isinstance(op, ast.FloorDiv):
                self.require(st, y != 0, "ZeroDivisionError", line)
                return VInt(self.floordiv(st, x, y))
            if isinstance(op, ast.Mod):
                self.require(st, y != 0, "ZeroDivisionError", line)
                return VInt(self.pymod(st, x, y))
            if isinstance(op, ast.Pow):
                if z3.is_int_value(x) and z3.is_int_value(y):
                    return VInt(x.as_long() ** y.as_long())
        raise Unsupported(f"binary op {type(op).__name__} on {a!r}, {b!r} "
                          f"at line {line}")

    def pymod(self, st, x, y):
        # Python: result has the sign of the divisor.  z3 mod is >= 0 always.
        m = x % y
        return z3.If(y > 0, m, z3.If(m == 0, 0, m + y))

    def floordiv(self, st, x, y):
        # floor division, any signs
        q = x / y  # z3 int div: rounds so that remainder is >= 0
        return z3.If(y > 0, q, z3.If(x % y == 0, q, q - 1))

    def e_Compare(self, st, node):
        left = self.eval(st, node.left)
        conds = []
        for op, rn in zip(node.ops, node.comparators):
            right = self.eval(st, rn)
            conds.append(self.compare(st, op, left, right, node.lineno))
            left = right
        if len(conds) == 1:
            return VBool(conds[0])
        return VBool(z3.And(conds))

    def _same_heap_container(self, a, b):
        """Two container values read from the same field of the same object
        (a container stored in a field is identified with that slot in this
        value model) in a function that never assigns that attribute: the same
        object.  Anything else stays undecided."""
        if not (isinstance(a, (VList, VDict)) and isinstance(b, (VList, VDict))
                and type(a) is type(b)):
            return False
        la, lb = a.lid, b.lid
        if not (isinstance(la, tuple) and la == lb and la[0] == "heap"):
            return False
        field = la[1].split(".")[-1]
        for n in ast.walk(self.cur_node):
            if isinstance(n, ast.Attribute) and n.attr == field and \
                    not isinstance(n.ctx, ast.Load):
                return False
            if isinstance(n, ast.Call) and isinstance(n.func, ast.Name) and \
                    n.func.id in ("setattr", "delattr"):
                return False
        if isinstance(a, VDict):
            return a.dom.eq(b.dom) and a.val.eq(b.val)
        return a.arr.eq(b.arr) and a.n.eq(b.n)

    def compare(self, st, op, a, b, line):
        r = self.lib.compare(st, op, a, b, line)
        if r is not None:
            return r
        if isinstance(op, ast.Eq):
            return self.equal(st, a, b)
        if isinstance(op, ast.NotEq):
            return z3.Not(self.equal(st, a, b))
        if isinstance(op, (ast.Is, ast.IsNot)):
            if isinstance(a, VNone) or isinstance(b, VNone):
                other = b if isinstance(a, VNone) else a
                e = self.is_none(st, other)
            elif isinstance(a, VRef) and isinstance(b, VRef):
                e = a.t == b.t
            elif isinstance(a, VBool) and isinstance(b, VBool):
                e = a.t == b.t
            elif self._same_heap_container(a, b):
                e = z3.BoolVal(True)
            else:
                raise Unsupported(f"`is` on {a!r}, {b!r}")
            return e if isinstance(op, ast.Is) else z3.Not(e)
        if isinstance(op, (ast.Lt, ast.LtE, ast.Gt, ast.GtE)):
            if st.spec and (isinstance(a, VRef) or isinstance(b, VRef)):
                x = a.t if isinstance(a, VRef) else _as_int(a)
                y = b.t if isinstance(b, VRef) else _as_int(b)
                return {ast.Lt: x < y, ast.LtE: x <= y, ast.Gt: x > y,
                        ast.GtE: x >= y}[type(op)]
            if _is_int_like(a) and _is_int_like(b):
                x, y = _as_int(a), _as_int(b)
                return {ast.Lt: x < y, ast.LtE: x <= y, ast.Gt: x > y,
                        ast.GtE: x >= y}[type(op)]
            if isinstance(a, VOpt) or isinstance(b, VOpt):
                if st.spec:
                    x = a.val if isinstance(a, VOpt) else a
                    y = b.val if isinstance(b, VOpt) else b
                    return self.compare(st, op, x, y, line)
                for o in (a, b):
                    if isinstance(o, VOpt):
                        self.require(st, z3.Not(o.isnone), "TypeError", line)
                x = a.val if isinstance(a, VOpt) else a
                y = b.val if isinstance(b, VOpt) else b
                return self.compare(st, op, x, y, line)
        if isinstance(op, (ast.In, ast.NotIn)):
            e = self.contains(st, b, a, line)
            return e if isinstance(op, ast.In) else z3.Not(e)
        raise Unsupported(f"comparison {type(op).__name__} on {a!r}, {b!r} "
                          f"at line {line}")

    def contains(self, st, container, x, line):
        if isinstance(container, VDict):
            if container.val is None:
                return z3.BoolVal(False)
            return container.dom[self.coerce(st, x, "U")]
        if isinstance(container, VTuple):
            return z3.Or([self.equal(st, x, it) for it in container.items] or
                         [z3.BoolVal(False)])
        if isinstance(container, VU) and isinstance(container.lit, str) and \
                0 < len(container.lit) <= 8 and isinstance(x, VU):
            # membership of a one-character string in a short literal string
            return z3.Or([x.t == self.strconst(ch) for ch in container.lit])
        if isinstance(container, VList):
            if z3.is_int_value(container.n):
                n = container.n.as_long()
                return z3.Or([container.arr[i] ==
                              self.coerce(st, x, container.eshape)
                              for i in range(n)] or [z3.BoolVal(False)])
            if container.ms is not None:
                return container.ms[self.coerce(st, x, "U")] >= 1
            i = st.fresh("ci", IntS)
            raise Unsupported("membership in symbolic list")
        r = self.lib.contains(st, container, x, line)
        if r is not None:
            return r
        raise Unsupported(f"`in` on {container!r}")

    def e_Attribute(self, st, node):
        # module attribute?
        if isinstance(node.value, ast.Name) and node.value.id not in st.locals:
            g = self.lib.dotted(st, node, self.imports)
            if g is not None:
                return g
        obj = self.eval(st, node.value)
        return self.getattr(st, obj, node.attr, node.lineno)

    def getattr(self, st, obj, attr, line):
        if isinstance(obj, VRef):
            if self.reg.field_owner(obj.cls, attr) is not None:
                self.require(st, obj.t != 0, "AttributeError", line,
                             f"None.{attr}")
                return self.load_field(st, obj, attr)
            r = self.lib.property_get(st, obj, attr, line)
            if r is not None:
                return r
            pfc = self.reg.find_method(obj.cls, attr)
            if pfc is not None and pfc.is_property:
                # a getter under contract `result is <expr>` reads as <expr>
                return self.lib.apply_property_spec(st, pfc, obj)
            return VFunc(name=attr, bound=obj)
        r = self.lib.getattr(st, obj, attr, line)
        if r is not None:
            return r
        if isinstance(obj, (VList, VDict, VU, VIter, VStream, VModule, VFunc,
                            VOpt)):
            return VFunc(name=attr, bound=obj)
        raise Unsupported(f"attribute .{attr} of {obj!r} at line {line}")

    def e_Subscript(self, st, node):
        # generic alias call like queue.Queue[int] is handled in e_Call
        obj = self.eval(st, node.value)
        if isinstance(node.slice, ast.Slice):
            return self.slice(st, obj, node.slice, node.lineno)
        idx = self.eval(st, node.slice)
        return self.getitem(st, obj, idx, node.lineno)

    def norm_index(self, st, lst: VList, idx, line):
        i = _as_int(idx)
        i = z3.simplify(i)
        if z3.is_int_value(i) and i.as_long() < 0:
            j = lst.n + i.as_long()
        elif st.spec or (z3.is_int_value(i) and i.as_long() >= 0):
            j = i     # specifications index from the front
        else:
            j = z3.If(i < 0, lst.n + i, i)
        self.require(st, z3.And(0 <= j, j < lst.n), "IndexError", line)
        return z3.simplify(j)

    def getitem(self, st, obj, idx, line):
        if isinstance(obj, VList):
            j = self.norm_index(st, obj, idx, line)
            return wrap(obj.eshape, obj.arr[j])
        if isinstance(obj, VDict):
            k = self.coerce(st, idx, "U")
            if obj.val is None:
                raise RaiseEx("KeyError", line)
            dl = getattr(obj, "default_list", False)
            if not dl:
                self.require(st, obj.dom[k], "KeyError", line)
            if obj.vshape.startswith("list:"):
                es = obj.vshape[5:]
                ms = None
                # defaultdict(list): a missing key reads as the empty list
                # (supported for the `d[k].append(x)` pattern, where the
                # write-back inserts the key)
                n_ = z3.If(obj.dom[k], obj.vlen[k], 0) if dl else obj.vlen[k]
                lst = VList(obj.val[k], z3.simplify(n_), es, ms,
                            lid=("dictval", str(obj.lid), str(k)))
                if sort_of_shape(es) == U:
                    lst.ms = st.fresh("dl_ms", MS)
                return lst
            return wrap(obj.vshape, obj.val[k])
        if isinstance(obj, VTuple):
            i = z3.simplify(_as_int(idx))
            if z3.is_int_value(i):
                n = i.as_long()
                if -len(obj.items) <= n < len(obj.items):
                    return obj.items[n]
                raise RaiseEx("IndexError", line)
            raise Unsupported("symbolic tuple index")
        if type(obj).__name__ == "VSpecTerm" and z3.is_array(obj.t):
            e = obj.t[_as_int(idx) if obj.t.sort().domain() == IntS
                      else self.coerce(st, idx, "U")]
            if e.sort() == IntS:
                return VInt(e)
            if e.sort() == U:
                return VU(e)
            return type(obj)(e)
        r = self.lib.getitem(st, obj, idx, line)
        if r is not None:
            return r
        raise Unsupported(f"subscript of {obj!r} at line {line}")

    def slice(self, st, obj, sl, line):
        if sl.step is not None:
            raise Unsupported("slice step")
        lo = self.eval(st, sl.lower) if sl.lower is not None else None
        hi = self.eval(st, sl.upper) if sl.upper is not None else None
        r = self.lib.slice(st, obj, lo, hi, line)
        if r is not None:
            return r
        if isinstance(obj, VList):
            return self.list_slice(st, obj, lo, hi)
        raise Unsupported(f"slice of {obj!r} at line {line}")

    def _clamp(self, n, i):
        # python slice index normalisation
        j = z3.If(i < 0, n + i, i)
        return z3.If(j < 0, 0, z3.If(j > n, n, j))

    def list_slice(self, st, lst: VList, lo, hi):
        n = lst.n
        a = self._clamp(n, _as_int(lo)) if lo is not None and not isinstance(
            lo, VNone) else z3.IntVal(0)
        if isinstance(hi, VOpt):
            b = z3.If(hi.isnone, n, self._clamp(n, _as_int(hi.val)))
        elif hi is not None and not isinstance(hi, VNone):
            b = self._clamp(n, _as_int(hi))
        else:
            b = n
        m = z3.If(b > a, b - a, 0)
        sort = sort_of_shape(lst.eshape)
        arr = st.fresh("sl_arr", z3.ArraySort(IntS, sort))
        i = z3.Const("i!sl", IntS)
        st.assume(z3.ForAll([i], z3.Implies(z3.And(0 <= i, i < m),
                                            arr[i] == lst.arr[a + i])))
        ms = None
        if lst.ms is not None:
            ms = st.fresh("sl_ms", MS)
        new = VList(arr, z3.simplify(m), lst.eshape, ms)
        self.assume_list_facts(st, new)
        new.slice_of = (lst, a, b)
        self.lib.note_slice(st, lst, new, lo, hi)
        return new

    def e_Lambda(self, st, node):
        return VFunc(name="<lambda>", bound=node)

    def e_Await(self, st, node):
        self.used_assumptions.add("A-ASYNC")
        return self.eval(st, node.value)

    def e_Starred(self, st, node):
        raise Unsupported("starred expression")

    def e_ListComp(self, st, node):
        return self.lib.comprehension(st, node, "list")

    def e_GeneratorExp(self, st, node):
        return self.lib.comprehension(st, node, "gen")

    def e_SetComp(self, st, node):
        return self.lib.comprehension(st, node, "set")

    def e_DictComp(self, st, node):
        return self.lib.comprehension(st, node, "dict")

    def e_NamedExpr(self, st, node):
        v = self.eval(st, node.value)
        st.locals[node.target.id] = v
        return v

    # ---- calls -------------------------------------------------------------
    def e_Call(self, st, node):
        return self.lib.call(st, node)

    def eval_args(self, st, node):
        args = []
        for a in node.args:
            if isinstance(a, ast.Starred):
                v = self.eval(st, a.value)
                if isinstance(v, VTuple):
                    # f(*t) for a tuple with known components (in particular
                    # the function's own *args, which the contracts under
                    # verification fix to be empty)
                    args.extend(v.items)
                    continue
                raise Unsupported("*args at call site")
            args.append(self.eval(st, a))
        kwargs = {}
        for k in node.keywords:
            if k.arg is None:
                v = self.eval(st, k.value)
                if isinstance(v, VDict) and v.val is None and \
                        z3.is_const_array(v.dom):
                    continue        # f(**{}) : the function's own empty **kwargs
                # f(**d): only meaningful for opaque library calls
                kwargs["**"] = v
                continue
            kwargs[k.arg] = self.eval(st, k.value)
        return args, kwargs

    # ======================================================================
    # places
    # ======================================================================
    def assign(self, st: State, target, v: V):
        if isinstance(target, ast.Name):
            if isinstance(v, (VList, VDict)):
                self._note_alias(st, v)
            st.locals[target.id] = v
            return
        if isinstance(target, (ast.Tuple, ast.List)):
            if isinstance(v, VTuple):
                if len(v.items) != len(target.elts):
                    raise RaiseEx("ValueError", target.lineno, "unpack")
                for t, x in zip(target.elts, v.items):
                    self.assign(st, t, x)
                return
            raise Unsupported("unpacking a non-tuple")
        if isinstance(target, ast.Attribute):
            obj = self.eval(st, target.value)
            if isinstance(obj, VRef):
                self.require(st, obj.t != 0, "AttributeError", target.lineno)
                if self.lib.setattr(st, obj, target.attr, v, target.lineno):
                    return
                self.store_field(st, obj, target.attr, v)
                return
            if isinstance(obj, VU):
                # attribute of an opaque library object (e.g. a flatbuffers
                # builder): part of its opaque state
                return
            raise Unsupported(f"attribute store on {obj!r}")
        if isinstance(target, ast.Subscript):
            if isinstance(target.slice, ast.Slice):
                if self.lib.slice_assign(st, target, v):
                    return
                raise Unsupported("slice assignment")
            cont = self.eval(st, target.value)
            idx = self.eval(st, target.slice)
            new = self.setitem(st, cont, idx, v, target.lineno)
            if new is not None:
                self.write_back(st, target.value, new)
            return
        raise Unsupported(f"assignment target {type(target).__name__}")

    def _note_alias(self, st, v):
        # a container value bound to a second place is considered shared
        holders = st.ghost.setdefault("__holders", {})
        holders[v.lid] = holders.get(v.lid, 0) + 1

    def check_unshared(self, st, v, line):
        if isinstance(v.lid, tuple):
            return
        holders = st.ghost.get("__holders", {})
        if holders.get(v.lid, 0) > 1:
            # tolerated only when all other holders have been rebound
            live = sum(1 for x in st.locals.values()
                       if isinstance(x, (VList, VDict)) and x.lid == v.lid)
            if live > 1:
                raise Unsupported(f"mutation of an aliased container "
                                  f"at line {line}")

    def setitem(self, st, cont, idx, v, line):
        if isinstance(cont, VList):
            self.check_unshared(st, cont, line)
            j = self.norm_index(st, cont, idx, line)
            t = self.coerce(st, v, cont.eshape)
            ms = cont.ms
            if ms is not None:
                old = cont.arr[j]
                ms = z3.Store(ms, old, ms[old] - 1)
                ms = z3.Store(ms, t, ms[t] + 1)
            return VList(z3.Store(cont.arr, j, t), cont.n, cont.eshape, ms,
                         lid=cont.lid)
        if isinstance(cont, VDict):
            self.check_unshared(st, cont, line)
            k = self.coerce(st, idx, "U")
            if getattr(idx, "maybe_unhashable", False):
                self.require(st, HASHABLE(k), "TypeError", line,
                             "unhashable dict key")
            if isinstance(v, VList):
                if cont.val is None or not cont.vshape.startswith("list:"):
                    raise Unsupported("list stored into an untyped dict: give "
                                      "it a shape via locals_")
                new = VDict(z3.Store(cont.dom, k, z3.BoolVal(True)),
                            z3.Store(cont.val, k, v.arr), cont.vshape,
                            lid=cont.lid)
                new.vlen = z3.Store(cont.vlen, k, v.n)
                if getattr(cont, "default_list", False):
                    new.default_list = True
                return new
            if cont.val is None:
                vs = self.shape_of_value(v)
                val = st.fresh("dval", z3.ArraySort(U, sort_of_shape(vs)))
                cont = VDict(cont.dom, val, vs, lid=cont.lid)
            t = self.coerce(st, v, cont.vshape)
            return VDict(z3.Store(cont.dom, k, z3.BoolVal(True)),
                         z3.Store(cont.val, k, t), cont.vshape, lid=cont.lid)
        if self.lib.setitem(st, cont, idx, v, line):
            return None
        raise Unsupported(f"item store on {cont!r} at line {line}")

    def write_back(self, st, target_expr, new: V):
        """Store an updated container value back to where it lives."""
        if isinstance(target_expr, ast.Name):
            st.locals[target_expr.id] = new
            return
        if isinstance(target_expr, ast.Attribute):
            obj = self.eval(st, target_expr.value)
            if isinstance(obj, VRef):
                self.store_field(st, obj, target_expr.attr, new)
                return
        if isinstance(target_expr, ast.Subscript):
            cont = self.eval(st, target_expr.value)
            idx = self.eval(st, target_expr.slice)
            newc = self.setitem(st, cont, idx, new, target_expr.lineno)
            if newc is not None:
                self.write_back(st, target_expr.value, newc)
            return
        raise Unsupported("write-back target")

    # ======================================================================
    # statements
    # ======================================================================
    def exec_block(self, st: State, body):
        for s in body:
            self.exec(st, s)

    def exec(self, st: State, node):
        m = getattr(self, "s_" + type(node).__name__, None)
        if m is None:
            raise Unsupported(f"statement {type(node).__name__} at line "
                              f"{node.lineno}")
        st.cur_line = node.lineno
        return m(st, node)

    def s_Pass(self, st, node):
        pass

    def s_Expr(self, st, node):
        if isinstance(node.value, ast.Constant):
            return
        if isinstance(node.value, (ast.Yield, ast.YieldFrom)):
            self.do_yield(st, node.value)
            return
        if isinstance(node.value, ast.Await) and isinstance(
                node.value.value, (ast.Yield, ast.YieldFrom)):
            self.do_yield(st, node.value.value)
            return
        self.eval(st, node.value)

    def s_Assign(self, st, node):
        if isinstance(node.value, (ast.Yield, ast.YieldFrom)):
            raise Unsupported("value of yield expression")
        v = self.eval(st, node.value)
        for t in node.targets:
            if isinstance(t, ast.Name) and isinstance(v, (VList, VDict)):
                v = self.lib.annotate(st, v, t)
            self.assign(st, t, v)

    def s_AnnAssign(self, st, node):
        if node.value is None:
            return
        v = self.eval(st, node.value)
        v = self.lib.annotate(st, v, node.target)
        self.assign(st, node.target, v)

    def s_AugAssign(self, st, node):
        load = ast.copy_location(self._as_load(node.target), node.target)
        cur = self.eval(st, load)
        rhs = self.eval(st, node.value)
        v = self.binop(st, node.op, cur, rhs, node.lineno)
        self.assign(st, node.target, v)

    def _as_load(self, t):
        if isinstance(t, ast.Name):
            return ast.Name(id=t.id, ctx=ast.Load(), lineno=t.lineno,
                            col_offset=0)
        if isinstance(t, ast.Attribute):
            return ast.Attribute(value=t.value, attr=t.attr, ctx=ast.Load(),
                                 lineno=t.lineno, col_offset=0)
        if isinstance(t, ast.Subscript):
            return ast.Subscript(value=t.value, slice=t.slice, ctx=ast.Load(),
                                 lineno=t.lineno, col_offset=0)
        raise Unsupported("augmented assignment target")

    def s_Delete(self, st, node):
        for t in node.targets:
            if isinstance(t, ast.Name):
                if t.id in st.locals:
                    st.locals[t.id] = None
                continue
            if isinstance(t, ast.Subscript):
                cont = self.eval(st, t.value)
                idx = self.eval(st, t.slice)
                if isinstance(cont, VList):
                    self.check_unshared(st, cont, t.lineno)
                    j = self.norm_index(st, cont, idx, t.lineno)
                    # only deletion of the last element is supported
                    self.oblige_engine(st, j == cont.n - 1, t.lineno,
                                       "del of non-last list element")
                    ms = cont.ms
                    if ms is not None:
                        old = cont.arr[j]
                        ms = z3.Store(ms, old, ms[old] - 1)
                    new = VList(cont.arr, cont.n - 1, cont.eshape, ms,
                                lid=cont.lid)
                    self.write_back(st, t.value, new)
                    continue
            raise Unsupported("del target")

    def oblige_engine(self, st, cond, line, what):
        """A side condition of the encoding itself (not a Python semantics
        fact): if it cannot be shown the construct is outside the subset."""
        s = z3.Solver()
        s.set("timeout", 2000)
        for h in st.pc:
            s.add(h)
        s.add(z3.Not(cond))
        if s.check() != z3.unsat:
            raise Unsupported(f"{what} at line {line}")

    def s_If(self, st, node):
        c = self.truthy(st, self.eval(st, node.test))
        if st.branch(c, f"if@{node.lineno}"):
            self.exec_block(st, node.body)
        else:
            self.exec_block(st, node.orelse)

    def s_Assert(self, st, node):
        c = self.truthy(st, self.eval(st, node.test))
        self.require(st, c, "AssertionError", node.lineno)

    def s_Return(self, st, node):
        v = self.eval(st, node.value) if node.value is not None else VNone()
        raise ReturnEx(v)

    def s_Break(self, st, node):
        raise BreakEx()

    def s_Continue(self, st, node):
        raise ContinueEx()

    def s_Raise(self, st, node):
        if node.exc is None:
            cur = st.ghost.get("__handling")
            if cur is None:
                raise Unsupported("bare raise outside handler")
            raise RaiseEx(cur.cls, node.lineno, "re-raise")
        cls = self.exc_class_of(st, node.exc)
        raise RaiseEx(cls, node.lineno)

    def exc_class_of(self, st, e):
        if isinstance(e, ast.Call):
            # evaluate arguments for their own exceptions
            for a in e.args:
                try:
                    self.eval(st, a)
                except Unsupported:
                    pass
            return self.exc_class_of(st, e.func)
        if isinstance(e, ast.Name):
            if e.id in st.locals and isinstance(st.locals[e.id], VExc):
                return st.locals[e.id].cls
            return e.id
        if isinstance(e, ast.Attribute):
            if isinstance(e.value, ast.Name) and e.value.id in st.locals:
                v = self.eval(st, e)
                if isinstance(v, VExc):
                    return v.cls
                # an exception object carried as an opaque value: a failure
                # of caller-supplied code
                return "Foreign"
            return e.attr
        raise Unsupported("raise of a computed exception")

    def s_Try(self, st, node):
        def run_finally():
            if node.finalbody:
                self.exec_block(st, node.finalbody)
        try:
            try:
                self.exec_block(st, node.body)
            except RaiseEx as ex:
                handled = False
                for h in node.handlers:
                    if self.handler_matches(h, ex.cls):
                        handled = True
                        if h.name:
                            st.locals[h.name] = VExc(ex.cls)
                        prev = st.ghost.get("__handling")
                        st.ghost["__handling"] = ex
                        try:
                            self.exec_block(st, h.body)
                        finally:
                            st.ghost["__handling"] = prev
                        break
                if not handled:
                    raise
            else:
                self.exec_block(st, node.orelse)
        except (RaiseEx, ReturnEx, BreakEx, ContinueEx, AbandonEx):
            run_finally()
            raise
        run_finally()

    def handler_matches(self, h, cls):
        if h.type is None:
            return True
        names = []
        if isinstance(h.type, ast.Tuple):
            for e in h.type.elts:
                names.append(self._exc_name(e))
        else:
            names.append(self._exc_name(h.type))
        return any(exc_isinstance(cls, n) for n in names)

    def _exc_name(self, e):
        if isinstance(e, ast.Name):
            return e.id
        if isinstance(e, ast.Attribute):
            if isinstance(e.value, ast.Name):
                full = f"{e.value.id}.{e.attr}"
                if full in EXC_BASE:
                    return full
            return e.attr
        raise Unsupported("exception class expression")

    def s_With(self, st, node):
        return self.lib.with_stmt(st, node)

    s_AsyncWith = s_With

    def s_Match(self, st, node):
        subj = self.eval(st, node.subject)
        for case in node.cases:
            if case.guard is not None:
                raise Unsupported("match guard")
            c = self.match_pattern(st, subj, case.pattern)
            if st.branch(c, f"case@{case.pattern.lineno}"):
                self.exec_block(st, case.body)
                return

    def match_pattern(self, st, subj, pat):
        if isinstance(pat, ast.MatchValue):
            return self.equal(st, subj, self.eval(st, pat.value))
        if isinstance(pat, ast.MatchOr):
            return z3.Or([self.match_pattern(st, subj, p)
                          for p in pat.patterns])
        if isinstance(pat, ast.MatchAs) and pat.pattern is None:
            if pat.name is not None:
                st.locals[pat.name] = subj
            return z3.BoolVal(True)
        if isinstance(pat, ast.MatchSingleton):
            if pat.value is None:
                return self.is_none(st, subj)
        raise Unsupported(f"match pattern {type(pat).__name__}")

    def s_FunctionDef(self, st, node):
        st.locals[node.name] = VFunc(name=node.name, bound=node)

    def s_Global(self, st, node):
        raise Unsupported("global")

    def s_Import(self, st, node):
        pass

    s_ImportFrom = s_Import

    # ---- generators --------------------------------------------------------
    def do_yield(self, st, node):
        fc = self.cur
        if not fc.generator:
            raise Unsupported("yield in a function not declared generator")
        if isinstance(node, ast.YieldFrom):
            src = self.eval(st, node.value)
            self.lib.yield_from(st, src, node.lineno)
            return
        v = self.eval(st, node.value) if node.value is not None else VNone()
        self.yield_value(st, v, node.lineno)

    def yield_value(self, st, v, line):
        fc = self.cur
        st.ghost["yielding"] = v
        for k, cl in enumerate(fc.at_yield):
            self.oblige(st, "at-yield", line, self.spec_bool(st, cl),
                        cl.props, label=str(k))
        self.lib.record_yield(st, v, line)
        st.nyield += 1
        if fc.on_abandon and not st.ghost.get("__no_abandon"):
            # the consumer may stop here (generator closed): GeneratorExit
            if st.choose(2, f"abandon@{line}") == 1:
                raise AbandonEx(line)

    # ---- loops -------------------------------------------------------------
    def loop_contract(self, node):
        fc = self.cur
        ordinal = self.loop_ordinals.get(id(node))
        lc = fc.loops.get(ordinal)
        if lc is None:
            raise Unsupported(f"loop #{ordinal} at line {node.lineno} of "
                              f"{fc.key} has no invariant")
        return ordinal, lc

    def assigned_names(self, body):
        names = set()
        fields = set()
        calls = []
        yields = [False]

        class Vis(ast.NodeVisitor):
            def visit_Name(s, n):
                if isinstance(n.ctx, (ast.Store, ast.Del)):
                    names.add(n.id)

            def visit_Attribute(s, n):
                if isinstance(n.ctx, ast.Store):
                    fields.add(n.attr)
                s.generic_visit(n)

            def visit_Call(s, n):
                calls.append(n)
                s.generic_visit(n)

            def visit_Yield(s, n):
                yields[0] = True
                s.generic_visit(n)

            def visit_YieldFrom(s, n):
                yields[0] = True
                s.generic_visit(n)

            def visit_ExceptHandler(s, n):
                if n.name:
                    names.add(n.name)
                s.generic_visit(n)

            def visit_FunctionDef(s, n):
                names.add(n.name)

            def visit_Lambda(s, n):
                pass

        for b in body:
            Vis().visit(b)
        return names, fields, calls, yields[0]

    def loop_havoc_set(self, st: State, node, lc, extra_names=()):
        names, fields, calls, has_yield = self.assigned_names(
            node.body + ([node.test] if isinstance(node, ast.While) else []))
        names |= set(extra_names)
        names |= set(lc.havoc)
        mut_names, heap_keys, ghosts = self.lib.loop_effects(st, node, calls,
                                                             fields)
        names |= mut_names
        names -= set(lc.keep)
        for key in sorted(heap_keys):
            if not any(k == key or k.startswith(key + "#") for k in st.heap):
                shape = self._shape_of_key(key)
                if shape is None:
                    raise Unsupported(f"havoc of unknown field {key}")
                self._materialise(st, key, shape)
        return names, heap_keys, ghosts, has_yield

    def havoc_for_loop(self, st: State, node, lc, hs):
        names, heap_keys, ghosts, has_yield = hs
        for n in sorted(names):
            if n in st.locals and st.locals[n] is not None:
                st.locals[n] = self.havoc_value(st, st.locals[n], n)
        self.havoc_heap(st, sorted(heap_keys))
        # iterators may have advanced (only if the loop pulls from one)
        for it in (st.iters.values() if ("inner" in ghosts or
                                          getattr(node, "_iter_src", False))
                   else ()):
            old = it.pos
            it.pos = st.fresh(f"pos{it.iid}", IntS)
            st.assume(it.pos >= old)
            st.assume(z3.Or(it.inf, it.pos <= it.n))
            olddone = it.done
            it.done = st.fresh(f"done{it.iid}", BoolS)
            st.assume(z3.Implies(olddone, it.done))
            st.assume(z3.Implies(it.done, z3.And(z3.Not(it.inf),
                                                 it.pos == it.n)))
        self.lib.havoc_ghosts(st, ghosts, has_yield)

    def havoc_value(self, st, v: V, name: str) -> V:
        if isinstance(v, VInt):
            return VInt(st.fresh(name, IntS))
        if isinstance(v, VBool):
            return VBool(st.fresh(name, BoolS))
        if isinstance(v, VU):
            return VU(st.fresh(name, U))
        if isinstance(v, VRef):
            t = st.fresh(name, IntS)
            st.assume(z3.And(t >= 0, t < st.next_ref))
            return VRef(t, v.cls)
        if isinstance(v, VList):
            new = self.fresh_list(st, v.eshape, name)
            new.lid = v.lid
            return new
        if isinstance(v, VDict):
            if v.val is None:
                raise Unsupported(f"havoc of untyped dict {name}: give it a "
                                  f"shape via locals_")
            new = self.fresh_dict(st, v.vshape, name)
            new.lid = v.lid
            for at in ("default_list", "is_set"):
                if getattr(v, at, False):
                    setattr(new, at, True)
            return new
        if isinstance(v, VOpt):
            return VOpt(st.fresh(name + "_isnone", BoolS),
                        self.havoc_value(st, v.val, name))
        if isinstance(v, VTuple):
            return VTuple([self.havoc_value(st, x, f"{name}_{i}")
                           for i, x in enumerate(v.items)])
        if isinstance(v, VNone):
            return v
        if isinstance(v, (VIter, VFunc, VExc, VStream, VModule)):
            return v
        raise Unsupported(f"havoc of {v!r}")

    def s_While(self, st, node):
        ordinal, lc = self.loop_contract(node)
        self.cut_loop(st, node, ordinal, lc,
                      test=lambda: self.truthy(st, self.eval(st, node.test)),
                      step=None)

    def cut_loop(self, st, node, ordinal, lc, test, step, pre_body=None,
                 extra_names=(), post_havoc=None):
        """Generic invariant cut.  `test()` evaluates the loop condition (may
        fork / raise); `pre_body()` binds the loop variable for `for` loops;
        `step()` runs after the body."""
        line = node.lineno
        hs = self.loop_havoc_set(st, node, lc, extra_names)
        for gname, gexpr in getattr(lc, "ghost_set", {}).items():
            st.ghost[gname] = self.spec_eval(st, gexpr)
        st.ghost["__loop_entry"] = st.snapshot()
        for k, cl in enumerate(lc.inv):
            self.oblige(st, f"inv-entry(loop{ordinal})", line,
                        self.spec_bool(st, cl), cl.props, label=str(k),
                        extra_hyps=self.reveal_hyps(st, cl))
        entry_snap = st.ghost["__loop_entry"]
        self.havoc_for_loop(st, node, lc, hs)
        st.ghost["__loop_entry"] = entry_snap
        if post_havoc:
            post_havoc()
        st.ghost["__axinst_off"] = True
        try:
            for cl in lc.inv:
                self.assume_clause(st, cl, self.spec_bool(st, cl))
        finally:
            st.ghost["__axinst_off"] = False
        for lm in getattr(lc, "lemmas", ()):
            st.assume(self.spec_bool(st, lm))
        st.ghost["__iter_start"] = None
        st.ghost["__iter_start"] = st.snapshot()
        v0 = None
        if lc.variant:
            v0 = _as_int(self.spec_eval(st, lc.variant))
        try:
            c = test()
        except BreakEx:
            c = None
        if c is not None and st.branch(c, f"loop{ordinal}@{line}"):
            try:
                try:
                    if pre_body:
                        pre_body()
                    self.exec_block(st, node.body)
                except ContinueEx:
                    pass
                if step:
                    step()
            except BreakEx:
                return  # leaves the loop, no else clause
            for k, lm in enumerate(getattr(lc, "end_lemmas", ())):
                cl_ = lm if isinstance(lm, Clause) else Clause(
                    lm[1] if isinstance(lm, tuple) else lm)
                t_ = self.spec_bool(st, cl_)
                self.oblige(st, f"body-lemma(loop{ordinal})", line, t_, None,
                            label=str(k),
                            extra_hyps=self.reveal_hyps(st, cl_))
                st.ghost["__axinst_off"] = True
                try:
                    st.assume(self.spec_bool(st, cl_))
                finally:
                    st.ghost["__axinst_off"] = False
            for k, cl in enumerate(lc.inv):
                hy = self.reveal_hyps(st, cl)
                if getattr(cl, "hide", None):
                    # its own assumption at the start of the iteration
                    own = Clause("True")
                    own.reveal = (cl.hide,)
                    hy = hy + self.reveal_hyps(st, own)
                self.oblige(st, f"inv-preserved(loop{ordinal})", line,
                            self.spec_bool(st, cl), cl.props, label=str(k),
                            extra_hyps=hy)
            if v0 is not None:
                v1 = _as_int(self.spec_eval(st, lc.variant))
                self.oblige(st, f"variant(loop{ordinal})", line,
                            z3.And(v0 >= 0, v1 < v0), None)
            raise PathEnd()
        # loop exit
        if getattr(node, "orelse", None) and c is not None:
            self.exec_block(st, node.orelse)

    def s_For(self, st, node):
        return self.lib.for_stmt(st, node)

    s_AsyncFor = s_For

    # ======================================================================
    # spec expressions
    # ======================================================================
    _spec_cache: dict = {}

    def spec_parse(self, text):
        if text not in self._spec_cache:
            self._spec_cache[text] = ast.parse(text.strip(), mode="eval").body
        return self._spec_cache[text]

    def spec_eval(self, st: State, text) -> V:
        if not isinstance(text, str):
            text = text.text
        node = self.spec_parse(text)
        st.spec += 1
        try:
            return self.eval(st, node)
        finally:
            st.spec -= 1

    def spec_bool(self, st: State, clause):
        try:
            v = self.spec_eval(st, clause)
        except RaiseEx as ex:
            raise Unsupported(f"spec clause raises {ex.cls}: {clause}")
        return self.truthy(st, v)

    # ======================================================================
    # driver: verify one function against its contract
    # ======================================================================
    def verify(self, fc, max_paths=4000):
        node, h, path = S.get_function(self.repo, fc.module, fc.qualname)
        node = copy.deepcopy(node)
        # locals as they are spelt in the repository now (recorded in the
        # baseline), then renamed back to the spelling the contract uses where
        # a maintainer renamed them (alpha-renaming, see source.py)
        fc.locals_now = [list(x) for x in S.local_bindings(node)]
        try:
            fc.renamed = S.restore_local_names(
                node, recorded_locals().get(fc.key),
                contract_identifiers(fc))
        except S.SourceError as e:
            raise Unsupported(str(e))
        S.desugar_effectful_dictcomps(
            node, lambda nm: self.reg.find_function(nm) is not None)
        tree, _, _ = S.load_module(self.repo, fc.module)
        self.imports = S.module_imports(tree)
        self.cur = fc
        self.cur_node = node
        self.feas_cache = {}
        self.site_ok = set()
        self.site_bad = {}
        fc.source_hash = h
        fc.source_path = path
        fc.lineno = node.lineno
        # number loops in source order
        self.loop_ordinals = {}
        k = 0
        for n in ast.walk(node):
            pass
        for n in self._loops_in_order(node):
            k += 1
            self.loop_ordinals[id(n)] = k
        work = [[]]
        npaths = 0
        exits = {"normal": 0, "raise": {}, "abandon": 0, "cut": 0}
        while work:
            script = work.pop()
            st = State(self, script)
            npaths += 1
            if npaths > max_paths:
                raise Unsupported(f"more than {max_paths} paths in {fc.key}")
            try:
                self.run_path(st, fc, node, exits)
            except PathEnd:
                exits["cut"] += 1
            work.extend(st.alternatives)
        for site, (q, ln) in self.site_bad.items():
            if site not in self.site_ok:
                self.inconsistent.append(
                    f"call of {q} at line {ln} of {fc.qualname}: no outcome "
                    f"of the callee's contract is feasible in the caller's "
                    f"state")
        self.paths += npaths
        fc.exits = exits
        fc.npaths = npaths
        return exits

    def _loops_in_order(self, fnode):
        out = []

        def rec(n):
            for c in ast.iter_child_nodes(n):
                if isinstance(c, (ast.FunctionDef, ast.AsyncFunctionDef,
                                  ast.Lambda, ast.ClassDef)):
                    continue
                if isinstance(c, (ast.While, ast.For, ast.AsyncFor)):
                    out.append(c)
                rec(c)
        rec(fnode)
        return out

    def bind_params(self, st: State, fc, node):
        a = node.args
        allargs = a.posonlyargs + a.args + a.kwonlyargs
        for p in allargs:
            shape = fc.params.get(p.arg)
            if shape is None:
                if p.arg == "self" and fc.cls:
                    shape = "ref:" + fc.cls
                elif p.arg == "cls":
                    st.locals[p.arg] = VModule("cls")
                    continue
                else:
                    raise Unsupported(f"parameter {p.arg} of {fc.key} has no "
                                      f"declared shape")
            st.locals[p.arg] = self.fresh_value(st, shape, p.arg)
        if a.vararg:
            st.locals[a.vararg.arg] = VTuple([])
        if a.kwarg:
            st.locals[a.kwarg.arg] = VDict(z3.K(U, z3.BoolVal(False)), None,
                                           None)

    def run_path(self, st: State, fc, node, exits):
        st.next_ref = z3.Const("ref0", IntS)
        st.assume(st.next_ref >= 1)
        self.bind_params(st, fc, node)
        self.lib.init_ghosts(st, fc)
        for cl in fc.requires:
            self.assume_clause(st, cl, self.spec_bool(st, cl))
        for cl in fc.defs:
            st.assume(self.spec_bool(st, cl))
        st.old = st.snapshot()
        st.old["pc_len"] = len(st.pc)
        body = S.strip_docstring(node.body)
        line = node.lineno
        try:
            self.exec_block(st, body)
            result = VNone()
            kind = "normal"
        except ReturnEx as r:
            result = r.val
            kind = "normal"
        except RaiseEx as ex:
            kind = "raise"
            result = ex
        except AbandonEx as ex:
            kind = "abandon"
            result = ex
        except (BreakEx, ContinueEx):
            raise Unsupported("break/continue outside loop")
        if getattr(self, "canaries", False) and (
                kind != "raise" or any(
                    exc_isinstance(result.cls, c) for c in fc.raises)):
            # vacuity guard: `False` at a permitted exit must NOT be provable
            self.oblige(st, "canary", line, z3.BoolVal(False), [])
        # in postconditions parameter names denote the values passed in
        # (rebinding a parameter inside the body is invisible to the caller)
        post_locals = dict(st.locals)
        for k_, v_ in st.old["locals"].items():
            if v_ is not None:
                post_locals[k_] = v_
        st.locals = post_locals
        if kind == "normal":
            exits["normal"] += 1
            st.ghost["result"] = result
            st.locals["result"] = result
            gdefs = [cl for cl in fc.ensures if getattr(cl, "ghostdef", False)]
            if gdefs:
                # the function's own definition of the ghost label update
                self.lib.ext.havoc_ghosts(st, ["cert"], False)
                # each definition is kept behind a propositional name GD<i>
                # (true); a proof step that needs it says `reveal GD<i>:`
                for gi, cl in enumerate(gdefs):
                    cl2 = Clause(cl.text, cl.props)
                    cl2.hide = f"GD{gi}"
                    self.assume_clause(st, cl2, self.spec_bool(st, cl))
            for k, cl in enumerate(fc.exit_lemmas):
                t = self.spec_bool(st, cl)
                self.oblige(st, "exit-lemma", line, t, cl.props or None,
                            label=str(k),
                            extra_hyps=self.reveal_hyps(st, cl))
                st.ghost["__axinst_off"] = True
                try:
                    st.assume(self.spec_bool(st, cl))
                finally:
                    st.ghost["__axinst_off"] = False
            for k, cl in enumerate(fc.ensures):
                if getattr(cl, "ghostdef", False):
                    continue
                if getattr(cl, "assumed", False):
                    self.used_assumptions.add(
                        f"assumed clause of {fc.qualname}: {cl.text[:120]}")
                    continue
                self.oblige(st, "post", line, self.spec_bool(st, cl),
                            cl.props, label=str(k),
                            extra_hyps=self.reveal_hyps(st, cl))
            self.frame_obligations(st, fc, line)
        elif kind == "abandon":
            exits["abandon"] += 1
            for k, cl in enumerate(fc.on_abandon):
                self.oblige(st, "post-abandon", result.line,
                            self.spec_bool(st, cl), cl.props, label=str(k))
        else:
            ex = result
            exits["raise"][ex.cls] = exits["raise"].get(ex.cls, 0) + 1
            allowed = None
            for c in fc.raises:
                if exc_isinstance(ex.cls, c):
                    allowed = c
                    break
            if allowed is None:
                self.oblige(st, f"no-exc({ex.cls})", ex.line,
                            z3.BoolVal(False), None)
            else:
                st.ghost["exc_line"] = VInt(ex.line)
                for k, cl in enumerate(fc.raises[allowed]):
                    self.oblige(st, f"post-exc({allowed})", ex.line,
                                self.spec_bool(st, cl), cl.props,
                                label=str(k))
                self.frame_obligations(st, fc, ex.line, exceptional=True)

    def frame_obligations(self, st: State, fc, line, exceptional=False):
        """Every heap component not named in `modifies` is unchanged; for
        `Cls.f@e1|e2` only the components at references e1, e2 (evaluated in
        the entry state) may change.  Objects allocated by the call itself
        are not part of the frame."""
        if fc.fs_effects is not None and "DSTATE" in st.ghost:
            # the file-system effect of the call is exactly `fs_effects`
            cur = (st.locals, st.heap, st.ghost)
            st.locals = dict(st.old["locals"])
            st.heap = dict(st.old["heap"])
            og = dict(st.old["ghost"])
            st.ghost = og
            try:
                ds, disk, unknown = self.lib.fs_effect_terms(
                    st, fc, og["DSTATE"], og["DISK"])
            finally:
                st.locals, st.heap, st.ghost = cur
            pq = z3.Const("p!fe", U)
            self.oblige(st, "fs-effects(state)", line, z3.ForAll(
                [pq], st.ghost["DSTATE"][pq] == ds[pq]), None)
            self.oblige(st, "fs-effects(content)", line, z3.ForAll(
                [pq], z3.Implies(z3.And([ds[pq] == 2] +
                                        [pq != u for u in unknown]),
                                 st.ghost["DISK"][pq] == disk[pq])), None)
        if fc.modifies == ["*"]:
            return
        # ghost groups not named in `modifies` are unchanged
        for grp, names in (("fs", ("DSTATE", "DISK")), ("cert", ("CERT",))):
            if "ghost:" + grp in fc.modifies:
                continue
            for nm in names:
                if nm not in st.ghost or nm not in st.old["ghost"]:
                    continue
                a0, a1 = st.old["ghost"][nm], st.ghost[nm]
                if a0 is a1 or z3.eq(a0, a1):
                    continue
                self.oblige(st, f"frame-ghost({grp})", line, a1 == a0, None)
        mods = {}
        for m in fc.modifies:
            if m.startswith("ghost:"):
                continue
            if "@" in m:
                k, e = m.split("@", 1)
                if mods.get(k, []) is not None:
                    mods.setdefault(k, []).extend(e.split("|"))
            else:
                mods[m] = None
        old = st.old["heap"]
        for key, arr in list(st.heap.items()):
            base = key.split("#")[0]
            if base in mods and mods[base] is None:
                continue
            if key in old:
                if arr is old[key] or z3.eq(arr, old[key]):
                    continue
                o = old[key]
            else:
                o = z3.Const(f"H0_{key}", arr.sort())
                if z3.eq(arr, o):
                    continue
            r = z3.Const("r!fr", IntS)
            guard = [r >= 0, r < st.old["next_ref"]]
            if base in mods:
                cur = (st.locals, st.heap, st.ghost)
                st.locals = dict(st.old["locals"])
                st.heap = dict(old)
                st.spec += 1
                try:
                    for e in mods[base]:
                        v = self.eval(st, self.spec_parse(e))
                        guard.append(r != v.t)
                finally:
                    st.spec -= 1
                    st.locals, st.heap, st.ghost = cur
            self.oblige(st, f"frame({key})", line,
                        z3.ForAll([r], z3.Implies(z3.And(guard),
                                                  arr[r] == o[r])), None)
