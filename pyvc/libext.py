"""Domain models beyond the core builtins: stdlib pieces used by sedpack
(random, queue, threading, itertools, uuid, pathlib, hashing, files), record
classes (dataclass / pydantic constructors read from the real class bodies) and
the stream algebra.  All of it is assumed specification (A-STD, A-PYD, A-IO,
A-HASH, A-FS) unless a contract says otherwise."""
from __future__ import annotations
import ast
import z3
from .values import (U, IntS, BoolS, MS, TRUTHY, NONE_U, V, VInt, VBool, VNone,
                     VU, VRef, VOpt, VTuple, VList, VDict, VIter, VFunc,
                     VStream, VModule, VExc, sort_of_shape, wrap)


class Ext:
    def __init__(self, lib):
        self.lib = lib
        self.eng = lib.eng
        self.E = lib.E
        self._axioms = []
        from . import models
        self.models = [m(self) for m in models.ALL + models._late()]

    def axioms(self):
        out = list(self._axioms)
        for m in self.models:
            out.extend(m.axioms())
        return out

    def _first(self, hook, *a, default=None):
        for m in self.models:
            h = getattr(m, hook, None)
            if h is None:
                continue
            r = h(*a)
            if r is not None and r is not NotImplemented:
                return r
        return default

    # ---- hooks with defaults -----------------------------------------------
    def init_ghosts(self, st, fc):
        for m in self.models:
            h = getattr(m, "init_ghosts", None)
            if h:
                h(st, fc)

    def havoc_ghosts(self, st, ghosts, has_yield):
        for m in self.models:
            h = getattr(m, "havoc_ghosts", None)
            if h:
                h(st, ghosts, has_yield)

    def loop_ghosts(self, st, node, calls):
        out = set()
        for m in self.models:
            h = getattr(m, "loop_ghosts", None)
            if h:
                out |= set(h(st, node, calls) or ())
        return out

    def call_effects(self, st, fc, env, pre):
        for m in self.models:
            h = getattr(m, "call_effects", None)
            if h:
                h(st, fc, env, pre)

    def record_yield(self, st, v, line):
        for m in self.models:
            h = getattr(m, "record_yield", None)
            if h:
                h(st, v, line)

    def note_app(self, st, f, a):
        for m in self.models:
            h = getattr(m, "note_app", None)
            if h:
                h(st, f, a)

    def spec_name(self, st, name):
        return self._first("spec_name", st, name)

    def global_name(self, st, name, imports):
        return self._first("global_name", st, name, imports)

    def dotted_value(self, st, d, node):
        return self._first("dotted_value", st, d, node)

    def binop(self, st, op, a, b, line):
        return self._first("binop", st, op, a, b, line)

    def compare(self, st, op, a, b, line):
        return self._first("compare", st, op, a, b, line)

    def contains(self, st, c, x, line):
        return self._first("contains", st, c, x, line)

    def getattr(self, st, obj, attr, line):
        return self._first("getattr", st, obj, attr, line)

    def property_get(self, st, obj, attr, line):
        return self._first("property_get", st, obj, attr, line)

    def setattr(self, st, obj, attr, v, line):
        return self._first("setattr", st, obj, attr, v, line, default=False)

    def getitem(self, st, obj, idx, line):
        return self._first("getitem", st, obj, idx, line)

    def setitem(self, st, cont, idx, v, line):
        return self._first("setitem", st, cont, idx, v, line, default=False)

    def slice(self, st, obj, lo, hi, line):
        return self._first("slice", st, obj, lo, hi, line)

    def slice_assign(self, st, target, v):
        return self._first("slice_assign", st, target, v, default=False)

    def comprehension(self, st, node, kind):
        r = self._first("comprehension", st, node, kind)
        if r is None:
            raise self.E.Unsupported(f"comprehension at line {node.lineno}")
        return r

    def yield_from(self, st, src, line):
        return self._first("yield_from", st, src, line, default=False)

    def for_source(self, st, node, srcv, K, holder):
        return self._first("for_source", st, node, srcv, K, holder)

    def ctx_enter(self, st, ctx, line):
        r = self._first("ctx_enter", st, ctx, line)
        if r is None:
            raise self.E.Unsupported(f"context manager {ctx!r} at line {line}")
        return r

    def ctx_exit(self, st, ctx, ex, line):
        r = self._first("ctx_exit", st, ctx, ex, line)
        if r is None:
            raise self.E.Unsupported(f"context manager exit {ctx!r}")
        return r == "swallow"

    def call_global(self, st, name, node):
        r = self._first("call_global", st, name, node,
                        default=NotImplemented)
        if r is NotImplemented:
            raise self.E.Unsupported(f"call of {name} at line {node.lineno}")
        return r

    def call_dotted(self, st, d, node):
        return self._first("call_dotted", st, d, node, default=NotImplemented)

    def call_ref_method(self, st, recv, name, node):
        return self._first("call_ref_method", st, recv, name, node,
                           default=NotImplemented)

    def call_other_method(self, st, recv, name, node):
        return self._first("call_other_method", st, recv, name, node,
                           default=NotImplemented)

    def call_lambda(self, st, fv, node):
        r = self._first("call_lambda", st, fv, node)
        if r is None:
            raise self.E.Unsupported("lambda call")
        return r

    def func_term(self, st, v):
        r = self._first("func_term", st, v)
        if r is None:
            raise self.E.Unsupported(f"callable {v!r} passed as a value")
        return r

    def len_of(self, st, v, line):
        return self._first("len_of", st, v, line)

    def iter_of(self, st, v, line):
        return self._first("iter_of", st, v, line)

    def next_of(self, st, v, line):
        return self._first("next_of", st, v, line)

    def iter_sentinel(self, st, node):
        r = self._first("iter_sentinel", st, node)
        if r is None:
            raise self.E.Unsupported("iter(callable, sentinel)")
        return r

    def isinstance_of(self, st, v, clsnode, line):
        return self._first("isinstance_of", st, v, clsnode, line)

    def str_of(self, st, v, line):
        r = self._first("str_of", st, v, line)
        if r is not None:
            return r
        if isinstance(v, VU):
            # str() of an opaque value: an opaque string determined by it
            f = z3.Function("STR", U, U)
            return VU(f(v.t))
        t = st.fresh("str", U)
        return VU(t)

    def all_any(self, st, v, is_all, line):
        return self._first("all_any", st, v, is_all, line)

    def list_of(self, st, v, line):
        return self._first("list_of", st, v, line)

    def tuple_of(self, st, v, line):
        return self._first("tuple_of", st, v, line)

    def reversed_of(self, st, v, line):
        r = self._first("reversed_of", st, v, line)
        if r is None:
            raise self.E.Unsupported("reversed")
        return r

    def seq_of_list(self, st, lst):
        r = self._first("seq_of_list", st, lst)
        if r is None:
            raise self.E.Unsupported("SEQ of list")
        return r
