"""Discharge obligations: z3 (quantified) -> z3 on a ground instantiation ->
cvc5.  Verdict per obligation: 'unsat' (discharged), 'sat' (refuted, with a
model of the ground instantiation), 'unknown'."""
from __future__ import annotations
import multiprocessing as mp
import os
import subprocess
import tempfile
import time
import z3

Z3_TIMEOUT_MS = int(os.environ.get("PYVC_Z3_TIMEOUT_MS", "15000"))
CVC5_TIMEOUT_MS = int(os.environ.get("PYVC_CVC5_TIMEOUT_MS", "12000"))
Z3_SEED = 0     # non-zero: alternative random seed (used by the retry rounds)
CVC5 = "/usr/bin/cvc5"


def to_smt2(axioms, hyps, goal):
    s = z3.Solver()
    for a in axioms:
        s.add(a)
    for h in hyps:
        s.add(h)
    s.add(z3.Not(goal))
    return s.to_smt2()


def _ground_terms(fs):
    """Collect ground (quantifier-free position) subterms by sort."""
    seen = set()
    by_sort = {}

    def walk(e, bound_depth):
        if z3.is_quantifier(e):
            walk(e.body(), bound_depth + e.num_vars())
            return
        if not z3.is_app(e):
            return
        key = e.get_id()
        if key in seen:
            return
        seen.add(key)
        for c in e.children():
            walk(c, bound_depth)
        if _has_var(e):
            return
        s = e.sort()
        if s.kind() in (z3.Z3_INT_SORT, z3.Z3_UNINTERPRETED_SORT):
            by_sort.setdefault(s.name(), {})[e.get_id()] = e

    for f in fs:
        walk(f, 0)
    return {k: list(v.values()) for k, v in by_sort.items()}


_var_cache = {}


def _has_var(e):
    k = e.get_id()
    if k in _var_cache:
        return _var_cache[k]
    if z3.is_var(e):
        r = True
    elif z3.is_quantifier(e):
        r = True  # treat nested quantifier as non-ground for our purpose
    else:
        r = any(_has_var(c) for c in e.children())
    _var_cache[k] = r
    return r


def instantiate(fs, max_inst=4000, extra_int=()):
    """Replace each top-level universally quantified hypothesis by its
    instances over the ground terms of matching sort (one round).  Existential
    / nested quantifiers are left as they are."""
    terms = _ground_terms(fs)
    out = []
    count = 0
    for f in fs:
        if z3.is_quantifier(f) and f.is_forall():
            n = f.num_vars()
            sorts = [f.var_sort(i) for i in range(n)]
            pools = []
            for s in sorts:
                pool = list(terms.get(s.name(), []))
                if s.kind() == z3.Z3_INT_SORT:
                    pool = pool + [z3.IntVal(0)] + list(extra_int)
                pools.append(pool[:40])
            total = 1
            for p in pools:
                total *= max(1, len(p))
            if total == 0 or total > max_inst:
                out.append(f)
                continue
            import itertools
            for combo in itertools.product(*pools):
                # z3 de Bruijn: var 0 is the last bound variable
                inst = z3.substitute_vars(f.body(), *reversed(combo))
                out.append(inst)
                count += 1
        else:
            out.append(f)
    return out, count


Z3_BIN = os.environ.get("PYVC_Z3_BIN") or (
    "/usr/local/bin/z3-new" if os.path.exists("/usr/local/bin/z3-new")
    else "z3-new")


def _run_z3_cli(smt2, timeout_ms, want_model=False):
    """Run the z3 binary on SMT2 text under a hard (process) timeout.
    Returns (status, seconds, model_text)."""
    text = smt2
    if want_model:
        text = text + "\n(get-model)\n"
    with tempfile.NamedTemporaryFile("w", suffix=".smt2", delete=False) as f:
        f.write(text)
        path = f.name
    t0 = time.time()
    try:
        p = subprocess.run([Z3_BIN, f"-T:{max(1, timeout_ms // 1000)}",
                            f"-t:{timeout_ms}", "-smt2", path] +
                           ([f"smt.random_seed={Z3_SEED}",
                             f"sat.random_seed={Z3_SEED}"] if Z3_SEED else []),
                           capture_output=True, text=True,
                           timeout=timeout_ms / 1000 + 10)
        out = p.stdout.strip().splitlines()
        r = out[0].strip() if out else "unknown"
        model = "\n".join(out[1:])[:8000] if want_model else None
        if r not in ("sat", "unsat", "unknown"):
            r = "unknown"
    except subprocess.TimeoutExpired:
        r, model = "unknown", None
    finally:
        try:
            os.unlink(path)
        except OSError:
            pass
    return r, time.time() - t0, model


def _check_z3(smt2, timeout_ms):
    r, dt, _ = _run_z3_cli(smt2, timeout_ms)
    return r, dt, None


def _model_text(s, limit=6000):
    try:
        m = s.model()
    except z3.Z3Exception:
        return None
    out = {}
    for d in m.decls():
        try:
            out[d.name()] = str(m[d])[:300]
        except Exception:  # noqa: BLE001
            pass
    return out


def _check_cvc5(smt2, timeout_ms):
    if not os.path.exists(CVC5):
        return "unknown", 0.0
    text = smt2
    if "(set-logic" not in text:
        text = "(set-logic ALL)\n" + text
    with tempfile.NamedTemporaryFile("w", suffix=".smt2", delete=False,
                                     dir=os.environ.get("PYVC_TMP")) as f:
        f.write(text)
        path = f.name
    t0 = time.time()
    try:
        p = subprocess.run([CVC5, "--lang=smt2", f"--tlimit={timeout_ms}",
                            path], capture_output=True, text=True,
                           timeout=timeout_ms / 1000 + 5)
        out = p.stdout.strip().splitlines()
        r = out[0].strip() if out else "unknown"
        if r not in ("sat", "unsat", "unknown"):
            r = "unknown"
    except subprocess.TimeoutExpired:
        r = "unknown"
    finally:
        os.unlink(path)
    return r, time.time() - t0


def _parse_model(text):
    if not text:
        return None
    out = {}
    import re
    for m in re.finditer(r"\(define-fun\s+(\S+)\s+\(\)\s+\S+\s+([^\n]*)\)",
                         text):
        out[m.group(1)] = m.group(2).strip()[:200]
    out["_raw"] = text[:3000]
    return out


def solve_one(job):
    """job = (index, smt2 text, want_cvc5_too, is_canary)"""
    idx, smt2, both = job[:3]
    canary = len(job) > 3 and job[3]
    res = {"idx": idx, "status": "unknown", "backend": None, "time": 0.0,
           "model": None, "cvc5": None}
    try:
        if canary:
            r, dt, _ = _check_z3(smt2, 1500)
            res["time"] = dt
            res["status"] = "unsat" if r == "unsat" else "not-unsat"
            res["backend"] = "z3"
            return res
        r, dt, _ = _check_z3(smt2, Z3_TIMEOUT_MS)
        res["time"] += dt
        if r == "unsat":
            res["status"] = "unsat"
            res["backend"] = "z3"
            if both:
                rc, dtc = _check_cvc5(smt2, CVC5_TIMEOUT_MS)
                res["cvc5"] = rc
                res["time"] += dtc
            return res
        if r == "sat":
            _, dt2, mt = _run_z3_cli(smt2, Z3_TIMEOUT_MS, want_model=True)
            res["time"] += dt2
            res["status"] = "sat"
            res["backend"] = "z3"
            res["model"] = _parse_model(mt)
            return res
        # unknown: ground instantiation (sat => candidate counter-model)
        s = z3.Solver()
        s.from_string(smt2)
        fs = list(s.assertions())
        inst, n = instantiate(fs)
        s2 = z3.Solver()
        for f in inst:
            if z3.is_quantifier(f):
                continue  # drop what could not be instantiated (weakening)
            s2.add(f)
        smt2_inst = s2.to_smt2()
        r2, dt2, mt = _run_z3_cli(smt2_inst, Z3_TIMEOUT_MS, want_model=True)
        res["time"] += dt2
        if r2 == "unsat":
            res["status"] = "unsat"
            res["backend"] = "z3-inst"
            return res
        model = _parse_model(mt) if r2 == "sat" else None
        rc, dtc = _check_cvc5(smt2, CVC5_TIMEOUT_MS)
        res["time"] += dtc
        res["cvc5"] = rc
        if rc == "unsat":
            res["status"] = "unsat"
            res["backend"] = "cvc5"
            return res
        if r2 == "sat":
            res["status"] = "sat"
            res["backend"] = "z3-inst"
            res["model"] = model
            return res
        res["status"] = "unknown"
        return res
    except Exception as e:  # noqa: BLE001
        res["status"] = "error"
        res["model"] = {"error": repr(e)}
        return res


def discharge(obligations, axioms, both=False, procs=None):
    jobs = []
    for i, ob in enumerate(obligations):
        if z3.is_true(ob.goal):
            ob.status = "unsat"
            ob.backend = "trivial"
            continue
        jobs.append((i, to_smt2(axioms, ob.hyps, ob.goal), both,
                     ob.kind == "canary"))
    if not jobs:
        return
    procs = procs or min(16, os.cpu_count() or 4, max(1, len(jobs)))
    if procs == 1 or len(jobs) == 1:
        results = [solve_one(j) for j in jobs]
    else:
        ctx = mp.get_context("fork")
        with ctx.Pool(procs) as pool:
            results = pool.map(solve_one, jobs, chunksize=1)
    for r in results:
        ob = obligations[r["idx"]]
        ob.status = r["status"]
        ob.backend = r["backend"]
        ob.time = r["time"]
        ob.model = r["model"]
        ob.cvc5 = r.get("cvc5")


def discharge_text(obs, both=False, procs=None):
    """Discharge serialized obligations (run.Ob: .smt2 text)."""
    jobs = []
    for i, ob in enumerate(obs):
        if ob.trivial:
            ob.status = "unsat"
            ob.backend = "trivial"
            continue
        jobs.append((i, ob.smt2, both, ob.kind == "canary"))
    if not jobs:
        return
    procs = procs or min(16, os.cpu_count() or 4, max(1, len(jobs)))
    if procs == 1 or len(jobs) == 1:
        results = [solve_one(j) for j in jobs]
    else:
        ctx = mp.get_context("fork")
        with ctx.Pool(procs) as pool:
            results = pool.map(solve_one, jobs, chunksize=1)
    for r in results:
        ob = obs[r["idx"]]
        ob.status = r["status"]
        ob.backend = r["backend"]
        ob.time = r["time"]
        ob.model = r["model"]
        ob.cvc5 = r.get("cvc5")
