"""Command line driver (development use): verify selected functions."""
from __future__ import annotations
import sys, time, os, traceback
import z3
from .contracts import Registry
from .engine import Engine, Unsupported
from . import solve


def verify_functions(repo, keys=None, contracts_dir=None, both=False, verbose=True):
    contracts_dir = contracts_dir or os.path.join(os.path.dirname(os.path.dirname(__file__)), "contracts")
    reg = Registry().load_dir(contracts_dir)
    eng = Engine(reg, repo)
    undecided = []
    for key, fc in reg.funcs.items():
        if keys and not any(k in key for k in keys):
            continue
        if fc.assumed or not fc.verify:
            continue
        t0 = time.time()
        try:
            eng.verify(fc)
            if verbose:
                print(f"[gen] {key}: paths={fc.npaths} exits={fc.exits} {time.time()-t0:.1f}s")
        except Unsupported as e:
            undecided.append((key, str(e)))
            if verbose:
                print(f"[UNDECIDED] {key}: {e}")
    t0 = time.time()
    solve.discharge(eng.obligations, eng.global_axioms(), both=both)
    if verbose:
        print(f"[solve] {len(eng.obligations)} obligations in {time.time()-t0:.1f}s")
    return eng, undecided


def main():
    repo = os.environ.get("PYVC_REPO", "/repo")
    keys = sys.argv[1:]
    eng, und = verify_functions(repo, keys)
    bad = 0
    for ob in eng.obligations:
        if ob.status != "unsat":
            bad += 1
            print(f"  {ob.status:8s} {ob.name}  props={ob.props} backend={ob.backend} t={ob.time:.2f}")
            if ob.model and os.environ.get("PYVC_MODEL"):
                for k, v in sorted(ob.model.items()):
                    print(f"        {k} = {v}")
    print(f"obligations={len(eng.obligations)} not-discharged={bad} undecided-functions={len(und)}")


if __name__ == "__main__":
    main()
