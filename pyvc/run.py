"""Generation + discharge driver.

Verification conditions are generated per function in worker processes (hard
time limit per function: an engine hang becomes UNDECIDED, never a verdict);
obligations travel as SMT-LIB text and are discharged by z3 / cvc5 processes."""
from __future__ import annotations
import multiprocessing as mp
import os
import sys
import time
import traceback

ROOT = os.path.dirname(os.path.dirname(os.path.abspath(__file__)))
GEN_TIMEOUT_S = int(os.environ.get("PYVC_GEN_TIMEOUT_S", "600"))


class Ob:
    """Serializable obligation."""

    def __init__(self, name, kind, props, func, line, smt2, trivial):
        self.name = name
        self.kind = kind
        self.props = props
        self.func = func
        self.line = line
        self.smt2 = smt2
        self.trivial = trivial
        self.status = None
        self.backend = None
        self.time = 0.0
        self.model = None
        self.cvc5 = None


def _gen_one(args):
    repo, key, contracts_dir = args
    import z3
    from .contracts import Registry
    from .engine import Engine, Unsupported
    from . import solve
    from . import source as S
    t0 = time.time()
    info = {"function": key}
    obs = []
    try:
        reg = Registry().load_dir(contracts_dir)
        eng = Engine(reg, repo)
        eng.canaries = True
        fc = reg.funcs[key]
        eng.verify(fc)
        ax = eng.global_axioms()
        for ob in eng.obligations:
            triv = z3.is_true(ob.goal)
            text = "" if triv else solve.to_smt2(ax, ob.hyps, ob.goal)
            obs.append(Ob(ob.name, ob.kind, ob.props, ob.func, ob.line, text,
                          triv))
        info.update(status="under contract", paths=fc.npaths, exits=fc.exits,
                    source_hash=fc.source_hash,
                    locals_now=getattr(fc, "locals_now", []),
                    renamed_locals=getattr(fc, "renamed", {}),
                    has_ensures=bool(fc.ensures) and not fc.generator,
                    assumptions=sorted(eng.used_assumptions),
                    inconsistent=eng.inconsistent[:10],
                    gen_s=round(time.time() - t0, 2))
    except Unsupported as e:
        info["status"] = f"UNDECIDED: {e}"
        info["undecided"] = str(e)
    except S.SourceError as e:
        info["status"] = f"UNDECIDED: {e}"
        info["undecided"] = str(e)
    except Exception:  # noqa: BLE001
        # an internal error of the generator on this source is an engine
        # limit, never a verdict
        tb = traceback.format_exc()
        info["status"] = "UNDECIDED: engine internal error"
        info["undecided"] = "engine internal error: " + tb.strip().splitlines()[-1][:200]
        info["error"] = tb[-2000:]
    return info, obs


def generate(repo, keys, contracts_dir=None, procs=None):
    """keys: list of contract keys to verify.  Returns (infos, obligations)."""
    contracts_dir = contracts_dir or os.path.join(ROOT, "contracts")
    jobs = [(repo, k, contracts_dir) for k in keys]
    infos, obs = [], []
    if not jobs:
        return infos, obs
    procs = procs or min(16, os.cpu_count() or 4, len(jobs))
    infos, obs = _generate_round(jobs, procs, GEN_TIMEOUT_S // 2)
    # the in-process feasibility checks of the executor can (rarely) hang in
    # z3: a function whose generation timed out gets one more attempt
    again = [j for j, i in zip(jobs, infos) if i.get("undecided") ==
             "generation timed out"]
    if again:
        infos2, obs2 = _generate_round(again, min(procs, len(again)),
                                       GEN_TIMEOUT_S)
        by = {i["function"]: i for i in infos2}
        infos = [by.get(i["function"], i) if i.get("undecided") ==
                 "generation timed out" else i for i in infos]
        obs.extend(obs2)
    return infos, obs


def _generate_round(jobs, procs, timeout_s):
    infos, obs = [], []
    ctx = mp.get_context("fork")
    # one fresh process per function: the z3 term ids (and with them the
    # SMT-LIB text and the solver's heuristics) are then the same on every
    # run, whatever the pool's scheduling was
    pool = ctx.Pool(procs, maxtasksperchild=1)
    try:
        asyncs = [(j, pool.apply_async(_gen_one, (j,))) for j in jobs]
        deadline = time.time() + timeout_s
        for j, a in asyncs:
            try:
                info, o = a.get(timeout=max(1, deadline - time.time()))
            except mp.TimeoutError:
                info, o = ({"function": j[1],
                            "status": "UNDECIDED: generation timed out",
                            "undecided": "generation timed out"}, [])
            infos.append(info)
            obs.extend(o)
    finally:
        pool.terminate()
        pool.join()
    return infos, obs


def select_keys(reg, pid=None, substrings=None):
    keys = []
    for key, fc in reg.funcs.items():
        if fc.assumed or not fc.verify:
            continue
        if pid is not None and pid not in fc.props:
            continue
        if substrings and not any(s in key for s in substrings):
            continue
        keys.append(key)
    return keys


def main():
    from .contracts import Registry
    from . import solve
    repo = os.environ.get("PYVC_REPO", "/repo")
    subs = sys.argv[1:]
    reg = Registry().load_dir(os.path.join(ROOT, "contracts"))
    keys = select_keys(reg, substrings=subs)
    t0 = time.time()
    infos, obs = generate(repo, keys)
    for i in infos:
        if i.get("status") == "under contract":
            print(f"[gen] {i['function']}: paths={i['paths']} exits={i['exits']} "
                  f"{i['gen_s']}s" + (f" INCONSISTENT {i['inconsistent']}"
                                      if i.get("inconsistent") else ""))
        else:
            print(f"[{i['status'][:9]}] {i['function']}: "
                  f"{i.get('undecided') or i.get('error')}")
    t1 = time.time()
    real = [o for o in obs if o.kind != "canary"]
    solve.discharge_text(real)
    print(f"[solve] {len(real)} obligations in {time.time()-t1:.1f}s "
          f"(gen {t1-t0:.1f}s)")
    bad = 0
    for ob in real:
        if ob.status != "unsat":
            bad += 1
            print(f"  {ob.status:8s} {ob.name}  props={ob.props} "
                  f"backend={ob.backend} t={ob.time:.2f}")
            if ob.model and os.environ.get("PYVC_MODEL"):
                for k, v in sorted(ob.model.items()):
                    print(f"        {k} = {v}")
    slow = sorted(real, key=lambda o: -o.time)[:int(os.environ.get("PYVC_SLOW", "5"))]
    for o in slow:
        if o.time > 1.0:
            print(f"  slow {o.time:6.2f}s {o.backend} {o.name}")
    und = [i for i in infos if i.get("status") != "under contract"]
    print(f"obligations={len(real)} not-discharged={bad} "
          f"undecided-functions={len(und)}")


if __name__ == "__main__":
    main()
