"""./check <ID>: decide one property.

Stage 1  verification conditions from the real source (contracts in
         /verif/contracts), discharged by z3 / cvc5.
Stage 2  concrete stage under /venv/bin/python: run-time form of the contracts
         on the standard input set, audits of assumed library specs, replay of
         counter-models.  Bounded; never counted as proved.
"""
from __future__ import annotations
import argparse
import json
import os
import subprocess
import sys
import time
import traceback

ROOT = os.path.dirname(os.path.dirname(os.path.abspath(__file__)))
VENV_PY = "/venv/bin/python"


def load_plan():
    import importlib.util
    spec = importlib.util.spec_from_file_location("plan",
                                                  os.path.join(ROOT, "plan.py"))
    m = importlib.util.module_from_spec(spec)
    spec.loader.exec_module(m)
    return m


def load_known():
    p = os.path.join(ROOT, "known_findings.json")
    if not os.path.exists(p):
        return {"findings": [], "fixed": []}
    with open(p) as f:
        return json.load(f)


OUT = [os.path.join(ROOT, "evidence")]


def load_assumed_sources():
    p = os.path.join(ROOT, "baseline", "assumed_sources.json")
    if os.path.exists(p):
        with open(p) as f:
            return json.load(f)
    return {}


from .source import class_index  # noqa: E402  (class name -> (module, ClassDef))


def class_shape_hash(node):
    """hash of what the contracts ASSUME of a class statement (A-PYD): bases,
    decorators, class-level statements (fields, defaults, model_config) and,
    for methods, only name, decorators and signature - method bodies are
    verified (or pinned) separately"""
    import ast
    import hashlib
    parts = [ast.dump(b) for b in node.bases] + \
        [ast.dump(k) for k in node.keywords] + \
        [ast.dump(d) for d in node.decorator_list]
    for st_ in node.body:
        if isinstance(st_, (ast.FunctionDef, ast.AsyncFunctionDef)):
            parts.append("def %s %s %s" % (
                st_.name, [ast.dump(d) for d in st_.decorator_list],
                ast.dump(st_.args)))
        elif isinstance(st_, ast.Expr) and isinstance(
                st_.value, ast.Constant) and isinstance(st_.value.value, str):
            continue
        else:
            parts.append(ast.dump(st_))
    return hashlib.sha256("|".join(parts).encode()).hexdigest()[:16]


def classes_of(reg, fcs):
    """names of the classes the contracts of these functions talk about"""
    import re
    out = set()
    for fc in fcs:
        if fc.cls:
            out.add(fc.cls)
        for shp in list(fc.params.values()) + [fc.returns or ""]:
            out.update(re.findall(r"ref:([A-Za-z_][A-Za-z_0-9]*)", shp or ""))
        for m in fc.modifies:
            if not m.startswith("ghost:") and "." in m:
                out.add(m.split(".")[0])
    # one level of fields
    for c in list(out):
        for shp in reg.classes.get(c, {}).values():
            if isinstance(shp, str):
                out.update(re.findall(r"ref:([A-Za-z_][A-Za-z_0-9]*)", shp))
    return out


def assumed_facts(reg, pid):
    out = []
    for key, fc in reg.funcs.items():
        if pid not in fc.props or fc.assumed or not fc.verify:
            continue
        items = [("def", cl.text) for cl in fc.defs]
        for o, lc in fc.loops.items():
            items += [(f"loop{o}-lemma", lm if isinstance(lm, str) else str(lm))
                      for lm in lc.lemmas]
        items += [("assumed-clause", cl.text) for cl in fc.ensures
                  if getattr(cl, "assumed", False)]
        for kind, text in items:
            t = " ".join(text.split())
            cls_ = "path-axiom instance" if "use_path(" in t else (
                "assumed clause" if kind == "assumed-clause" else
                "definition / well-foundedness of a specification function")
            out.append({"function": key.split(":", 1)[1], "kind": kind,
                        "class": cls_, "text": t[:200]})
    return out


def assumed_source_hash(repo, mod, qualname):
    """hash of the function's AST without its docstring and with its locals
    spelt canonically (comments, formatting and the names of local variables
    do not matter)"""
    import ast
    import hashlib
    from . import source as S
    node, _, _ = S.get_function(repo, mod, qualname)
    node = S.alpha_normalised(node)
    body = S.strip_docstring(node.body)
    txt = ast.dump(node.args) + "|" + "|".join(ast.dump(b) for b in body) + \
        "|" + "|".join(ast.dump(d) for d in node.decorator_list)
    return hashlib.sha256(txt.encode()).hexdigest()[:16]


def stage1(pid, repo, tier, plan, update=False):
    from .contracts import Registry
    from . import solve, run
    reg = Registry().load_dir(os.path.join(ROOT, "contracts"))
    funcs = []
    for key, fc in reg.funcs.items():
        if pid in fc.props and (fc.assumed or not fc.verify):
            funcs.append({"function": key, "assumed": True, "note": fc.note,
                          "status": "assumed contract (not verified)"})
    keys = run.select_keys(reg, pid=pid)
    infos, allobs = run.generate(repo, keys)
    undecided = []
    # in-repo functions whose contract is ASSUMED (audited by the bounded
    # stage only): the assumption was justified for one source text; when that
    # text changes the contract is no longer backed -> undecided
    base = load_assumed_sources()
    cur = {}
    for f in funcs:
        key = f["function"]
        mod, qn = key.split(":", 1)
        if not mod.startswith("sedpack/") or "_sedpack_rs" in mod:
            continue
        try:
            h = assumed_source_hash(repo, mod, qn)
        except Exception as e:  # noqa: BLE001
            h = "missing: " + str(e)[:80]
        cur[key] = h
        f["source_hash"] = h
        if key in base and base[key] != h and not update:
            undecided.append((key, "the source of this function, whose "
                              "contract is assumed (audited, bounded), "
                              "changed since the audit: contract no longer "
                              "backed"))
    # class statements whose shape the contracts assume (fields, defaults,
    # validators, model configuration: A-PYD)
    idx = class_index(repo)
    fcs = [fc for fc in reg.funcs.values() if pid in fc.props]
    for cname in sorted(classes_of(reg, fcs)):
        if cname not in idx:
            continue
        key = "class:" + cname
        h = class_shape_hash(idx[cname][1])
        cur[key] = h
        if key in base and base[key] != h and not update:
            undecided.append((idx[cname][0] + ":" + cname,
                              "the class statement (fields, defaults, "
                              "validators, configuration) changed; the "
                              "contracts assume the recorded shape (A-PYD)"))
    if update:
        base.update(cur)
        with open(os.path.join(ROOT, "baseline", "assumed_sources.json"),
                  "w") as f:
            json.dump(base, f, indent=0, sort_keys=True)
    if update:
        # how the locals of the verified functions are spelt now (see
        # source.restore_local_names)
        lp = os.path.join(ROOT, "baseline", "locals.json")
        try:
            with open(lp) as f:
                rec = json.load(f)
        except (OSError, ValueError):
            rec = {}
        for i in infos:
            if i.get("status") == "under contract" and \
                    not i.get("renamed_locals"):
                rec[i["function"]] = i.get("locals_now", [])
        with open(lp, "w") as f:
            json.dump(rec, f, indent=0, sort_keys=True)
    used = set()
    for i in infos:
        i["assumed"] = False
        funcs.append(i)
        used |= set(i.get("assumptions", []))
        if i.get("status") != "under contract":
            undecided.append((i["function"], i.get("undecided") or
                              i.get("error") or i.get("status")))
    obs = [ob for ob in allobs if pid in ob.props or ob.kind == "canary"]
    t0 = time.time()
    solve.discharge_text(obs, both=(tier == "thorough"))
    solver_wall = time.time() - t0

    class E_:  # what the rest of check.main needs from the engine
        used_assumptions = used
    return reg, E_, funcs, obs, undecided, solver_wall


MAX_RSS_MB = 8000
# properties whose subject is the iteration pipeline (termination, laziness,
# exactly-once, order, selection): unbounded memory there is the violation
ITERATION_PROPS = {"C02", "C03", "C07", "C12", "C13", "C14", "C19"}


def run_concrete(pid, repo, tier, seed, cexfile=None, timeout=3000):
    script = os.path.join(ROOT, "harness", "concrete.py")
    if not os.path.exists(script):
        return {"results": [], "error": None, "skipped": True}
    out = os.path.join(OUT[0], "work", f"{pid}.concrete.json")
    os.makedirs(os.path.dirname(out), exist_ok=True)
    if os.path.exists(out):
        os.unlink(out)
    env = dict(os.environ)
    env["PYTHONPATH"] = os.path.join(repo, "src") + os.pathsep + ROOT
    env["TF_CPP_MIN_LOG_LEVEL"] = "3"
    env["CUDA_VISIBLE_DEVICES"] = ""
    env["SEDPACK_VERIF"] = "1"
    cmd = [VENV_PY, script, pid, "--repo", repo, "--tier", tier, "--seed",
           str(seed), "--out", out]
    if cexfile:
        cmd += ["--cex", cexfile]
    # The harness inputs are tiny (the unchanged tree stays well under 2 GB):
    # resident memory beyond MAX_RSS_MB means some iteration that has to be
    # lazy or finite is not.  Watch it, so that such a tree is reported
    # instead of taking the machine (and this checker) down.
    import tempfile
    errf = tempfile.TemporaryFile("w+")
    p = subprocess.Popen(cmd, env=env, stdout=subprocess.DEVNULL, stderr=errf,
                         text=True, cwd=ROOT, start_new_session=True)
    end = time.time() + timeout
    killed = None
    while p.poll() is None:
        time.sleep(0.1)
        rss = 0
        try:
            with open(f"/proc/{p.pid}/status") as f:
                for ln in f:
                    if ln.startswith("VmRSS:"):
                        rss = int(ln.split()[1]) // 1024
        except OSError:
            pass
        if rss > MAX_RSS_MB:
            killed = f"resident memory grew beyond {MAX_RSS_MB} MB"
        elif time.time() > end:
            killed = f"still running after {timeout} s"
        if killed:
            try:
                os.killpg(p.pid, 9)
            except OSError:
                p.kill()
            p.wait()
            break
    errf.seek(0)
    stderr = errf.read()
    errf.close()
    if killed:
        prog = {"running": None, "results": []}
        try:
            with open(out + ".progress") as f:
                prog = json.load(f)
        except (OSError, ValueError):
            pass
        fn = prog.get("running")
        if killed.startswith("resident") and fn and pid in ITERATION_PROPS:
            # a property about iteration: the check that ran fine on the
            # unchanged tree cannot be completed in bounded memory
            return {"results": prog.get("results", []) + [{
                "check": fn, "ok": False, "evaluations": 0,
                "function": "(iteration pipeline)",
                "witness": {"outcome": f"the bounded check {fn} was stopped: "
                            + killed + " (inputs of a few dozen examples; "
                            "the unchanged tree needs well under 2 GB): an "
                            "iteration that has to be lazy or finite is not",
                            "no_failing_input": True}}], "error": None}
        return {"results": prog.get("results", []),
                "error": f"concrete stage stopped ({fn}): " + killed}
    if not os.path.exists(out):
        return {"results": [], "error": "concrete stage crashed: " +
                (stderr or "")[-2000:]}
    with open(out) as f:
        return json.load(f)


def normkey(name):
    """obligation name without line numbers and path ids"""
    import re
    n = name.split("#")[0]
    n = re.sub(r"@\d+", "", n)
    return n


def load_baseline():
    p = os.path.join(ROOT, "baseline", "obligations.json")
    if not os.path.exists(p):
        return {}
    with open(p) as f:
        return json.load(f)


def match_known(item, known, pid):
    key = item.get("finding_key") or ""
    for k in known.get("findings", []):
        if k.get("property") != pid and pid not in k.get("properties", []):
            continue
        for m in k.get("match", []):
            if key.startswith(m):
                return k
    return None


def main(argv=None):
    ap = argparse.ArgumentParser()
    ap.add_argument("pid")
    ap.add_argument("--tier", default=os.environ.get("VERIF_TIER", "quick"))
    ap.add_argument("--repo", default=os.environ.get("PYVC_REPO", "/repo"))
    ap.add_argument("--replay", default=None)
    ap.add_argument("--out", default=None,
                    help="directory for evidence / replay files (default "
                         "evidence/; use another one when checking a scratch "
                         "copy of the repository)")
    ap.add_argument("--no-concrete", action="store_true")
    ap.add_argument("--update-baseline", action="store_true")
    a = ap.parse_args(argv)
    if a.out:
        OUT[0] = os.path.abspath(a.out)
    os.makedirs(os.path.join(OUT[0], "work"), exist_ok=True)
    seed = int(os.environ.get("VERIF_SEED", "0") or 0)
    t_start = time.time()
    pid = a.pid
    try:
        plan = load_plan()
        if pid not in plan.PLAN:
            print(f"property {pid} is not claimed (see MANIFEST not_applicable)")
            return 3
        P = plan.PLAN[pid]
        known = load_known()
        if a.replay:
            return replay(pid, a, seed, known)
        reg, eng, funcs, obs, undecided, solver_wall = stage1(
            pid, a.repo, a.tier, plan, update=a.update_baseline)
    except Exception:  # noqa: BLE001
        traceback.print_exc()
        return 3

    canaries = [o for o in obs if o.kind == "canary"]
    real = [o for o in obs if o.kind != "canary"]
    # an obligation left open is retried once with a 4x budget (verdicts must
    # not flip under load)
    retry = [o for o in real if o.status not in ("sat", "unsat")]
    if retry:
        from . import solve
        old_t = solve.Z3_TIMEOUT_MS, solve.CVC5_TIMEOUT_MS
        solve.Z3_TIMEOUT_MS, solve.CVC5_TIMEOUT_MS = old_t[0] * 4, old_t[1] * 4
        try:
            # (solver heuristics are sensitive to irrelevant details of a
            # query: an obligation any seed proves is proved)
            for seed_ in (0, 7, 23):
                solve.Z3_SEED = seed_
                if seed_:
                    # the alternative seeds get 2x the normal budget
                    solve.Z3_TIMEOUT_MS = old_t[0] * 2
                    solve.CVC5_TIMEOUT_MS = old_t[1] * 2
                retry = [o for o in retry if o.status not in ("sat", "unsat")]
                if not retry:
                    break
                solve.discharge_text(retry, procs=min(8, len(retry)))
        finally:
            solve.Z3_TIMEOUT_MS, solve.CVC5_TIMEOUT_MS = old_t
            solve.Z3_SEED = 0
    baseline = load_baseline().get(pid, {})
    if a.update_baseline:
        keys = {}
        for o in real:
            if o.status == "unsat":
                keys[normkey(o.name)] = keys.get(normkey(o.name), 0) + 1
        for o in real:
            if o.status != "unsat":
                keys.pop(normkey(o.name), None)
        allb = load_baseline()
        allb[pid] = keys
        with open(os.path.join(ROOT, "baseline", "obligations.json"), "w") as f:
            json.dump(allb, f, indent=0, sort_keys=True)
        baseline = keys
    refuted = [o for o in real if o.status == "sat"]
    unknown = [o for o in real if o.status not in ("sat", "unsat")]
    # an obligation that is discharged on the unchanged tree (committed
    # baseline) and can no longer be discharged is a violation of that named
    # obligation (reported without a failing input)
    regressed = [o for o in unknown if normkey(o.name) in baseline]
    unknown = [o for o in unknown if normkey(o.name) not in baseline]
    for o in regressed:
        o.regressed = True
    refuted = refuted + regressed
    discharged = [o for o in real if o.status == "unsat"]
    by_backend = {}
    for o in discharged:
        by_backend[o.backend] = by_backend.get(o.backend, 0) + 1
    by_kind = {}
    for o in real:
        k = o.kind.split("(")[0]
        by_kind[k] = by_kind.get(k, 0) + 1
    # vacuity: every verified function must have a reachable exit
    vacuous = []
    for f in funcs:
        if f.get("status") != "under contract":
            continue
        cs = [c for c in canaries if c.func == f["function"]]
        if not cs or all(c.status == "unsat" for c in cs):
            vacuous.append(f["function"])
    # ... and a function with a normal postcondition must be able to return
    # (otherwise its `ensures` are proved of nothing); a code change that makes
    # it unable to return leaves the property undecided, not violated
    for f in funcs:
        if (f.get("status") == "under contract" and f.get("has_ensures")
                and f.get("exits", {}).get("normal", 1) == 0
                and f["function"] not in vacuous):
            undecided.append((f["function"], "no feasible normal exit under "
                              "the contracts (postconditions unexercised)"))
    # a branch / call outcome that is infeasible in BOTH directions means the
    # path condition (contracts assumed so far) is contradictory: whatever was
    # "proved" on it is void
    for f in funcs:
        if f.get("status") == "under contract" and f.get("inconsistent"):
            undecided.append((f["function"], "contradictory path condition: "
                              + str(f["inconsistent"][:3])[:300]))
    verified_funcs = [f for f in funcs if f.get("status") == "under contract"]

    # ---- concrete stage ----------------------------------------------------
    replay_dir = os.path.join(OUT[0], "replay")
    os.makedirs(replay_dir, exist_ok=True)
    cexfile = None
    if refuted:
        cexfile = os.path.join(OUT[0], "work", f"{pid}.cex.json")
        os.makedirs(os.path.dirname(cexfile), exist_ok=True)
        with open(cexfile, "w") as f:
            json.dump([{"obligation": o.name, "function": o.func,
                        "kind": o.kind, "line": o.line, "backend": o.backend,
                        "model": o.model} for o in refuted], f, indent=1)
    conc = {"results": [], "error": None}
    if not a.no_concrete:
        conc = run_concrete(pid, a.repo, a.tier, seed, cexfile)
    cres = conc.get("results", [])
    cfail = [r for r in cres if not r.get("ok")]
    # the tree-summation lemma (local exactness => global exactness) is
    # machine-checked by Lean on every run
    lemma_fail = None
    LEAN = {"A-LEMMA-TREE": ("TreeExact.lean",
                             "recorded total = actual total for every "
                             "locally exact finite tree"),
            "A-LEMMA-COUNT": ("Count.lean",
                              "the counting / enumeration facts (CNT, IDX) "
                              "used for filter comprehensions")}
    for aid, (fn, what) in LEAN.items():
        if aid not in (P.get("assumptions") or []):
            continue
        lp = os.path.join(ROOT, "lemmas", fn)
        try:
            txt = open(lp).read()
            pr = subprocess.run(["lean", lp], capture_output=True, text=True,
                                timeout=600)
            bad = pr.returncode != 0 or "error" in (pr.stdout + pr.stderr) \
                or "sorry" in txt.replace("no sorry", "") or "\naxiom " in txt
            lr = {"check": f"Lean 4 accepts lemmas/{fn} (no sorry, no "
                           f"axiom): {what}",
                  "ok": not bad, "evaluations": 1, "bound": "unbounded "
                  "(machine-checked proof by induction)",
                  "witness": None if not bad else (pr.stdout + pr.stderr)[-400:]}
        except Exception as e:  # noqa: BLE001
            lr = {"check": f"Lean lemma {fn}", "ok": False,
                  "evaluations": 1, "witness": repr(e)[:300]}
        cres = cres + [lr]
        if not lr["ok"]:
            lemma_fail = lr
    # audit of the assumed path theory against pathlib (every run; a failure
    # voids the proofs that use the theory: checker error, not a violation)
    theory_fail = None
    if any("A-SYMLINK" in (P.get("assumptions") or []) for _ in [0]):
        from . import audit_axioms
        ta = audit_axioms.audit_paths()
        cres = cres + [ta]
        if not ta["ok"]:
            theory_fail = ta
    known_hits = []
    new_fail = []
    for r in cfail:
        k = match_known(r, known, pid)
        if k:
            known_hits.append((k, r))
        else:
            new_fail.append(r)

    # ---- verdict -----------------------------------------------------------
    lines = []
    violations = 0
    nrep = 0
    for o in refuted:
        nrep += 1
        rp = os.path.join(replay_dir, f"{pid}-obl{nrep}.json")
        # a concrete failure on the same function is the replayed input
        hit = None
        for r in new_fail:
            if r.get("function") and r["function"] in o.func:
                hit = r
                break
        with open(rp, "w") as f:
            json.dump({"property": pid, "obligation": o.name,
                       "function": o.func, "kind": o.kind, "line": o.line,
                       "solver": {"backend": o.backend, "status": o.status,
                                  "model": o.model,
                                  "regressed": bool(getattr(o, "regressed",
                                                            False)),
                                  "note": "discharged on the unchanged tree "
                                          "(baseline/obligations.json), not "
                                          "dischargeable now" if getattr(
                                              o, "regressed", False) else ""},
                       "replayed_input": hit,
                       "note": "refuted verification condition generated "
                               "from the current source"}, f, indent=1)
        suffix = "" if hit else " no-failing-input-found"
        lines.append(f"VIOLATION property={pid} replay={rp}{suffix}")
        violations += 1
        if nrep >= 5:
            break
    used = set()
    for r in new_fail:
        nrep += 1
        rp = os.path.join(replay_dir, f"{pid}-conc{nrep}.json")
        with open(rp, "w") as f:
            json.dump({"property": pid, "concrete_check": r}, f, indent=1,
                      default=str)
        w_ = r.get("witness")
        sfx = " no-failing-input-found" if isinstance(w_, dict) and w_.get(
            "no_failing_input") else ""
        lines.append(f"VIOLATION property={pid} replay={rp}{sfx}")
        violations += 1
        if nrep >= 12:
            break
    seenk = set()
    for k, r in known_hits:
        if k["id"] in seenk:
            continue
        seenk.add(k["id"])
        lines.append(f"KNOWN-FINDING: property={pid} {k['id']} {k['what']}")
    und_msgs = []
    for key, msg in undecided:
        und_msgs.append(f"UNDECIDED {key}: {msg}")
    for o in unknown:
        und_msgs.append(f"UNDECIDED obligation {o.name}: solver {o.status}")
    err_msgs = []
    if vacuous:
        err_msgs.append(f"CHECKER-ERROR vacuous contracts (no reachable exit): "
                        f"{vacuous}")
    if not real and P.get("needs_vcs", True):
        err_msgs.append("CHECKER-ERROR zero obligations generated")
    if conc.get("error"):
        err_msgs.append(f"CHECKER-ERROR {conc['error']}")
    # audit of the sequence / stream algebra against executable reference
    # semantics (properties whose proofs use it)
    if any(x in (P.get("assumptions") or []) for x in ("A-ALG", "A-STREAMLAWS")):
        from . import audit_axioms
        try:
            aa = audit_axioms.audit_algebra(os.path.join(ROOT, "contracts"),
                                            a.repo)
        except Exception as e:  # noqa: BLE001
            aa = {"check": "sequence / stream algebra audit", "ok": False,
                  "evaluations": 0, "witness": repr(e)[:300]}
        cres = cres + [{k: v for k, v in aa.items() if k != "skipped"}]
        if not aa["ok"]:
            theory_fail = aa
    if lemma_fail:
        err_msgs.append("CHECKER-ERROR Lean lemma not accepted: "
                        + str(lemma_fail.get("witness"))[:300])
    if theory_fail:
        err_msgs.append("CHECKER-ERROR theory axiom refuted by its reference semantics: "
                        + str(theory_fail.get("witness"))[:400])

    for ln in lines + und_msgs + err_msgs:
        print(ln)

    # ---- evidence ----------------------------------------------------------
    level = P["level"]
    bounded = [r for r in cres]
    all_ok = not violations and not und_msgs and not err_msgs
    if level == "proof" and (unknown or undecided):
        level = "other"
    samples = [{"obligation": o.name, "status": o.status,
                "backend": o.backend} for o in (refuted + real)[:6]]
    coverage = {
        "obligations": len(real),
        "discharged": len(discharged),
        "refuted": len(refuted),
        "undecided": len(unknown),
        "discharged_by_backend": by_backend,
        "obligations_by_kind": by_kind,
        "solver_seconds_cpu": round(sum(o.time for o in real), 2),
        "solver_seconds_wall": round(solver_wall, 2),
        "canaries": {"generated": len(canaries),
                     "refuted_as_required": len(
                         [c for c in canaries if c.status != "unsat"])},
        "checker_cmd": f"./check {pid} --tier {a.tier}",
        "functions": [{k: v for k, v in f.items() if k != "locals_now"}
                      for f in funcs],
        "functions_under_contract": len(verified_funcs),
        "functions_assumed": [f["function"] for f in funcs
                              if f.get("assumed")],
        "trusted_base": P.get("trusted_base", []),
        "explanation": P.get("explanation", ""),
        "bounded_stand_ins": {
            "note": "concrete stage: run-time contracts, audits and replays "
                    "under /venv/bin/python; bounded, never counted as proved",
            "evaluations": sum(int(r.get("evaluations", 1)) for r in cres),
            "checks": [{"check": r.get("check"), "ok": r.get("ok"),
                        "evaluations": r.get("evaluations", 1),
                        "bound": r.get("bound", "")} for r in cres][:80],
        },
        "evaluations": len(real) + sum(int(r.get("evaluations", 1))
                                       for r in cres),
        "distinct_nontrivial": len({o.name for o in real
                                    if o.backend != "trivial"}),
        "rule": "one evaluation per verification condition (named by "
                "function/kind/line/path) plus one per concrete run; "
                "non-trivial = not syntactically true after simplification",
        "samples": samples,
        "known_findings_matched": sorted(seenk),
        "undecided_detail": und_msgs[:20],
        # facts assumed without proof inside verified functions: definitional
        # unfoldings of specification functions (defs / loop lemmas),
        # instances of the audited path axioms (use_path), assumed clauses
        "assumed_facts": assumed_facts(reg, pid),
        "assumptions_used": sorted(eng.used_assumptions |
                                   set(P.get("assumptions", []))),
    }
    ev = {
        "property_id": pid, "tier": a.tier, "seed": seed, "level": level,
        "coverage": coverage,
        "assumptions": [f"{k}: {reg.assumptions.get(k, plan.ASSUMPTIONS.get(k, ''))}"
                        for k in coverage["assumptions_used"]],
        "wall_s": round(time.time() - t_start, 2),
        "violations": violations,
    }
    evp = os.path.join(OUT[0], f"{pid}.json")
    with open(evp, "w") as f:
        json.dump(ev, f, indent=1, default=str)

    print(f"{pid}: functions={len(verified_funcs)} obligations={len(real)} "
          f"discharged={len(discharged)} refuted={len(refuted)} "
          f"undecided={len(unknown) + len(undecided)} "
          f"concrete={len(cres)} concrete_failed={len(new_fail)} "
          f"known={len(seenk)} wall={ev['wall_s']}s")
    if violations:
        return 1
    if err_msgs:
        return 3
    if und_msgs:
        return 2
    return 0


def replay(pid, a, seed, known):
    with open(a.replay) as f:
        rp = json.load(f)
    res = run_concrete(pid, a.repo, a.tier, seed, cexfile=a.replay)
    bad = [r for r in res.get("results", []) if not r.get("ok")
           and not match_known(r, known, pid)]
    if bad:
        print(f"VIOLATION property={pid} replay={a.replay}")
        return 1
    print(f"{pid}: replay passed on this tree ({len(res.get('results', []))} "
          f"concrete checks)")
    return 0


if __name__ == "__main__":
    sys.exit(main())
