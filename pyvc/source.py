"""Locate the real functions in the repository under verification."""
from __future__ import annotations
import ast
import hashlib
import os

_cache: dict = {}


class SourceError(Exception):
    pass


def load_module(repo: str, relpath: str):
    path = os.path.join(repo, "src", relpath)
    key = os.path.abspath(path)
    if key in _cache:
        return _cache[key]
    try:
        with open(path, "r", encoding="utf-8") as f:
            text = f.read()
    except OSError as e:
        raise SourceError(f"cannot read {path}: {e}")
    try:
        tree = ast.parse(text, filename=path)
    except SyntaxError as e:
        raise SourceError(f"syntax error in {path}: {e}")
    _cache[key] = (tree, text, path)
    return _cache[key]


def clear_cache():
    _cache.clear()


def find_def(tree: ast.Module, qualname: str):
    """Find (Async)FunctionDef / ClassDef by dotted qualname, descending into
    classes and (for nested defs) functions."""
    parts = qualname.split(".")
    body = tree.body
    node = None
    for p in parts:
        node = None
        for n in body:
            if isinstance(n, (ast.FunctionDef, ast.AsyncFunctionDef,
                              ast.ClassDef)) and n.name == p:
                node = n
                break
        if node is None:
            return None
        body = node.body
    return node


def get_function(repo: str, relpath: str, qualname: str):
    tree, text, path = load_module(repo, relpath)
    node = find_def(tree, qualname)
    if node is None or isinstance(node, ast.ClassDef):
        raise SourceError(f"function {qualname} not found in {path}")
    seg = ast.get_source_segment(text, node) or ""
    h = hashlib.sha256(seg.encode()).hexdigest()[:16]
    return node, h, path


def get_class(repo: str, relpath: str, qualname: str):
    tree, text, path = load_module(repo, relpath)
    node = find_def(tree, qualname)
    if node is None or not isinstance(node, ast.ClassDef):
        raise SourceError(f"class {qualname} not found in {path}")
    return node


def strip_docstring(body):
    if (body and isinstance(body[0], ast.Expr) and
            isinstance(body[0].value, ast.Constant) and
            isinstance(body[0].value.value, str)):
        return body[1:]
    return body


def module_imports(tree: ast.Module) -> dict:
    """alias -> dotted module/function name, from top-level imports."""
    out = {}
    for n in tree.body:
        if isinstance(n, ast.Import):
            for a in n.names:
                out[a.asname or a.name.split(".")[0]] = (
                    a.name if a.asname else a.name.split(".")[0])
        elif isinstance(n, ast.ImportFrom):
            for a in n.names:
                out[a.asname or a.name] = f"{n.module}.{a.name}"
    return out


class _Rename(ast.NodeTransformer):
    def __init__(self, mapping):
        self.mapping = mapping

    def visit_Name(self, node):
        if node.id in self.mapping:
            return ast.copy_location(ast.Name(id=self.mapping[node.id],
                                              ctx=node.ctx), node)
        return node


def desugar_effectful_dictcomps(fnode, is_contract_function):
    """`T = {K: V for a, b in X.items()}` where V calls a function under
    contract is read as the equivalent loop

        _dcN = {}
        for _dcN_a, _dcN_b in X.items():
            _dcN[K'] = V'          (K', V' = K, V with a, b renamed)
        T = _dcN

    (a comprehension has its own scope: the loop variables get fresh names and
    the target is bound only after the loop, exactly as in the original).  The
    loop then needs an invariant like any other loop.  Returns the number of
    rewrites; the function node is modified in place."""
    count = [0]

    def calls_contract(v):
        for n in ast.walk(v):
            if isinstance(n, ast.Call) and isinstance(n.func, ast.Name) and \
                    is_contract_function(n.func.id):
                return True
        return False

    def rewrite_block(body):
        out = []
        for stmt in body:
            for fld in ("body", "orelse", "finalbody"):
                if hasattr(stmt, fld) and isinstance(getattr(stmt, fld), list) \
                        and not isinstance(stmt, (ast.FunctionDef,
                                                  ast.AsyncFunctionDef,
                                                  ast.ClassDef)):
                    setattr(stmt, fld, rewrite_block(getattr(stmt, fld)))
            val = None
            if isinstance(stmt, ast.Assign) and len(stmt.targets) == 1 and \
                    isinstance(stmt.targets[0], ast.Name):
                val, tgt = stmt.value, stmt.targets[0]
            elif isinstance(stmt, ast.AnnAssign) and stmt.value is not None \
                    and isinstance(stmt.target, ast.Name):
                val, tgt = stmt.value, stmt.target
            if isinstance(val, ast.DictComp) and len(val.generators) == 1 and \
                    not val.generators[0].ifs and \
                    not val.generators[0].is_async and \
                    isinstance(val.generators[0].target, ast.Tuple) and \
                    all(isinstance(e, ast.Name)
                        for e in val.generators[0].target.elts) and \
                    calls_contract(val.value):
                count[0] += 1
                g = val.generators[0]
                tmp = f"_dc{count[0]}"
                mp = {e.id: f"{tmp}_{e.id}" for e in g.target.elts}
                ren = _Rename(mp)
                key = ren.visit(ast.parse(ast.unparse(val.key), mode="eval").body)
                value = ren.visit(ast.parse(ast.unparse(val.value),
                                            mode="eval").body)
                init = ast.Assign(targets=[ast.Name(id=tmp, ctx=ast.Store())],
                                  value=ast.Dict(keys=[], values=[]))
                loop = ast.For(
                    target=ast.Tuple(elts=[ast.Name(id=mp[e.id], ctx=ast.Store())
                                           for e in g.target.elts],
                                     ctx=ast.Store()),
                    iter=g.iter,
                    body=[ast.Assign(targets=[ast.Subscript(
                        value=ast.Name(id=tmp, ctx=ast.Load()), slice=key,
                        ctx=ast.Store())], value=value)],
                    orelse=[])
                fin = ast.Assign(targets=[ast.Name(id=tgt.id, ctx=ast.Store())],
                                 value=ast.Name(id=tmp, ctx=ast.Load()))
                for n_ in (init, loop, fin):
                    ast.copy_location(n_, stmt)
                    ast.fix_missing_locations(n_)
                    for sub in ast.walk(n_):
                        if not hasattr(sub, "lineno") or sub.lineno is None:
                            sub.lineno = stmt.lineno
                            sub.col_offset = 0
                # keep real line numbers of the value expression
                for sub in ast.walk(loop):
                    sub.lineno = getattr(sub, "lineno", stmt.lineno) or stmt.lineno
                out.extend([init, loop, fin])
                continue
            out.append(stmt)
        return out

    fnode.body = rewrite_block(fnode.body)
    return count[0]


_CLASS_INDEX = {}


def class_index(repo):
    """class name -> (relative module path, ClassDef) for src/sedpack"""
    if repo in _CLASS_INDEX:
        return _CLASS_INDEX[repo]
    idx = {}
    base = os.path.join(repo, "src")
    for dp, _, fns in os.walk(os.path.join(base, "sedpack")):
        for fn in sorted(fns):
            if not fn.endswith(".py"):
                continue
            path = os.path.join(dp, fn)
            try:
                with open(path, encoding="utf-8") as f:
                    tree = ast.parse(f.read())
            except Exception:  # noqa: BLE001
                continue
            for n in tree.body:
                if isinstance(n, ast.ClassDef):
                    idx.setdefault(n.name, (os.path.relpath(path, base), n))
    _CLASS_INDEX[repo] = idx
    return idx
