"""Locate the real functions in the repository under verification."""
from __future__ import annotations
import ast
import collections
import copy
import hashlib
import os

_cache: dict = {}


class SourceError(Exception):
    pass


def load_module(repo: str, relpath: str):
    path = os.path.join(repo, "src", relpath)
    key = os.path.abspath(path)
    if key in _cache:
        return _cache[key]
    try:
        with open(path, "r", encoding="utf-8") as f:
            text = f.read()
    except OSError as e:
        raise SourceError(f"cannot read {path}: {e}")
    try:
        tree = ast.parse(text, filename=path)
    except SyntaxError as e:
        raise SourceError(f"syntax error in {path}: {e}")
    _cache[key] = (tree, text, path)
    return _cache[key]


def clear_cache():
    _cache.clear()


def find_def(tree: ast.Module, qualname: str):
    """Find (Async)FunctionDef / ClassDef by dotted qualname, descending into
    classes and (for nested defs) functions."""
    parts = qualname.split(".")
    body = tree.body
    node = None
    for p in parts:
        node = None
        for n in body:
            if isinstance(n, (ast.FunctionDef, ast.AsyncFunctionDef,
                              ast.ClassDef)) and n.name == p:
                node = n
                break
        if node is None:
            return None
        body = node.body
    return node


def get_function(repo: str, relpath: str, qualname: str):
    tree, text, path = load_module(repo, relpath)
    node = find_def(tree, qualname)
    if node is None or isinstance(node, ast.ClassDef):
        raise SourceError(f"function {qualname} not found in {path}")
    seg = ast.get_source_segment(text, node) or ""
    h = hashlib.sha256(seg.encode()).hexdigest()[:16]
    return node, h, path


def get_class(repo: str, relpath: str, qualname: str):
    tree, text, path = load_module(repo, relpath)
    node = find_def(tree, qualname)
    if node is None or not isinstance(node, ast.ClassDef):
        raise SourceError(f"class {qualname} not found in {path}")
    return node


def strip_docstring(body):
    if (body and isinstance(body[0], ast.Expr) and
            isinstance(body[0].value, ast.Constant) and
            isinstance(body[0].value.value, str)):
        return body[1:]
    return body


def module_imports(tree: ast.Module) -> dict:
    """alias -> dotted module/function name, from top-level imports."""
    out = {}
    for n in tree.body:
        if isinstance(n, ast.Import):
            for a in n.names:
                out[a.asname or a.name.split(".")[0]] = (
                    a.name if a.asname else a.name.split(".")[0])
        elif isinstance(n, ast.ImportFrom):
            for a in n.names:
                out[a.asname or a.name] = f"{n.module}.{a.name}"
    return out


class _Rename(ast.NodeTransformer):
    def __init__(self, mapping):
        self.mapping = mapping

    def visit_Name(self, node):
        if node.id in self.mapping:
            return ast.copy_location(ast.Name(id=self.mapping[node.id],
                                              ctx=node.ctx), node)
        return node


def desugar_effectful_dictcomps(fnode, is_contract_function):
    """`T = {K: V for a, b in X.items()}` where V calls a function under
    contract is read as the equivalent loop

        _dcN = {}
        for _dcN_0, _dcN_1 in X.items():
            _dcN[K'] = V'          (K', V' = K, V with a, b renamed)
        T = _dcN

    (a comprehension has its own scope: the loop variables get fresh names and
    the target is bound only after the loop, exactly as in the original).  The
    loop then needs an invariant like any other loop.  Returns the number of
    rewrites; the function node is modified in place."""
    count = [0]

    def calls_contract(v):
        for n in ast.walk(v):
            if isinstance(n, ast.Call) and isinstance(n.func, ast.Name) and \
                    is_contract_function(n.func.id):
                return True
        return False

    def rewrite_block(body):
        out = []
        for stmt in body:
            for fld in ("body", "orelse", "finalbody"):
                if hasattr(stmt, fld) and isinstance(getattr(stmt, fld), list) \
                        and not isinstance(stmt, (ast.FunctionDef,
                                                  ast.AsyncFunctionDef,
                                                  ast.ClassDef)):
                    setattr(stmt, fld, rewrite_block(getattr(stmt, fld)))
            val = None
            if isinstance(stmt, ast.Assign) and len(stmt.targets) == 1 and \
                    isinstance(stmt.targets[0], ast.Name):
                val, tgt = stmt.value, stmt.targets[0]
            elif isinstance(stmt, ast.AnnAssign) and stmt.value is not None \
                    and isinstance(stmt.target, ast.Name):
                val, tgt = stmt.value, stmt.target
            if isinstance(val, ast.DictComp) and len(val.generators) == 1 and \
                    not val.generators[0].ifs and \
                    not val.generators[0].is_async and \
                    isinstance(val.generators[0].target, ast.Tuple) and \
                    all(isinstance(e, ast.Name)
                        for e in val.generators[0].target.elts) and \
                    calls_contract(val.value):
                count[0] += 1
                g = val.generators[0]
                tmp = f"_dc{count[0]}"
                # loop variables named by POSITION (_dc1_0, _dc1_1): the
                # contract's invariants then do not depend on how the
                # comprehension's variables are spelt in the repository
                mp = {e.id: f"{tmp}_{k_}" for k_, e in
                      enumerate(g.target.elts)}
                ren = _Rename(mp)
                key = ren.visit(ast.parse(ast.unparse(val.key), mode="eval").body)
                value = ren.visit(ast.parse(ast.unparse(val.value),
                                            mode="eval").body)
                init = ast.Assign(targets=[ast.Name(id=tmp, ctx=ast.Store())],
                                  value=ast.Dict(keys=[], values=[]))
                loop = ast.For(
                    target=ast.Tuple(elts=[ast.Name(id=mp[e.id], ctx=ast.Store())
                                           for e in g.target.elts],
                                     ctx=ast.Store()),
                    iter=g.iter,
                    body=[ast.Assign(targets=[ast.Subscript(
                        value=ast.Name(id=tmp, ctx=ast.Load()), slice=key,
                        ctx=ast.Store())], value=value)],
                    orelse=[])
                fin = ast.Assign(targets=[ast.Name(id=tgt.id, ctx=ast.Store())],
                                 value=ast.Name(id=tmp, ctx=ast.Load()))
                for n_ in (init, loop, fin):
                    ast.copy_location(n_, stmt)
                    ast.fix_missing_locations(n_)
                    for sub in ast.walk(n_):
                        if not hasattr(sub, "lineno") or sub.lineno is None:
                            sub.lineno = stmt.lineno
                            sub.col_offset = 0
                # keep real line numbers of the value expression
                for sub in ast.walk(loop):
                    sub.lineno = getattr(sub, "lineno", stmt.lineno) or stmt.lineno
                out.extend([init, loop, fin])
                continue
            out.append(stmt)
        return out

    fnode.body = rewrite_block(fnode.body)
    return count[0]


_CLASS_INDEX = {}


def class_index(repo):
    """class name -> (relative module path, ClassDef) for src/sedpack"""
    if repo in _CLASS_INDEX:
        return _CLASS_INDEX[repo]
    idx = {}
    base = os.path.join(repo, "src")
    for dp, _, fns in os.walk(os.path.join(base, "sedpack")):
        for fn in sorted(fns):
            if not fn.endswith(".py"):
                continue
            path = os.path.join(dp, fn)
            try:
                with open(path, encoding="utf-8") as f:
                    tree = ast.parse(f.read())
            except Exception:  # noqa: BLE001
                continue
            for n in tree.body:
                if isinstance(n, ast.ClassDef):
                    idx.setdefault(n.name, (os.path.relpath(path, base), n))
    _CLASS_INDEX[repo] = idx
    return idx


# ---------------------------------------------------------------------------
# Renamed locals.  The sidecar contracts (loop invariants, lemmas) name local
# variables of the function they annotate.  When a maintainer renames such a
# local the text being verified is renamed BACK to the name the contract
# uses: an alpha-renaming of a genuine local, which cannot change behaviour
# (conditions checked below).  Which current local corresponds to which
# recorded one is decided by the *skeleton* of its first binding (the binding
# construct and the bound expression with all locals abstracted), recorded in
# baseline/locals.json when the baseline is updated.
def _scope_info(fnode):
    """(ordered local names, params, names declared global/nonlocal)"""
    params = [a.arg for a in (fnode.args.posonlyargs + fnode.args.args +
                              fnode.args.kwonlyargs)]
    for a in (fnode.args.vararg, fnode.args.kwarg):
        if a is not None:
            params.append(a.arg)
    declared = set()
    for n in ast.walk(fnode):
        if isinstance(n, (ast.Global, ast.Nonlocal)):
            declared |= set(n.names)
    return params, declared


def local_bindings(fnode):
    """[(name, skeleton)] for EVERY binding site of the function's own local
    variables, in source order (comprehension variables are not locals).  The
    skeleton is the binding construct plus the bound expression with every
    local, parameter, comprehension variable and lambda parameter abstracted."""
    params, declared = _scope_info(fnode)
    found = []          # (name, kind, expr node or None, position)

    def targets(t, kind, expr, pos=()):
        if isinstance(t, ast.Name):
            found.append((t.id, kind, expr, pos))
        elif isinstance(t, (ast.Tuple, ast.List)):
            for k, e in enumerate(t.elts):
                targets(e, kind, expr, pos + (k,))
        elif isinstance(t, ast.Starred):
            targets(t.value, kind, expr, pos + ("*",))

    def walrus(e):
        if e is None:
            return
        for n in ast.walk(e):
            if isinstance(n, ast.NamedExpr):
                targets(n.target, "walrus", n.value)

    def visit(stmts):
        for s in stmts:
            if isinstance(s, (ast.FunctionDef, ast.AsyncFunctionDef,
                              ast.ClassDef)):
                found.append((s.name, "def", None, ()))
            elif isinstance(s, ast.Assign):
                walrus(s.value)
                for t in s.targets:
                    targets(t, "assign", s.value)
            elif isinstance(s, ast.AnnAssign):
                walrus(s.value)
                targets(s.target, "assign" if s.value is not None
                        else "declare", s.value)
            elif isinstance(s, ast.AugAssign):
                walrus(s.value)
                targets(s.target, "aug", s.value)
            elif isinstance(s, (ast.For, ast.AsyncFor)):
                walrus(s.iter)
                targets(s.target, "for", s.iter)
                visit(s.body)
                visit(s.orelse)
            elif isinstance(s, (ast.While, ast.If)):
                walrus(s.test)
                visit(s.body)
                visit(s.orelse)
            elif isinstance(s, (ast.With, ast.AsyncWith)):
                for it in s.items:
                    walrus(it.context_expr)
                    if it.optional_vars is not None:
                        targets(it.optional_vars, "with", it.context_expr)
                visit(s.body)
            elif isinstance(s, ast.Try):
                visit(s.body)
                for h in s.handlers:
                    if h.name:
                        found.append((h.name, "except", h.type, ()))
                    visit(h.body)
                visit(s.orelse)
                visit(s.finalbody)
            elif hasattr(ast, "Match") and isinstance(s, ast.Match):
                walrus(s.subject)
                for c in s.cases:
                    visit(c.body)
            else:
                walrus(s)
    visit(fnode.body)
    sites = [(n, k, e, p_) for n, k, e, p_ in found
             if n not in params and n not in declared]
    abstract = {n for n, _, _, _ in sites} | set(params)
    for n in ast.walk(fnode):
        if isinstance(n, ast.comprehension):
            abstract |= {x.id for x in ast.walk(n.target)
                         if isinstance(x, ast.Name)}
        elif isinstance(n, ast.Lambda):
            abstract |= {a.arg for a in ast.walk(n.args)
                         if isinstance(a, ast.arg)}

    class _Abs(ast.NodeTransformer):
        def visit_Name(self, node):
            return ast.copy_location(ast.Name(
                id="_" if node.id in abstract else node.id, ctx=ast.Load()),
                node)

        def visit_arg(self, node):
            return ast.copy_location(ast.arg(arg="_", annotation=None), node)
    out = []
    for name, kind, expr, pos in sites:
        sk = kind + str(list(pos)) + ":"
        if expr is not None:
            sk += ast.dump(_Abs().visit(copy.deepcopy(expr)),
                           annotate_fields=False)
        out.append((name, sk))
    return out


def _mergeable(fnode, names):
    """The audited version used ONE variable where the current version uses
    several (`for update in a: ...` twice became `update` / `deeper_update`).
    Giving them one name again keeps the behaviour if their uses do not
    interleave: every statement of the function body that mentions one of them
    comes before every statement that mentions the next, and none of them is
    captured by a lambda, a nested function or a generator expression (which
    would read the variable later)."""
    for n in ast.walk(fnode):
        if isinstance(n, (ast.Lambda, ast.GeneratorExp)) or (
                isinstance(n, (ast.FunctionDef, ast.AsyncFunctionDef)) and
                n is not fnode):
            if any(isinstance(x, ast.Name) and x.id in names
                   for x in ast.walk(n)):
                return False
    spans = []
    for nm in names:
        idx = [k for k, st in enumerate(fnode.body)
               if any(isinstance(x, ast.Name) and x.id == nm
                      for x in ast.walk(st))]
        if not idx:
            return False
        spans.append((min(idx), max(idx)))
    spans.sort()
    return all(a[1] < b[0] for a, b in zip(spans, spans[1:]))


def restore_local_names(fnode, recorded, mentioned=None):
    """recorded: [[name, skeleton], ...] = local_bindings() of the audited
    version of this function; mentioned: identifiers occurring in the
    contract's text.  Renames locals of fnode (in place) back to the recorded
    spelling where that is an alpha-renaming; returns the mapping applied.
    Raises SourceError when the contract names a local that is no longer bound
    at as many places as it was (renamed or restructured in a way that cannot
    be followed): the contract would otherwise silently read another
    variable."""
    if not recorded:
        return {}
    recorded = [tuple(x) for x in recorded]
    cur = local_bindings(fnode)
    params, declared = _scope_info(fnode)
    every_name = {n.id for n in ast.walk(fnode) if isinstance(n, ast.Name)}
    every_name |= {a.arg for a in ast.walk(fnode) if isinstance(a, ast.arg)}
    dynamic = any(isinstance(n, ast.Name) and n.id in (
        "locals", "vars", "eval", "exec", "globals") for n in ast.walk(fnode))
    mapping = {}
    if not dynamic:
        if [s_ for _, s_ in recorded] == [s_ for _, s_ in cur]:
            # same binding structure: names correspond site by site
            fwd, ok = {}, True
            for (rn, _), (cn, _) in zip(recorded, cur):
                if fwd.setdefault(cn, rn) != rn:
                    ok = False      # one current variable, two recorded ones
            if ok:
                groups = {}
                for c, r in fwd.items():
                    groups.setdefault(r, []).append(c)
                for r, cs in groups.items():
                    if len(cs) > 1 and not _mergeable(fnode, cs):
                        ok = False
            if ok:
                mapping = {c: r for c, r in fwd.items() if c != r}
        else:
            # statements were added / removed: follow a renamed local by the
            # skeleton of its first binding, if that identifies it uniquely
            first_rec, first_cur = {}, {}
            for n, s_ in recorded:
                first_rec.setdefault(n, s_)
            for n, s_ in cur:
                first_cur.setdefault(n, s_)
            for old, sk in first_rec.items():
                if old in first_cur:
                    continue
                cands = [n for n, s_ in first_cur.items() if s_ == sk and
                         n not in first_rec and n not in mapping]
                if len(cands) == 1 and sum(
                        1 for s_ in first_rec.values() if s_ == sk) == 1:
                    mapping[cands[0]] = old
        # no capture: the recorded spelling must not be in any other use -
        # unless it is itself renamed away (a permutation), or it is one of
        # the variables being given one name again (checked by _mergeable)
        merged_into = {r for r in mapping.values()
                       if [s_ for _, s_ in recorded] == [s_ for _, s_ in cur]
                       and any(cn == r for cn, _ in cur)}
        if any(r in every_name and r not in mapping and r not in merged_into
               for r in mapping.values()):
            mapping = {}
    if mapping:
        for n in ast.walk(fnode):
            if isinstance(n, ast.arg) and n.arg in mapping:
                raise SourceError("a renamed local has the name of a "
                                  "(nested) parameter: " + n.arg)
        _Rename(mapping).visit(fnode)
    if mentioned:
        # a binding of a local the contract names has gone AND a new local
        # is bound in exactly that way: the local was renamed at that place
        # and the renaming could not be undone above - the contract would
        # read another variable.  (Bindings that merely disappeared, e.g. an
        # if / else turned into a conditional expression, are no concern.)
        after = local_bindings(fnode)
        rec_names = {n for n, _ in recorded}
        new_sks = {s_ for n, s_ in after if n not in rec_names}
        for name in sorted(set(mentioned) & rec_names):
            gone = collections.Counter(s_ for n, s_ in recorded if n == name) \
                - collections.Counter(s_ for n, s_ in after if n == name)
            if any(s_ in new_sks for s_ in gone):
                raise SourceError(
                    f"the contract names the local '{name}'; one of its "
                    f"bindings in the audited version of this function is now "
                    f"the binding of a differently named local (renamed in a "
                    f"way that cannot be followed)")
    return mapping


def alpha_normalised(fnode):
    """A copy of the function in which every local variable, comprehension
    variable, lambda parameter and except-name is spelt `_v<k>` in order of
    first occurrence (parameters keep their names: they are part of the
    signature).  Two functions that differ only by a consistent renaming of
    such names get the same text; used for hashing only."""
    node = copy.deepcopy(fnode)
    params, declared = _scope_info(node)
    own = {n for n, _ in local_bindings(node)}
    for n in ast.walk(node):
        if isinstance(n, ast.comprehension):
            own |= {x.id for x in ast.walk(n.target) if isinstance(x, ast.Name)}
        elif isinstance(n, ast.Lambda):
            own |= {a.arg for a in ast.walk(n.args) if isinstance(a, ast.arg)}
    own -= set(params) | declared
    order = {}

    class _Canon(ast.NodeTransformer):
        def visit_Name(self, n):
            if n.id in own:
                order.setdefault(n.id, f"_v{len(order)}")
                return ast.copy_location(ast.Name(id=order[n.id], ctx=n.ctx), n)
            return n

        def visit_arg(self, n):
            if n.arg in own:
                order.setdefault(n.arg, f"_v{len(order)}")
                n.arg = order[n.arg]
            return n

        def visit_ExceptHandler(self, n):
            self.generic_visit(n)
            if n.name in own:
                order.setdefault(n.name, f"_v{len(order)}")
                n.name = order[n.name]
            return n
    # ast.NodeTransformer visits fields in source order for statements and
    # expressions alike, so the numbering follows the text
    return _Canon().visit(node)
