"""Locate the real functions in the repository under verification."""
from __future__ import annotations
import ast
import hashlib
import os

_cache: dict = {}


class SourceError(Exception):
    pass


def load_module(repo: str, relpath: str):
    path = os.path.join(repo, "src", relpath)
    key = os.path.abspath(path)
    if key in _cache:
        return _cache[key]
    try:
        with open(path, "r", encoding="utf-8") as f:
            text = f.read()
    except OSError as e:
        raise SourceError(f"cannot read {path}: {e}")
    try:
        tree = ast.parse(text, filename=path)
    except SyntaxError as e:
        raise SourceError(f"syntax error in {path}: {e}")
    _cache[key] = (tree, text, path)
    return _cache[key]


def clear_cache():
    _cache.clear()


def find_def(tree: ast.Module, qualname: str):
    """Find (Async)FunctionDef / ClassDef by dotted qualname, descending into
    classes and (for nested defs) functions."""
    parts = qualname.split(".")
    body = tree.body
    node = None
    for p in parts:
        node = None
        for n in body:
            if isinstance(n, (ast.FunctionDef, ast.AsyncFunctionDef,
                              ast.ClassDef)) and n.name == p:
                node = n
                break
        if node is None:
            return None
        body = node.body
    return node


def get_function(repo: str, relpath: str, qualname: str):
    tree, text, path = load_module(repo, relpath)
    node = find_def(tree, qualname)
    if node is None or isinstance(node, ast.ClassDef):
        raise SourceError(f"function {qualname} not found in {path}")
    seg = ast.get_source_segment(text, node) or ""
    h = hashlib.sha256(seg.encode()).hexdigest()[:16]
    return node, h, path


def get_class(repo: str, relpath: str, qualname: str):
    tree, text, path = load_module(repo, relpath)
    node = find_def(tree, qualname)
    if node is None or not isinstance(node, ast.ClassDef):
        raise SourceError(f"class {qualname} not found in {path}")
    return node


def strip_docstring(body):
    if (body and isinstance(body[0], ast.Expr) and
            isinstance(body[0].value, ast.Constant) and
            isinstance(body[0].value.value, str)):
        return body[1:]
    return body


def module_imports(tree: ast.Module) -> dict:
    """alias -> dotted module/function name, from top-level imports."""
    out = {}
    for n in tree.body:
        if isinstance(n, ast.Import):
            for a in n.names:
                out[a.asname or a.name.split(".")[0]] = (
                    a.name if a.asname else a.name.split(".")[0])
        elif isinstance(n, ast.ImportFrom):
            for a in n.names:
                out[a.asname or a.name] = f"{n.module}.{a.name}"
    return out
