"""Library / builtin models used by the symbolic executor.

Everything here is an *assumed* specification of Python builtins and of the
standard library (assumption A-STD of DESIGN.md) unless stated otherwise.  The
encoder audit (harness/encoder_audit.py) runs the same models in unrolling mode
against CPython."""
from __future__ import annotations
import ast
import z3
from .contracts import Clause
from .values import (U, IntS, BoolS, MS, TRUTHY, NONE_U, V, VInt, VBool, VNone,
                     VU, VRef, VOpt, VTuple, VList, VDict, VIter, VFunc,
                     VStream, VModule, VExc, sort_of_shape, wrap)

# inner-iterable theory (round_robin): an opaque value u that is an iterable
ILEN = z3.Function("ILEN", U, IntS)
ISEQ = z3.Function("ISEQ", U, IntS, U)
IFAIL = z3.Function("IFAIL", U, IntS)
IINF = z3.Function("IINF", U, BoolS)
# application of an opaque callable
APP = z3.Function("APP", U, U, U)
APPFAILS = z3.Function("APPFAILS", U, U, BoolS)
YCArr = z3.ArraySort(U, z3.ArraySort(IntS, IntS))
LPMS = z3.Function("LPMS", z3.ArraySort(IntS, U), IntS, MS)


def _eng():
    from . import engine
    return engine


class Lib:
    def __init__(self, eng):
        self.eng = eng
        self.STREAM = z3.DeclareSort("STREAM")
        self.SEQ = z3.DeclareSort("SEQ")
        self._axioms = []
        self.E = _eng()
        from . import libext
        self.ext = libext.Ext(self)

    def axioms(self):
        return list(self._axioms) + self.ext.axioms()

    # ------------------------------------------------------------------
    # ghosts
    # ------------------------------------------------------------------
    def init_ghosts(self, st, fc):
        eng = self.eng
        if fc.generator and not getattr(fc, "stream_out", False):
            st.out = eng.empty_list(st, "U")
            st.ghost["ntok"] = VInt(0)
        u = z3.Const("u!g", U)
        ipos0 = z3.Const("IPOS0", z3.ArraySort(U, IntS))
        iopen0 = z3.Const("IOPEN0", z3.ArraySort(U, BoolS))
        yc0 = z3.Const("YC0", YCArr)
        st.ghost["IPOS"] = ipos0
        st.ghost["IOPEN"] = iopen0
        st.ghost["YC"] = yc0
        st.ghost["__lazy"] = True
        self._inner_used = False
        for name, (shape, init) in fc.ghosts.items():
            if init is None:
                st.ghost[name] = eng.fresh_value(st, shape, "g_" + name)
            else:
                st.ghost[name] = eng.spec_eval(st, init)
        self.ext.init_ghosts(st, fc)

    def init_ghosts_min(self, st):
        st.ghost["IPOS"] = z3.Const("IPOS0", z3.ArraySort(U, IntS))
        st.ghost["IOPEN"] = z3.Const("IOPEN0", z3.ArraySort(U, BoolS))
        st.ghost["YC"] = z3.Const("YC0", YCArr)

    def _inner_axioms(self, st):
        """Facts about the inner-iterable ghosts, assumed once per path when
        first used: nothing is open and nothing was yielded at entry."""
        if st.ghost.get("__inner_init"):
            return
        st.ghost["__inner_init"] = True
        u = z3.Const("u!g", U)
        p = z3.Const("p!g", IntS)
        ipos0 = z3.Const("IPOS0", z3.ArraySort(U, IntS))
        iopen0 = z3.Const("IOPEN0", z3.ArraySort(U, BoolS))
        yc0 = z3.Const("YC0", YCArr)
        # these are facts about the entry state; insert at the front of pc
        st.pc.insert(0, z3.ForAll([u], ipos0[u] == 0))
        st.pc.insert(0, z3.ForAll([u], z3.Not(iopen0[u])))
        st.pc.insert(0, z3.ForAll([u, p], yc0[u][p] == 0))
        st.pc.insert(0, z3.ForAll([u], ILEN(u) >= 0))
        st.pc.insert(0, z3.ForAll([u], z3.And(IFAIL(u) >= -1)))

    def havoc_ghosts(self, st, ghosts, has_yield):
        eng = self.eng
        if has_yield and st.out is not None:
            new = eng.fresh_list(st, "U", "out")
            new.lid = st.out.lid
            st.assume(new.n >= st.out.n)
            st.out = new
            st.ghost["ntok"] = VInt(st.fresh("ntok", IntS))
        for g in sorted(ghosts):
            if g == "inner":
                self._inner_axioms(st)
                old = st.ghost["IPOS"]
                new = st.fresh("IPOS", old.sort())
                u = z3.Const("u!g", U)
                st.assume(z3.ForAll([u], new[u] >= old[u]))
                st.ghost["IPOS"] = new
                oldo = st.ghost["IOPEN"]
                newo = st.fresh("IOPEN", oldo.sort())
                st.assume(z3.ForAll([u], z3.Implies(oldo[u], newo[u])))
                st.ghost["IOPEN"] = newo
                st.ghost["YC"] = st.fresh("YC", YCArr)
            elif g in st.ghost and isinstance(st.ghost[g], V):
                st.ghost[g] = eng.havoc_value(st, st.ghost[g], "g_" + g)
        self.ext.havoc_ghosts(st, ghosts, has_yield)

    def loop_effects(self, st, node, calls, fields):
        """Which locals (containers mutated in place), heap components and
        ghost groups a loop body may change."""
        eng = self.eng
        mut = set()
        heap = set()
        ghosts = set()
        MUTATORS = {"append", "extend", "pop", "clear", "insert", "remove",
                    "sort", "update", "setdefault", "add"}
        body_nodes = list(node.body)
        for b in body_nodes:
            for n in ast.walk(b):
                tgt = None
                if isinstance(n, ast.Call) and isinstance(n.func, ast.Attribute) \
                        and n.func.attr in MUTATORS:
                    tgt = n.func.value
                elif isinstance(n, (ast.Assign, ast.AugAssign, ast.Delete)):
                    ts = n.targets if not isinstance(n, ast.AugAssign) \
                        else [n.target]
                    for t in ts:
                        if isinstance(t, ast.Subscript):
                            self._mut_target(st, t.value, mut, heap)
                        if isinstance(t, ast.Attribute):
                            self._field_keys(t.attr, heap)
                if isinstance(n, ast.Call) and isinstance(n.func, ast.Attribute) \
                        and n.func.attr == "shuffle":
                    if n.args:
                        self._mut_target(st, n.args[0], mut, heap)
                if tgt is not None:
                    self._mut_target(st, tgt, mut, heap)
                if isinstance(n, ast.Call):
                    fname = None
                    if isinstance(n.func, ast.Name):
                        fname = n.func.id
                    elif isinstance(n.func, ast.Attribute):
                        fname = n.func.attr
                    if fname in ("next", "iter", "anext", "aiter"):
                        ghosts.add("inner")
                    # callee contracts: add their modifies (not for methods
                    # of local containers / opaque values)
                    if isinstance(n.func, ast.Attribute) and \
                            isinstance(n.func.value, ast.Name) and \
                            isinstance(st.locals.get(n.func.value.id),
                                       (VList, VDict, VU, VInt, VTuple)):
                        continue
                    for fc in eng.reg.funcs.values():
                        if fc.method_name == fname:
                            for m in fc.modifies:
                                if m == "*":
                                    raise eng.E.Unsupported(
                                        "call with unbounded frame in loop")
                                m = m.split("@")[0]
                                if m.startswith("ghost:"):
                                    ghosts.add(m[6:])
                                else:
                                    heap.add(m)
        for g in self.ext.loop_ghosts(st, node, calls):
            ghosts.add(g)
        return mut, heap, ghosts

    def _field_keys(self, attr, heap):
        for c, fs in self.eng.reg.classes.items():
            if attr in fs:
                heap.add(f"{c}.{attr}")

    def _mut_target(self, st, t, mut, heap):
        if isinstance(t, ast.Name):
            mut.add(t.id)
        elif isinstance(t, ast.Attribute):
            self._field_keys(t.attr, heap)
        elif isinstance(t, ast.Subscript):
            self._mut_target(st, t.value, mut, heap)

    # ------------------------------------------------------------------
    # names
    # ------------------------------------------------------------------
    def spec_name(self, st, name):
        eng = self.eng
        if name == "out":
            return st.out
        if name == "result":
            return st.ghost.get("result")
        if name == "yielding":
            return st.ghost.get("yielding")
        return self.ext.spec_name(st, name)

    def global_name(self, st, name, imports):
        if name in imports:
            return VModule(imports[name])
        if name in ("StopIteration", "ValueError", "Exception"):
            return VModule(name)
        r = self.ext.global_name(st, name, imports)
        if r is not None:
            return r
        r = self.function_reference(st, name)
        if r is not None:
            return r
        # module-level / class names of the module under verification
        return VModule("local:" + name)

    def function_reference(self, st, name):
        """`name` used as a value where the sidecar declares a `funcref` for
        it: the function object is the 0-ary spec function whose defining fact
        was generated from the function's verified contract.  Only when the
        module binds the name exactly once, by a plain undecorated `def` at
        top level (otherwise the name need not denote that function)."""
        eng = self.eng
        const = eng.reg.funcrefs.get((eng.cur.module, name))
        if const is None:
            return None
        from . import source as S
        tree, _, _ = S.load_module(eng.repo, eng.cur.module)
        binders = []
        for n in ast.walk(tree):
            if isinstance(n, (ast.FunctionDef, ast.AsyncFunctionDef,
                              ast.ClassDef)) and n.name == name:
                binders.append(n)
            elif isinstance(n, ast.Name) and n.id == name and \
                    not isinstance(n.ctx, ast.Load):
                binders.append(n)
            elif isinstance(n, ast.alias) and \
                    (n.asname or n.name.split(".")[0]) == name:
                binders.append(n)
            elif isinstance(n, ast.Global) and name in n.names:
                binders.append(n)
        if len(binders) != 1 or not isinstance(binders[0], ast.FunctionDef) \
                or binders[0] not in tree.body or binders[0].decorator_list:
            raise self.E.Unsupported(
                f"{name} is not bound exactly once by a plain top-level def")
        return VFunc(t=eng.ufunc(const)())

    def dotted_name(self, node, imports, st=None):
        parts = []
        n = node
        while isinstance(n, ast.Attribute):
            parts.append(n.attr)
            n = n.value
        if not isinstance(n, ast.Name):
            return None
        if st is not None and (n.id in st.locals or (
                st.spec and (n.id in st.ghost or n.id in ("result", "out")))):
            return None
        base = imports.get(n.id, n.id)
        parts.append(base)
        return ".".join(reversed(parts))

    def dotted(self, st, node, imports):
        d = self.dotted_name(node, imports, st)
        if d is None:
            return None
        r = self.ext.dotted_value(st, d, node)
        if r is not None:
            return r
        return VModule(d)

    def annotate(self, st, v, node):
        """Give an untyped empty container the shape declared for the local
        in the sidecar (`locals_`); sorts only, never facts about values."""
        eng = self.eng
        fc = eng.cur
        if isinstance(node, ast.Name) and node.id in fc.locals:
            shape = fc.locals[node.id]
            if isinstance(v, VDict) and v.val is None and \
                    shape.startswith("dict:list:"):
                es = shape[10:]
                d = VDict(v.dom, st.fresh("dvarr", z3.ArraySort(
                    U, z3.ArraySort(IntS, sort_of_shape(es)))), shape[5:],
                    lid=v.lid)
                d.vlen = st.fresh("dvlen", z3.ArraySort(U, IntS))
                k_ = z3.Const("k!dl", U)
                st.assume(z3.ForAll([k_], d.vlen[k_] >= 0))
                if getattr(v, "default_list", False):
                    d.default_list = True
                return d
            if isinstance(v, VDict) and v.val is None and \
                    shape.startswith("dict:"):
                vs = shape[5:]
                val = st.fresh("dval", z3.ArraySort(U, sort_of_shape(vs)))
                return VDict(v.dom, val, vs, lid=v.lid)
            if isinstance(v, VList) and getattr(v, "untyped", False) and \
                    shape.startswith("list:"):
                return eng.empty_list(st, shape[5:])
        return v

    def sum_model(self):
        for m in self.ext.models:
            if type(m).__name__ == "SumModel":
                return m

    def note_append(self, st, old, new, t):
        sm = self.stream_model()
        if old.eshape.startswith("ref:"):
            self.sum_model().step_facts(st, new, old.n)
        if sort_of_shape(old.eshape) == U:
            st.assume(sm.LSEQU(new.arr, new.n) ==
                      sm.CAT(sm.seq_of_list(st, old), sm.UNIT(t)))
        elif sort_of_shape(old.eshape) == IntS and old.eshape != "int":
            st.assume(sm.LSEQR(new.arr, new.n) ==
                      sm.CAT(sm.seq_of_list(st, old), sm.UNIT(sm.BOX(t))))

    def note_slice(self, st, lst, new, lo, hi):
        from .engine import _as_int
        sm = self.stream_model()
        if lst.eshape == "int" or lst.eshape == "bool":
            return
        if lo is None or isinstance(lo, VNone):
            if hi is None or isinstance(hi, VNone):
                return
            h = hi.val if isinstance(hi, VOpt) else hi
            ht = _as_int(h)
            cond = ht >= 0
            if isinstance(hi, VOpt):
                cond = z3.And(cond, z3.Not(hi.isnone))
            st.assume(z3.Implies(cond, sm.seq_of_list_raw(new) ==
                                 sm.TAKE(sm.seq_of_list_raw(lst), ht)))
        elif hi is None or isinstance(hi, VNone):
            lt = _as_int(lo)
            st.assume(z3.Implies(lt >= 0, sm.seq_of_list_raw(new) ==
                                 sm.DROP(sm.seq_of_list_raw(lst), lt)))

    # ------------------------------------------------------------------
    # operators delegated from the engine
    # ------------------------------------------------------------------
    def binop(self, st, op, a, b, line):
        return self.ext.binop(st, op, a, b, line)

    def compare(self, st, op, a, b, line):
        return self.ext.compare(st, op, a, b, line)

    def contains(self, st, container, x, line):
        return self.ext.contains(st, container, x, line)

    def getattr(self, st, obj, attr, line):
        return self.ext.getattr(st, obj, attr, line)

    def property_get(self, st, obj, attr, line):
        return self.ext.property_get(st, obj, attr, line)

    def setattr(self, st, obj, attr, v, line):
        return self.ext.setattr(st, obj, attr, v, line)

    def getitem(self, st, obj, idx, line):
        return self.ext.getitem(st, obj, idx, line)

    def setitem(self, st, cont, idx, v, line):
        return self.ext.setitem(st, cont, idx, v, line)

    def slice(self, st, obj, lo, hi, line):
        return self.ext.slice(st, obj, lo, hi, line)

    def slice_assign(self, st, target, v):
        return self.ext.slice_assign(st, target, v)

    def comprehension(self, st, node, kind):
        return self.ext.comprehension(st, node, kind)

    # ------------------------------------------------------------------
    # iterators
    # ------------------------------------------------------------------
    def fresh_iter(self, st, name):
        E = self.E
        iid = len(st.iters) + 1
        seq = z3.Const(f"{name}_seq", z3.ArraySort(IntS, U))
        n = z3.Const(f"{name}_n", IntS)
        inf = z3.Const(f"{name}_inf", BoolS)
        failat = z3.Const(f"{name}_failat", IntS)
        pms = z3.Function(f"pms_{name}", IntS, MS)
        st.assume(n >= 0)
        st.assume(failat >= -1)
        st.assume(z3.Or(inf, failat <= n))
        st.assume(pms(0) == z3.K(U, z3.IntVal(0)))
        it = E.IterState(iid, seq, n, inf, z3.IntVal(0), failat, pms, name)
        st.iters[iid] = it
        return VIter(iid)

    def next_flat(self, st, itv: VIter, line):
        E = self.E
        it = st.iters[itv.iid]
        if it.closed:
            raise E.RaiseEx("StopIteration", line)
        if st.branch(it.done, f"next-done@{line}"):
            raise E.RaiseEx("StopIteration", line)
        if st.branch(it.pos == it.failat, f"next-fail@{line}"):
            it.done = z3.BoolVal(True)
            st.ghost["__failed"] = True
            raise E.RaiseEx("Foreign", line, f"source {it.label} failed")
        if st.branch(z3.And(z3.Not(it.inf), it.pos == it.n),
                     f"next-stop@{line}"):
            it.done = z3.BoolVal(True)
            raise E.RaiseEx("StopIteration", line)
        st.assume(z3.Or(it.inf, it.pos < it.n))
        e = it.seq[it.pos]
        # prefix-multiset unrolling lemma (list theory; Lean: lemmas/ListFacts)
        st.assume(it.pms(it.pos + 1) ==
                  z3.Store(it.pms(it.pos), e, it.pms(it.pos)[e] + 1))
        v = VU(e, tok=("flat", it.iid, it.pos))
        it.pos = z3.simplify(it.pos + 1)
        return v

    def iter_open(self, st, u: VU, line):
        """iter(u) for an opaque iterable u: opens a fresh inner iterator,
        identified with u itself (contract precondition: each inner iterable
        is a distinct object and is opened at most once, which is posed as an
        obligation here)."""
        eng = self.eng
        self._inner_axioms(st)
        iopen = st.ghost["IOPEN"]
        eng.oblige(st, "iter-opened-once", line, z3.Not(iopen[u.t]), None)
        st.ghost["IOPEN"] = z3.Store(iopen, u.t, z3.BoolVal(True))
        return VU(u.t)

    def next_inner(self, st, u: VU, line):
        E = self.E
        eng = self.eng
        self._inner_axioms(st)
        ipos = st.ghost["IPOS"]
        eng.oblige(st, "next-on-open-iterator", line, st.ghost["IOPEN"][u.t],
                   None)
        p = ipos[u.t]
        if st.branch(p == IFAIL(u.t), f"inext-fail@{line}"):
            st.ghost["__failed"] = True
            raise E.RaiseEx("Foreign", line, "inner source failed")
        if st.branch(z3.And(z3.Not(IINF(u.t)), p >= ILEN(u.t)),
                     f"inext-stop@{line}"):
            raise E.RaiseEx("StopIteration", line)
        st.assume(z3.Or(IINF(u.t), p < ILEN(u.t)))
        st.ghost["IPOS"] = z3.Store(ipos, u.t, p + 1)
        return VU(ISEQ(u.t, p), tok=("inner", u.t, p))

    def record_yield(self, st, v, line):
        eng = self.eng
        if st.out is None:
            self.ext.record_yield(st, v, line)
            return
        if isinstance(v, (VU, VNone, VFunc)):
            st.out = eng.list_append(st, st.out, v)
        else:
            t = st.fresh("yv", U)
            st.out = eng.list_append(st, st.out, VU(t))
        tok = getattr(v, "tok", None)
        if tok is not None and tok[0] == "inner":
            _, u, p = tok
            yc = st.ghost["YC"]
            st.ghost["YC"] = z3.Store(yc, u, z3.Store(yc[u], p, yc[u][p] + 1))
            st.ghost["ntok"] = VInt(st.ghost["ntok"].t + 1)
        self.ext.record_yield(st, v, line)

    def yield_from(self, st, src, line):
        """yield from <src>: for a list, yields its elements in order.  The
        at-yield obligations are checked at an arbitrary position j."""
        eng = self.eng
        E = self.E
        fc = eng.cur
        if getattr(fc, "stream_out", False):
            sm = self.stream_model()
            if isinstance(src, VList):
                src = VStream(sm.OFSEQ(sm.seq_of_list(st, src)))
            if sm.yield_from(st, src, line):
                return
        if isinstance(src, VList):
            self._yield_from_list(st, src, line)
            return
        if self.ext.yield_from(st, src, line):
            return
        raise E.Unsupported(f"yield from {src!r} at line {line}")

    def _yield_from_list(self, st, src: VList, line):
        eng = self.eng
        E = self.E
        fc = eng.cur
        out = st.out
        if fc.at_yield or fc.on_abandon:
            # state at the j-th yield (0 <= j < len(src)); out has j more
            j = st.fresh("yj", IntS)
            saved_pc = list(st.pc)
            saved_out = st.out
            st.assume(z3.And(0 <= j, j < src.n))
            mid = eng.fresh_list(st, "U", "out_mid")
            st.assume(mid.n == out.n + j)
            i = z3.Const("i!yf", IntS)
            st.assume(z3.ForAll([i], z3.Implies(z3.And(0 <= i, i < out.n),
                                                mid.arr[i] == out.arr[i])))
            st.assume(z3.ForAll([i], z3.Implies(z3.And(0 <= i, i < j),
                                                mid.arr[out.n + i] ==
                                                src.arr[i])))
            x = z3.Const("x!yf", U)
            st.assume(z3.ForAll([x], z3.And(mid.ms[x] >= out.ms[x],
                                            mid.ms[x] <= out.ms[x] +
                                            src.ms[x])))
            st.out = mid
            st.ghost["yielding"] = VU(src.arr[j])
            for k, cl in enumerate(fc.at_yield):
                eng.oblige(st, "at-yield", line, eng.spec_bool(st, cl),
                           cl.props, label=f"{k}.yf")
            if fc.on_abandon and not st.ghost.get("__no_abandon"):
                if st.choose(2, f"abandon-yf@{line}") == 1:
                    raise E.AbandonEx(line)
            st.pc = saved_pc
            st.out = saved_out
        # after the whole list has been yielded
        new_n = out.n + src.n
        arr = st.fresh("out_arr", z3.ArraySort(IntS, U))
        ms = st.fresh("out_ms", MS)
        i = z3.Const("i!yf", IntS)
        x = z3.Const("x!yf", U)
        st.assume(z3.ForAll([i], z3.Implies(z3.And(0 <= i, i < out.n),
                                            arr[i] == out.arr[i])))
        st.assume(z3.ForAll([i], z3.Implies(z3.And(0 <= i, i < src.n),
                                            arr[out.n + i] == src.arr[i])))
        st.assume(z3.ForAll([x], ms[x] == out.ms[x] + src.ms[x]))
        new = VList(arr, z3.simplify(new_n), "U", ms, lid=out.lid)
        st.out = new
        st.nyield += 1

    # ------------------------------------------------------------------
    # for loops
    # ------------------------------------------------------------------
    def for_stmt(self, st, node):
        eng = self.eng
        E = self.E
        ordinal, lc = eng.loop_contract(node)
        kname = f"_k{ordinal}"
        st.locals[kname] = VInt(0)
        st.locals["_k"] = VInt(0)
        tnames = [n.id for n in ast.walk(node.target)
                  if isinstance(n, ast.Name)]
        holder = {}
        line = node.lineno

        def K():
            return st.locals[kname].t

        def step():
            st.locals[kname] = VInt(z3.simplify(K() + 1))
            st.locals["_k"] = st.locals[kname]

        def sync_k():
            st.locals["_k"] = st.locals[kname]

        src = self.make_source(st, node.iter, K, node)

        def test():
            sync_k()
            try:
                holder["e"] = src()
            except E.RaiseEx as ex:
                if ex.cls in ("StopIteration", "StopAsyncIteration") and \
                        ex.info == "for-source":
                    return z3.BoolVal(False)
                raise
            return z3.BoolVal(True)

        def pre():
            eng.assign(st, node.target, holder["e"])

        def post_havoc():
            st.assume(K() >= 0)
            sync_k()
        eng.cut_loop(st, node, ordinal, lc, test, step, pre,
                     extra_names=[kname, "_k"] + tnames,
                     post_havoc=post_havoc)

    def make_source(self, st, it, K, node):
        """Build a pull function for the iterable expression of a for loop.
        pull() returns the next element or raises StopIteration tagged
        'for-source'.  k = number of completed iterations."""
        eng = self.eng
        E = self.E
        line = node.lineno

        def stop():
            raise E.RaiseEx("StopIteration", line, "for-source")

        def is_call(n, name):
            return isinstance(n, ast.Call) and (
                (isinstance(n.func, ast.Name) and n.func.id == name) or
                (isinstance(n.func, ast.Attribute) and n.func.attr == name
                 and isinstance(n.func.value, ast.Name)
                 and n.func.value.id in ("asyncstdlib", "itertools")))

        if is_call(it, "zip"):
            if is_call(it, "zip") and isinstance(it.func, ast.Attribute):
                eng.used_assumptions.add("A-ASYNC")
            closes = isinstance(it.func, ast.Attribute)
            subs = [self.make_source(st, a, K, node) for a in it.args]

            def pull_zip():
                # zip pulls left to right and stops at the first exhausted
                # source (elements already pulled from earlier ones are lost)
                vals = []
                try:
                    for sfn in subs:
                        vals.append(sfn())
                except E.RaiseEx as ex:
                    if closes and ex.info == "for-source":
                        # asyncstdlib.zip calls aclose() on its inputs when it
                        # finishes: an async-generator source is finished
                        # for good, whatever it still held
                        for sfn in subs:
                            vi = getattr(sfn, "viter", None)
                            if vi is not None:
                                st.iters[vi.iid].closed = True
                    raise
                return VTuple(vals)
            return pull_zip
        if is_call(it, "range"):
            args = [eng.eval(st, a) for a in it.args]
            if len(args) == 1:
                lo, hi = z3.IntVal(0), args[0].t
            elif len(args) == 2:
                lo, hi = args[0].t, args[1].t
            else:
                raise E.Unsupported("range with step")

            def pull_range():
                if not st.branch(lo + K() < hi, f"range@{line}"):
                    stop()
                return VInt(z3.simplify(lo + K()))
            return pull_range
        if is_call(it, "enumerate") and len(it.args) == 1:
            sub = self.make_source(st, it.args[0], K, node)

            def pull_enum():
                e = sub()
                return VTuple([VInt(K()), e])
            return pull_enum
        if is_call(it, "reversed") and len(it.args) == 1:
            lst = eng.eval(st, it.args[0])
            if isinstance(lst, VList):
                def pull_rev():
                    if not st.branch(K() < lst.n, f"forrev@{line}"):
                        stop()
                    return wrap(lst.eshape, lst.arr[lst.n - 1 - K()])
                return pull_rev
        srcv = eng.eval(st, it)
        custom = self.ext.for_source(st, node, srcv, K, stop)
        if custom is not None:
            return custom
        if isinstance(srcv, VList):
            lst = srcv

            def pull_list():
                if not st.branch(K() < lst.n, f"forlist@{line}"):
                    stop()
                if lst.ms is not None:
                    self.lpms_facts(st, lst, K())
                if lst.eshape.startswith("ref:"):
                    self.sum_model().step_facts(st, lst, K())
                return wrap(lst.eshape, lst.arr[K()])
            return pull_list
        if isinstance(srcv, VTuple):
            raise E.Unsupported("for over a tuple value")
        if isinstance(srcv, VU):
            # an opaque immutable sequence (e.g. a list held in a record):
            # element k is ISEQ(u, k) for k < ILEN(u); every loop starts at 0
            self._inner_axioms(st)

            def pull_seq():
                if not st.branch(K() < ILEN(srcv.t), f"forseq@{line}"):
                    stop()
                return VU(ISEQ(srcv.t, K()))
            return pull_seq
        if isinstance(srcv, (VIter, VU)):
            node._iter_src = True

            def pull_iter():
                try:
                    if isinstance(srcv, VIter):
                        return self.next_flat(st, srcv, line)
                    return self.next_inner(st, srcv, line)
                except E.RaiseEx as ex:
                    if ex.cls == "StopIteration":
                        stop()
                    raise
            if isinstance(srcv, VIter):
                pull_iter.viter = srcv
            return pull_iter
        raise E.Unsupported(f"for over {srcv!r} at line {line}")

    def lpms_facts(self, st, lst, k):
        """prefix-multiset unrolling lemma for a list (list theory)"""
        L = LPMS
        e = lst.arr[k]
        st.assume(L(lst.arr, 0) == z3.K(U, z3.IntVal(0)))
        st.assume(L(lst.arr, k + 1) ==
                  z3.Store(L(lst.arr, k), e, L(lst.arr, k)[e] + 1))
        st.assume(L(lst.arr, lst.n) == lst.ms)

    def sp_lpmset(self, st, node):
        eng = self.eng
        lst = eng.eval(st, node.args[0])
        k = eng.eval(st, node.args[1]).t
        if lst.ms is not None:
            # boundary facts are datatype facts of (arr, n, ms)
            st.assume(LPMS(lst.arr, 0) == z3.K(U, z3.IntVal(0)))
            st.assume(LPMS(lst.arr, lst.n) == lst.ms)
        return VSpecTerm(LPMS(lst.arr, k))

    def sp_loop_entry(self, st, node):
        """value of an expression at entry of the innermost cut loop"""
        snap = st.ghost.get("__loop_entry")
        if snap is None:
            return self.eng.eval(st, node.args[0])
        saved = st.old
        st.old = snap
        try:
            return self.sp_old(st, node)
        finally:
            st.old = saved

    def sp_iter_start(self, st, node):
        """value of an expression at the start of the current iteration of
        the innermost cut loop (after the invariant has been assumed)"""
        snap = st.ghost.get("__iter_start")
        if snap is None:
            return self.eng.eval(st, node.args[0])
        saved = st.old
        st.old = snap
        try:
            return self.sp_old(st, node)
        finally:
            st.old = saved

    def as_iterator(self, st, v, line):
        if isinstance(v, VIter):
            return v
        if isinstance(v, VU):
            return v
        raise self.E.Unsupported(f"not an iterator: {v!r}")

    # ------------------------------------------------------------------
    # with
    # ------------------------------------------------------------------
    def with_stmt(self, st, node):
        eng = self.eng
        E = self.E
        if len(node.items) != 1:
            raise E.Unsupported("with with several items")
        item = node.items[0]
        ctx = eng.eval(st, item.context_expr)
        bound = self.ext.ctx_enter(st, ctx, node.lineno)
        if item.optional_vars is not None:
            eng.assign(st, item.optional_vars, bound)
        try:
            eng.exec_block(st, node.body)
        except E.RaiseEx as ex:
            swallow = self.ext.ctx_exit(st, ctx, ex, node.lineno)
            if not swallow:
                raise
            return
        except (E.ReturnEx, E.BreakEx, E.ContinueEx):
            self.ext.ctx_exit(st, ctx, None, node.lineno)
            raise
        except E.AbandonEx as ex:
            self.ext.ctx_exit(st, ctx, ex, node.lineno)
            raise
        self.ext.ctx_exit(st, ctx, None, node.lineno)

    # ------------------------------------------------------------------
    # calls
    # ------------------------------------------------------------------
    def call(self, st, node):
        eng = self.eng
        E = self.E
        f = node.func
        if isinstance(f, ast.Subscript):
            # generic alias instantiation, e.g. queue.Queue[int]()
            node = ast.Call(func=f.value, args=node.args,
                            keywords=node.keywords, lineno=node.lineno,
                            col_offset=0)
            f = node.func
        if isinstance(f, ast.Name):
            name = f.id
            if st.spec:
                h = getattr(self.ext, "sp_" + name, None) or \
                    getattr(self, "sp_" + name, None)
                if h is not None:
                    return h(st, node)
                if name in eng.reg.ufuncs:
                    args = [eng.eval(st, a) for a in node.args]
                    return self.apply_ufunc(st, name, args)
                if name in eng.reg.macros:
                    params, body = eng.reg.macros[name]
                    args = [eng.eval(st, a) for a in node.args]
                    saved = st.locals
                    st.locals = dict(saved)
                    for p_, a_ in zip(params, args):
                        st.locals[p_] = a_
                    try:
                        return eng.eval(st, eng.spec_parse(body))
                    finally:
                        st.locals = saved
            if name not in st.locals:
                h = getattr(self.ext, "b_" + name, None) or \
                    getattr(self, "b_" + name, None)
                if h is not None:
                    return h(st, node)
                return self.ext.call_global(st, name, node)
            fv = st.locals[name]
            return self.call_value(st, fv, node)
        if isinstance(f, ast.Attribute):
            d = self.dotted_name(f, eng.imports, st)
            if d is not None:
                r = self.ext.call_dotted(st, d, node)
                if r is not NotImplemented:
                    return r
            recv = eng.eval(st, f.value)
            return self.call_method(st, recv, f.attr, node)
        fv = eng.eval(st, f)
        return self.call_value(st, fv, node)

    def apply_ufunc(self, st, name, args):
        eng = self.eng
        fn = eng.ufunc(name)
        shapes, ret = eng.reg.ufuncs[name]
        ts = []
        for a, s in zip(args, shapes):
            ts.append(self.spec_term(st, a, s))
        t = fn(*ts)
        return self.spec_wrap(st, ret, t)

    def spec_term(self, st, a, shape):
        eng = self.eng
        if shape == "MS":
            if isinstance(a, VList):
                return a.ms
            return a.t
        if shape == "STREAM":
            if isinstance(a, VStream):
                return a.t
            sm = self.stream_model()
            return sm.stream_of(st, a)
        if shape == "SEQ":
            return a.t if not isinstance(a, VList) else self.ext.seq_of_list(
                st, a)
        if shape in ("U", "func", "optU", "optfunc") and isinstance(a, VRef):
            return self.stream_model().BOX(a.t)
        if shape in ("U", "func", "optfunc") and isinstance(a, VFunc) \
                and a.t is None:
            t = self.stream_model().func_term(st, a)
            if t is not None:
                return t
        if shape in ("ArrIntU", "ArrIntInt"):
            return a.arr if isinstance(a, VList) else a.t
        if shape == "int" and isinstance(a, VRef):
            return a.t
        return eng.coerce(st, a, shape)

    def spec_wrap(self, st, shape, t):
        if shape in ("MS", "SEQ", "ArrIntU", "ArrIntInt"):
            return VSpecTerm(t)
        if shape == "STREAM":
            return VStream(t)
        return wrap(shape, t)

    def stream_model(self):
        for m in self.ext.models:
            if type(m).__name__ == "StreamModel":
                return m
        raise self.E.Unsupported("stream model missing")

    def sp_seq(self, st, node):
        eng = self.eng
        v = eng.eval(st, node.args[0])
        sm = self.stream_model()
        if isinstance(v, VList):
            return VSpecTerm(sm.seq_of_list(st, v))
        if isinstance(v, VSpecTerm):
            return v
        raise self.E.Unsupported("seq() of this value")

    def sp_tfop(self, st, node):
        from .streams import _sp_tfop
        return _sp_tfop(self, st, node)

    def sp_tfcall(self, st, node):
        from .streams import _sp_tfcall
        return _sp_tfcall(self, st, node)

    def sp_sys_byteorder(self, st, node):
        return VU(z3.Const("SYS_BYTEORDER", U))

    def sp_libcall(self, st, node):
        from .streams import _sp_libcall
        return _sp_libcall(self, st, node)

    def sp_libmeth(self, st, node):
        from .streams import _sp_libmeth
        return _sp_libmeth(self, st, node)

    def sp_attr(self, st, node):
        from .streams import _sp_attr
        return _sp_attr(self, st, node)

    def sp_lam(self, st, node):
        from .streams import _sp_lam
        return _sp_lam(self, st, node)

    def sp_thunk(self, st, node):
        from .streams import _sp_thunk
        return _sp_thunk(self, st, node)

    def sp_ite_stream(self, st, node):
        eng = self.eng
        c = eng.truthy(st, eng.eval(st, node.args[0]))
        a = eng.eval(st, node.args[1])
        b = eng.eval(st, node.args[2])
        return VStream(z3.If(c, a.t, b.t))

    def sp_boolu(self, st, node):
        tf = [m for m in self.ext.models if type(m).__name__ == "TFModel"][0]
        return VU(tf.to_u(st, self.eng.eval(st, node.args[0])))

    def sp_tfcall_u(self, st, node):
        from .streams import _sp_tfcall
        v = _sp_tfcall(self, st, node)
        if isinstance(v, VStream):
            tf = [m for m in self.ext.models if type(m).__name__ == "TFModel"][0]
            return VU(tf.to_u(st, v))
        return v

    def sp_OBJECT_T(self, st, node):
        return VU(self.eng.strconst("<class object>"))

    def sp_None_U(self, st, node):
        return VU(NONE_U)

    def sp_ite_ms(self, st, node):
        eng = self.eng
        c = eng.truthy(st, eng.eval(st, node.args[0]))
        a = eng.eval(st, node.args[1])
        b = eng.eval(st, node.args[2])
        return VSpecTerm(z3.If(c, a.t, b.t))

    def sp_ite_u(self, st, node):
        eng = self.eng
        c = eng.truthy(st, eng.eval(st, node.args[0]))
        a = eng.coerce(st, eng.eval(st, node.args[1]), "U")
        b = eng.coerce(st, eng.eval(st, node.args[2]), "U")
        return VU(z3.If(c, a, b))

    def sp_ite_seq(self, st, node):
        eng = self.eng
        c = eng.truthy(st, eng.eval(st, node.args[0]))
        a = eng.eval(st, node.args[1])
        b = eng.eval(st, node.args[2])
        return type(a)(z3.If(c, a.t, b.t))

    def sp_optval(self, st, node):
        v = self.eng.eval(st, node.args[0])
        if isinstance(v, VOpt):
            return v.val
        if isinstance(v, VNone):
            return VInt(0)
        return v

    def sp_stream(self, st, node):
        v = self.eng.eval(st, node.args[0])
        return VStream(self.stream_model().stream_of(st, v))

    def _dict_order_facts(self, st, d):
        """the iteration order of a (finite) dict enumerates its key set:
        KSEQ(dom, i), i < KN(dom), is a bijection onto the keys (same facts
        as DictIterModel assumes when the dict is iterated); assumed once per
        key-set term"""
        from .models import KSEQ, KIDX, KN
        done = st.ghost.setdefault("__kfacts", set())
        if d.dom.get_id() in done:
            return
        done.add(d.dom.get_id())
        dom = d.dom
        n = KN(dom)
        i = z3.Const("i!dk", IntS)
        k = z3.Const("k!dk", U)
        st.assume(n >= 0)
        st.assume(z3.ForAll([i], z3.Implies(
            z3.And(0 <= i, i < n),
            z3.And(dom[KSEQ(dom, i)], KIDX(dom, KSEQ(dom, i)) == i))))
        st.assume(z3.ForAll([k], z3.Implies(dom[k], z3.And(
            0 <= KIDX(dom, k), KIDX(dom, k) < n,
            KSEQ(dom, KIDX(dom, k)) == k))))

    def sp_dictkey(self, st, node):
        """j-th key of a dict in iteration order"""
        from .models import KSEQ
        d = self.eng.eval(st, node.args[0])
        self._dict_order_facts(st, d)
        j = self.eng.eval(st, node.args[1]).t
        return VU(KSEQ(d.dom, j))

    def sp_allocated(self, st, node):
        """the reference denotes an object allocated so far"""
        v = self.eng.eval(st, node.args[0])
        return VBool(z3.And(v.t >= 1, v.t < st.next_ref))

    def sp_isdisk(self, st, node):
        from .engine import ISDISK
        v = self.eng.eval(st, node.args[0])
        return VBool(ISDISK(v.t))

    def sp_nullref(self, st, node):
        return VRef(z3.IntVal(0), node.args[0].value)

    def sp_dictidx(self, st, node):
        """position of a key in the iteration order of a dict"""
        from .models import KIDX
        d = self.eng.eval(st, node.args[0])
        self._dict_order_facts(st, d)
        k = self.eng.coerce(st, self.eng.eval(st, node.args[1]), "U")
        return VInt(KIDX(d.dom, k))

    def sp_dictlen(self, st, node):
        from .models import KN
        d = self.eng.eval(st, node.args[0])
        self._dict_order_facts(st, d)
        return VInt(KN(d.dom))

    def sp_digests_list(self, st, node):
        """the list value [HEX(alg_j, content, len(content))]_j"""
        from .models import HEX, FLEN
        eng = self.eng
        algs = eng.eval(st, node.args[0])
        content = eng.coerce(st, eng.eval(st, node.args[1]), "U")
        res = eng.fresh_list(st, "U", "digests")
        j = z3.Const("j!dl", IntS)
        st.assume(res.n == algs.n)
        st.assume(z3.ForAll([j], z3.Implies(z3.And(0 <= j, j < algs.n),
                                            res.arr[j] == HEX(algs.arr[j], content,
                                                              FLEN(content)))))
        return res

    def sp_lsum(self, st, node):
        """lsum(list, 'field'[, k]): sum of an int field over the first k
        (default: all) elements of a list of records, current heap"""
        from .models import SSUM
        eng = self.eng
        lst = eng.eval(st, node.args[0])
        fld = node.args[1].value
        key, shp = eng.field_key(lst.eshape[4:], fld)
        f = eng.heap_arr(st, key, IntS)
        k = eng.eval(st, node.args[2]).t if len(node.args) > 2 else lst.n
        return VInt(SSUM(f, lst.arr, k))

    def sp_EMPTY_LIST_U(self, st, node):
        return self.eng.empty_list(st, "U")

    def sp_EMPTY_LIST_REF(self, st, node):
        return self.eng.empty_list(st, "ref:" + node.args[0].value)

    def sp_NEW_OBJ(self, st, node):
        return self.eng.alloc(st, node.args[0].value)

    def sp_EMPTY_DICT_REF(self, st, node):
        vs = "ref:" + node.args[0].value
        return VDict(z3.K(U, z3.BoolVal(False)),
                     st.fresh("dval", z3.ArraySort(U, IntS)), vs)

    def sp_NEW_EMPTY_DICT(self, st, node):
        eng = self.eng
        r = eng.alloc(st, "DictObj")
        t = st.fresh("emptydict", U)
        st.assume(z3.Not(TRUTHY(t)))
        eng.store_field(st, r, "value", VU(t))
        return r

    def sp_EMPTY(self, st, node):
        return VSpecTerm(self.stream_model().EMPTY)

    def sp_EMPTYS(self, st, node):
        return VStream(self.stream_model().EMPTYS)

    _REFS = {"sl_ref": "ShardsList", "sli_ref": "ShardListInfo",
             "si_ref": "ShardInfo", "fi_ref": "FileInfo"}

    def sp_di_ref(self, st, node):
        return self._as_ref(st, node, "DatasetInfo")

    def sp_fxn(self, st, node):
        return st.ghost["FXN"]

    def sp_curver(self, st, node):
        from .models import CURVER
        return VU(CURVER)

    def sp_sl_ref(self, st, node):
        return self._as_ref(st, node, "ShardsList")

    def sp_sli_ref(self, st, node):
        return self._as_ref(st, node, "ShardListInfo")

    def sp_si_ref(self, st, node):
        return self._as_ref(st, node, "ShardInfo")

    def sp_fi_ref(self, st, node):
        return self._as_ref(st, node, "FileInfo")

    def _as_ref(self, st, node, cls):
        v = self.eng.eval(st, node.args[0])
        t = v.t if hasattr(v, "t") else None
        if t is None:
            raise self.E.Unsupported("ref cast")
        if t.sort() == U:
            t = self.stream_model().UNBOX(t)
        return VRef(t, cls)

    def sp_arr(self, st, node):
        v = self.eng.eval(st, node.args[0])
        if not isinstance(v, VList):
            raise self.E.Unsupported("arr() of a non-list")
        return VSpecTerm(v.arr)

    def sp_dstate(self, st, node):
        p = self.eng.coerce(st, self.eng.eval(st, node.args[0]), "U")
        return VInt(st.ghost["DSTATE"][p])

    def sp_path_inst(self, st, node):
        """path_inst(p, k[, m[, q]]): the conjunction of the ground instances
        of the path lemmas (PathModel2.lemma_axioms) at path p, index k,
        second index m (default k - 1), second path q (default p)"""
        from .models import PathModel2
        eng = self.eng
        vs = [eng.eval(st, a_) for a_ in node.args]
        p_ = eng.coerce(st, vs[0], "U")
        k_ = vs[1].t
        m_ = vs[2].t if len(vs) > 2 else None
        q_ = eng.coerce(st, vs[3], "U") if len(vs) > 3 else None
        i_ = vs[4].t if len(vs) > 4 else None
        pm = object.__new__(PathModel2)
        return VBool(PathModel2.path_inst(pm, p_, k_, m_, q_, i_))

    def sp_use_path(self, st, node):
        """use_path(p, k[, m[, q]]): same instance formula as path_inst;
        meant for the `lemmas` of a loop / antecedents (valid theory facts)"""
        return self.sp_path_inst(st, node)

    def sp_axinst(self, st, node):
        """axinst(F): F must be an instance of an (audited) theory axiom,
        built with path_inst.  As part of a goal it is an antecedent the
        solver may use; when the proved clause is assumed afterwards it
        counts as true (it is valid in the theory), so the clause is assumed
        without it."""
        if not (isinstance(node.args[0], ast.Call) and isinstance(
                node.args[0].func, ast.Name) and node.args[0].func.id in (
                    "path_inst", "and_")):
            ok = all(isinstance(n_, (ast.BoolOp, ast.Call, ast.Name,
                                     ast.Attribute, ast.Constant, ast.BinOp,
                                     ast.Subscript, ast.Load, ast.And,
                                     ast.Sub, ast.Add, ast.operator,
                                     ast.expr_context, ast.keyword))
                     for n_ in ast.walk(node.args[0]))
            tops = node.args[0].values if isinstance(
                node.args[0], ast.BoolOp) else [node.args[0]]
            if not ok or not all(isinstance(t_, ast.Call) and isinstance(
                    t_.func, ast.Name) and t_.func.id == "path_inst"
                    for t_ in tops):
                raise self.E.Unsupported("axinst() of something that is not "
                                         "a conjunction of path_inst(...)")
        if st.ghost.get("__axinst_off"):
            return VBool(True)
        return VBool(self.eng.truthy(st, self.eng.eval(st, node.args[0])))

    def sp_hidden(self, st, node):
        """hidden('NAME', formula): a propositional name for a (large)
        formula.  Obligations see only the name unless their clause starts
        with `reveal NAME:`; keeps quantifier-heavy hypotheses out of the
        queries that do not need them."""
        name = node.args[0].value
        hid = st.ghost.setdefault("__hidden", {})
        if name not in hid:
            f = self.eng.truthy(st, self.eng.eval(st, node.args[1]))
            hid[name] = (st.fresh("hid_" + name, z3.BoolSort()), f)
        return VBool(hid[name][0])

    def sp_cert(self, st, node):
        """cert(root, rel): ghost label of the list file rel under root"""
        r = self.eng.coerce(st, self.eng.eval(st, node.args[0]), "U")
        p = self.eng.coerce(st, self.eng.eval(st, node.args[1]), "U")
        return VBool(st.ghost["CERT"][r][p])

    def sp_galgs(self, st, node):
        """the (ghost) tuple of digest algorithms the invariant GINV is
        stated for; callers tie it to the dataset's configured tuple"""
        from .models import GALGS_ARR, GALGS_N
        st.assume(GALGS_N >= 0) if not st.ghost.get("__galgs") else None
        st.ghost["__galgs"] = True
        return VList(GALGS_ARR, GALGS_N, "U", None)

    def sp_disk_read(self, st, node):
        p = self.eng.coerce(st, self.eng.eval(st, node.args[0]), "U")
        return VU(st.ghost["DISK"][p])

    def sp_box(self, st, node):
        eng = self.eng
        v = eng.eval(st, node.args[0])
        return VU(self.stream_model().BOX(v.t))

    def sp_unbox(self, st, node):
        eng = self.eng
        v = eng.eval(st, node.args[0])
        cls = node.args[1].value
        return VRef(self.stream_model().UNBOX(eng.coerce(st, v, "U")), cls)

    def call_value(self, st, fv, node):
        eng = self.eng
        E = self.E
        if isinstance(fv, VFunc) and fv.t is not None:
            args, kwargs = eng.eval_args(st, node)
            if kwargs or len(args) != 1:
                raise E.Unsupported("opaque callable with != 1 positional arg")
            return self.apply_opaque(st, fv, args[0], node.lineno)
        if isinstance(fv, VRef):
            fc = eng.reg.find_method(fv.cls, "__call__")
            if fc is not None:
                args, kwargs = eng.eval_args(st, node)
                return self.apply_contract(st, fc, fv, args, kwargs,
                                           node.lineno)
        if isinstance(fv, VFunc) and isinstance(fv.bound, ast.Lambda):
            return self.ext.call_lambda(st, fv, node)
        if isinstance(fv, VFunc) and fv.bound is not None and fv.name:
            return self.call_method(st, fv.bound, fv.name, node)
        raise E.Unsupported(f"call of {fv!r} at line {node.lineno}")

    def apply_opaque(self, st, fv, arg, line):
        """Application of a caller-supplied function: may raise (Foreign)."""
        E = self.E
        eng = self.eng
        a = eng.coerce(st, arg, "U")
        if st.spec:
            return VU(APP(fv.t, a))
        if st.branch(APPFAILS(fv.t, a), f"app-fails@{line}"):
            st.ghost["__failed"] = True
            if getattr(eng.cur, "foreign_base", False) and st.branch(
                    st.fresh("raises_base", z3.BoolSort()),
                    f"app-raises-base@{line}"):
                # e.g. KeyboardInterrupt / SystemExit: not an Exception
                raise E.RaiseEx("ForeignBase", line, "callable raised a "
                                "BaseException that is not an Exception")
            raise E.RaiseEx("Foreign", line, "callable raised")
        self.ext.note_app(st, fv.t, a)
        return VU(APP(fv.t, a), tok=getattr(arg, "tok", None))

    def call_method(self, st, recv, name, node):
        eng = self.eng
        E = self.E
        if isinstance(recv, VList):
            h = getattr(self, "ml_" + name, None)
            if h is None:
                raise E.Unsupported(f"list.{name}")
            return h(st, recv, node)
        if isinstance(recv, VDict):
            h = getattr(self, "md_" + name, None)
            if h is None:
                raise E.Unsupported(f"dict.{name}")
            return h(st, recv, node)
        if isinstance(recv, VRef) and eng.reg.field_shape(recv.cls, name) in (
                "func", "optfunc"):
            fv = eng.getattr(st, recv, name, node.lineno)
            return self.call_value(st, fv, node)
        if isinstance(recv, VRef):
            r = self.ext.call_ref_method(st, recv, name, node)
            if r is not NotImplemented:
                return r
            fc = eng.reg.find_method(recv.cls, name)
            if fc is not None:
                args, kwargs = eng.eval_args(st, node)
                eng.require(st, recv.t != 0, "AttributeError", node.lineno)
                return self.apply_contract(st, fc, recv, args, kwargs,
                                           node.lineno)
            raise E.Unsupported(f"method {recv.cls}.{name} has no contract "
                                f"(line {node.lineno})")
        r = self.ext.call_other_method(st, recv, name, node)
        if r is not NotImplemented:
            return r
        raise E.Unsupported(f"method .{name} of {recv!r} at line "
                            f"{node.lineno}")

    # ---- list methods -------------------------------------------------
    def ml_append(self, st, lst, node):
        eng = self.eng
        eng.check_unshared(st, lst, node.lineno)
        v = eng.eval(st, node.args[0])
        new = eng.list_append(st, lst, v)
        eng.write_back(st, node.func.value, new)
        return VNone()

    def ml_extend(self, st, lst, node):
        eng = self.eng
        E = self.E
        eng.check_unshared(st, lst, node.lineno)
        src = eng.eval(st, node.args[0])
        if not isinstance(src, VList):
            raise E.Unsupported("extend with non-list")
        new = self.list_concat(st, lst, src)
        eng.write_back(st, node.func.value, new)
        return VNone()

    def list_concat(self, st, a: VList, b: VList) -> VList:
        eng = self.eng
        if getattr(a, "untyped", False) and a.eshape != b.eshape:
            a = eng.empty_list(st, b.eshape)
        if a.eshape != b.eshape:
            raise self.E.Unsupported("concat of lists of different shapes")
        sort = sort_of_shape(a.eshape)
        arr = st.fresh("cat_arr", z3.ArraySort(IntS, sort))
        i = z3.Const("i!cat", IntS)
        st.assume(z3.ForAll([i], z3.Implies(z3.And(0 <= i, i < a.n),
                                            arr[i] == a.arr[i])))
        st.assume(z3.ForAll([i], z3.Implies(z3.And(0 <= i, i < b.n),
                                            arr[a.n + i] == b.arr[i])))
        ms = None
        if a.ms is not None:
            ms = st.fresh("cat_ms", MS)
            x = z3.Const("x!cat", U)
            st.assume(z3.ForAll([x], ms[x] == a.ms[x] + b.ms[x]))
        new = VList(arr, z3.simplify(a.n + b.n), a.eshape, ms, lid=a.lid)
        new.concat_of = (a, b)
        return new

    # ---- dict methods -------------------------------------------------
    def md_get(self, st, d, node):
        eng = self.eng
        kv = eng.eval(st, node.args[0])
        k = eng.coerce(st, kv, "U")
        if getattr(kv, "maybe_unhashable", False):
            from .engine import HASHABLE
            eng.require(st, HASHABLE(k), "TypeError", node.lineno,
                        "unhashable dict key")
        default = eng.eval(st, node.args[1]) if len(node.args) > 1 else VNone()
        if d.val is None:
            return default
        if d.vshape == "int" and isinstance(default, (VInt, VBool)):
            return VInt(z3.If(d.dom[k], d.val[k], default.t))
        if st.branch(d.dom[k], f"dict.get@{node.lineno}"):
            return wrap(d.vshape, d.val[k])
        return default

    def md_values(self, st, d, node):
        return VFunc(name="values", bound=d)

    def md_items(self, st, d, node):
        return VFunc(name="items", bound=d)

    def md_keys(self, st, d, node):
        return VFunc(name="keys", bound=d)

    # ------------------------------------------------------------------
    # contract application (modular call)
    # ------------------------------------------------------------------
    def callee_signature(self, fc):
        from . import source as S
        eng = self.eng
        if fc.sig_names is not None:
            import ast as _a
            fake = _a.parse("def f(): pass").body[0]
            return list(fc.sig_names), [], {}, fake
        node, h, _ = S.get_function(eng.repo, fc.module, fc.qualname)
        a = node.args
        names = [p.arg for p in a.posonlyargs + a.args]
        defaults = {}
        pos = a.posonlyargs + a.args
        for p, d in zip(pos[len(pos) - len(a.defaults):], a.defaults):
            defaults[p.arg] = d
        kwonly = [p.arg for p in a.kwonlyargs]
        for p, d in zip(a.kwonlyargs, a.kw_defaults):
            if d is not None:
                defaults[p.arg] = d
        fc.callee_hash = h
        return names, kwonly, defaults, node

    def bind_call(self, st, fc, recv, args, kwargs, line):
        """Bind actual arguments to the callee's real signature (defaults are
        taken from the callee's source, so an omitted argument really means
        the declared default)."""
        eng = self.eng
        E = self.E
        names, kwonly, defaults, fnode = self.callee_signature(fc)
        env = {}
        pos = list(names)
        is_static = any(
            isinstance(d, ast.Name) and d.id in ("staticmethod",)
            for d in getattr(fnode, "decorator_list", []))
        if pos and pos[0] in ("self", "cls") and not is_static:
            env[pos[0]] = recv if recv is not None else VModule("cls")
            pos = pos[1:]
        elif pos and pos[0] == "cls":
            env["cls"] = VModule("cls")
            pos = pos[1:]
        if len(args) > len(pos):
            raise E.RaiseEx("TypeError", line, "too many positional args")
        for p, a in zip(pos, args):
            env[p] = a
        for k, v in kwargs.items():
            if k in env:
                raise E.RaiseEx("TypeError", line, f"duplicate arg {k}")
            if k not in pos and k not in kwonly:
                raise E.RaiseEx("TypeError", line, f"unexpected arg {k}")
            env[k] = v
        for p in pos + kwonly:
            if p not in env:
                if p in defaults:
                    env[p] = self.default_value(st, fc, p, defaults[p])
                else:
                    raise E.RaiseEx("TypeError", line, f"missing arg {p}")
        # conform to declared shapes (e.g. None passed for opt:int)
        for p, v in list(env.items()):
            shape = fc.params.get(p)
            if shape:
                env[p] = self.conform(st, v, shape, f"{fc.qualname}.{p}")
        return env

    def default_value(self, st, fc, pname, dnode):
        eng = self.eng
        if isinstance(dnode, ast.Constant):
            return eng.e_Constant(st, dnode)
        # computed default (os.cpu_count() ...): an unknown value of the shape
        shape = fc.params.get(pname)
        if shape is None:
            raise self.E.Unsupported(f"default of {fc.key}.{pname}")
        return eng.fresh_value(st, shape, "dflt_" + pname)

    def conform(self, st, v, shape, what):
        eng = self.eng
        E = self.E
        if shape.startswith("opt:"):
            inner = shape[4:]
            if isinstance(v, VNone):
                return VOpt(z3.BoolVal(True),
                            eng.fresh_value(st, inner, "nonev"))
            if isinstance(v, VOpt):
                return v
            return VOpt(z3.BoolVal(False), v)
        if shape in ("optU", "U") and isinstance(v, VNone):
            return VU(NONE_U)
        if shape in ("optfunc", "func"):
            if isinstance(v, VNone):
                return VFunc(t=NONE_U)
            if isinstance(v, VU):
                return VFunc(t=v.t)
            if isinstance(v, VFunc) and v.t is None:
                t = self.ext.func_term(st, v)
                return VFunc(t=t)
            return v
        if shape.startswith("optref:") and isinstance(v, VNone):
            return VRef(z3.IntVal(0), shape[7:])
        if shape == "int" and isinstance(v, VOpt):
            return v
        return v

    def apply_property_spec(self, st, pfc, obj):
        """In specifications a property reads as the value its getter
        contract fixes (`result is <expr>`)"""
        eng = self.eng
        for cl in pfc.ensures:
            t = cl.text.strip()
            if t.startswith("result is "):
                saved = st.locals
                st.locals = dict(saved)
                st.locals["self"] = obj
                try:
                    return eng.eval(st, eng.spec_parse(t[len("result is "):]))
                finally:
                    st.locals = saved
        raise self.E.Unsupported(f"property {pfc.key} in a specification")

    def apply_summary(self, st, fc, env, line):
        """Call of a generator function under contract: nothing runs until
        the result is consumed.  The result is a stream S with
        not FAILS(S) ==> S == <summary term> (and the summary's normal
        facts)."""
        eng = self.eng
        E = self.E
        sm = self.stream_model()
        summ = fc.summary
        saved_locals = st.locals
        st.locals = dict(env)
        try:
            for k, cl in enumerate(fc.requires):
                if "iterable" in cl.text and not summ.get("check_all"):
                    continue
                eng.oblige(st, f"pre({fc.qualname})", line,
                           eng.spec_bool(st, cl), cl.props or None,
                           label=str(k))
            for k, txt in enumerate(summ.get("requires", [])):
                eng.oblige(st, f"pre-summary({fc.qualname})", line,
                           eng.spec_bool(st, txt), None, label=str(k))
            if fc.decreases and eng.cur is not None and eng.cur.key == fc.key:
                callee_m = eng.spec_eval(st, fc.decreases).t
                st.locals = dict(saved_locals)
                caller_m = eng.spec_eval(st, fc.decreases).t
                st.locals = dict(env)
                eng.oblige(st, f"decreases({fc.qualname})", line,
                           z3.And(callee_m >= 0, callee_m < caller_m), None)
            S = st.fresh("S_" + fc.method_name, sm.STREAM)
            if summ.get("result") is None:
                out = VStream(S)
                out.elem = summ.get("elem", "U")
                return out
            term = eng.spec_eval(st, summ["result"])
            if summ.get("exact"):
                st.assume(S == term.t)
            else:
                st.assume(z3.Implies(z3.Not(sm.FAILS(S)), S == term.t))
            for txt in summ.get("normal", []):
                st.assume(z3.Implies(z3.Not(sm.FAILS(S)),
                                     eng.spec_bool(st, txt)))
            for txt in summ.get("always", []):
                st.assume(eng.spec_bool(st, txt))
            if "fails_only_if" in summ:
                st.assume(z3.Implies(sm.FAILS(S), eng.spec_bool(
                    st, summ["fails_only_if"])))
            out = VStream(S)
            out.elem = summ.get("elem", "U")
            return out
        finally:
            st.locals = saved_locals

    def apply_contract(self, st, fc, recv, args, kwargs, line, env=None):
        eng = self.eng
        E = self.E
        if env is None:
            env = self.bind_call(st, fc, recv, args, kwargs, line)
        if fc.generator and fc.summary:
            return self.apply_summary(st, fc, env, line)
        saved_locals = st.locals
        saved_ghost_result = st.ghost.get("result")
        saved_old = st.old
        caller = eng.cur
        if caller is not None and fc.method_name in caller.at_call:
            merged = dict(saved_locals)
            for k_, v_ in env.items():
                merged["callee_" + k_] = v_
                if k_ not in merged:
                    merged[k_] = v_
            st.locals = merged
            try:
                for k, cl in enumerate(caller.at_call[fc.method_name]):
                    eng.oblige(st, f"at-call({fc.method_name})", line,
                               eng.spec_bool(st, cl), cl.props, label=str(k))
            finally:
                st.locals = saved_locals
        if fc.decreases and caller is not None and caller.key == fc.key:
            # recursion: the measure decreases and stays non-negative
            st.locals = dict(env)
            callee_m = eng.spec_eval(st, fc.decreases).t
            st.locals = dict(saved_locals)
            for k_, v_ in (st.old["locals"] if st.old else {}).items():
                if v_ is not None:
                    st.locals[k_] = v_
            caller_m = eng.spec_eval(st, fc.decreases).t
            eng.oblige(st, f"decreases({fc.qualname})", line,
                       z3.And(callee_m >= 0, callee_m < caller_m), None)
        st.locals = dict(env)
        try:
            rv = Clause("True")
            rv.reveal = tuple((caller.call_reveal if caller is not None
                               else {}).get(fc.method_name, ()))
            for k, cl in enumerate(fc.requires):
                t_ = eng.spec_bool(st, cl)
                eng.oblige(st, f"pre({fc.qualname})", line, t_,
                           cl.props or None, label=str(k),
                           extra_hyps=eng.reveal_hyps(st, rv))
                eng.assume_clause(st, cl, t_)
            for m in fc.modifies:
                if not m.startswith("ghost:") and m != "*":
                    k_ = m.split("@")[0]
                    if not any(h == k_ or h.startswith(k_ + "#")
                               for h in st.heap):
                        shp = eng._shape_of_key(k_)
                        if shp is None:
                            raise E.Unsupported(f"unknown field {k_} in "
                                                f"modifies of {fc.key}")
                        eng._materialise(st, k_, shp)
            pre = st.snapshot()
            # frame
            heapkeys = []
            ghosts = []
            for m in fc.modifies:
                if m.startswith("ghost:"):
                    ghosts.append(m[6:])
                elif m == "*":
                    raise E.Unsupported(f"call to {fc.key} with frame *")
                else:
                    heapkeys.append(m.split("@")[0])
            # the callee may allocate (before the havoc: the facts about the
            # havocked fields are bounded by the NEW allocation frontier)
            nr = st.fresh("next_ref", IntS)
            st.assume(nr >= st.next_ref)
            st.next_ref = nr
            if heapkeys:
                eng.havoc_heap(st, heapkeys)
                self.frame_axioms(st, fc, pre)
            if fc.fs_effects is not None:
                ghosts = [g for g in ghosts if g != "fs"]
            self.havoc_ghosts(st, ghosts, False)
            if fc.fs_effects is not None:
                self.apply_fs_effects(st, fc)
            self.ext.call_effects(st, fc, env, pre)
            outcomes = ["normal"] + list(fc.raises.keys())
            site = (fc.qualname, line, tuple(st.decisions))
            c = st.choose(len(outcomes), f"call:{fc.qualname}@{line}") \
                if len(outcomes) > 1 else 0
            st.old = pre
            if c == 0:
                result = (eng.fresh_value(st, fc.returns,
                                          "ret_" + fc.method_name)
                          if fc.returns else VNone())
                st.ghost["result"] = result
                st.locals["result"] = result
                st.ghost["__axinst_off"] = True
                try:
                    for cl in fc.ensures:
                        if not cl.internal:
                            eng.assume_clause(st, cl, eng.spec_bool(st, cl))
                finally:
                    st.ghost["__axinst_off"] = False
                if not st.feasible(z3.BoolVal(True)):
                    # the callee cannot return normally here (legitimate when
                    # another outcome is feasible, e.g. __exit__ with an
                    # exception in flight; a call site with NO feasible
                    # outcome is reported by Engine.verify: vacuity guard)
                    eng.site_bad.setdefault(site, (fc.qualname, line))
                    raise E.PathEnd()
                eng.site_ok.add(site)
                return result
            exc = outcomes[c]
            for cl in fc.raises[exc]:
                st.assume(eng.spec_bool(st, cl))
            if not st.feasible(z3.BoolVal(True)):
                eng.site_bad.setdefault(site, (fc.qualname, line))
                raise E.PathEnd()       # this exceptional outcome is impossible here
            eng.site_ok.add(site)
            raise E.RaiseEx(exc, line, f"from {fc.qualname}")
        finally:
            st.locals = saved_locals
            st.old = saved_old
            st.ghost["result"] = saved_ghost_result

    def fs_effect_terms(self, st, fc, ds, disk):
        """Apply `fs_effects` = [(path, content|None[, cond])] functionally to
        (DSTATE, DISK), expressions evaluated in the current environment.
        Returns (ds', disk', paths with unspecified content)."""
        eng = self.eng
        unknown = []
        for eff in fc.fs_effects:
            pth = eng.coerce(st, eng.spec_eval(st, eff[0]), "U")
            cond = eng.spec_bool(st, eff[2]) if len(eff) > 2 else \
                z3.BoolVal(True)
            ds = z3.Store(ds, pth, z3.If(cond, z3.IntVal(2), ds[pth]))
            if eff[1] is None:
                c = st.fresh("content", U)
                unknown.append(pth)
            else:
                c = eng.coerce(st, eng.spec_eval(st, eff[1]), "U")
            disk = z3.Store(disk, pth, z3.If(cond, c, disk[pth]))
        return ds, disk, unknown

    def apply_fs_effects(self, st, fc):
        for m in self.ext.models:
            if type(m).__name__ == "DiskModel":
                m._facts(st)
        ds, disk, _ = self.fs_effect_terms(st, fc, st.ghost["DSTATE"],
                                           st.ghost["DISK"])
        st.ghost["DSTATE"] = ds
        st.ghost["DISK"] = disk
        st.ghost["FXN"] = VInt(st.ghost["FXN"].t + len(fc.fs_effects))

    def frame_axioms(self, st, fc, pre):
        """`Cls.f@expr` in modifies: only the component at reference `expr`
        may change."""
        eng = self.eng
        for m in fc.modifies:
            if "@" not in m or m.startswith("ghost:"):
                continue
            key, expr = m.split("@", 1)
            saved = st.heap
            st.heap = dict(pre["heap"])
            try:
                refs = []
                for e in expr.split("|"):
                    refs.append(eng.spec_eval(st, e).t)
            finally:
                st.heap = saved
            for k in list(st.heap):
                if k == key or k.startswith(key + "#"):
                    if k not in pre["heap"]:
                        continue
                    r = z3.Const("r!fa", IntS)
                    st.assume(z3.ForAll([r], z3.Implies(
                        z3.And([r != x for x in refs]),
                        st.heap[k][r] == pre["heap"][k][r])))

    # ------------------------------------------------------------------
    # builtins (code)
    # ------------------------------------------------------------------
    def b_super(self, st, node):
        eng = self.eng
        cur = eng.cur
        base = eng.reg.bases.get(cur.cls)
        if base is None or "self" not in st.locals:
            raise self.E.Unsupported("super() here")
        return VRef(st.locals["self"].t, base)

    def b_len(self, st, node):
        eng = self.eng
        v = eng.eval(st, node.args[0])
        if isinstance(v, VList):
            return VInt(v.n)
        if isinstance(v, VTuple):
            return VInt(len(v.items))
        r = self.ext.len_of(st, v, node.lineno)
        if r is not None:
            return r
        raise self.E.Unsupported(f"len of {v!r}")

    def b_iter(self, st, node):
        eng = self.eng
        E = self.E
        if len(node.args) == 2:
            return self.ext.iter_sentinel(st, node)
        v = eng.eval(st, node.args[0])
        if isinstance(v, VIter):
            return v
        if isinstance(v, VU):
            return self.iter_open(st, v, node.lineno)
        r = self.ext.iter_of(st, v, node.lineno)
        if r is not None:
            return r
        raise E.Unsupported(f"iter of {v!r}")

    def b_aiter(self, st, node):
        self.eng.used_assumptions.add("A-ASYNC")
        return self.b_iter(st, node)

    def b_next(self, st, node):
        eng = self.eng
        E = self.E
        if len(node.args) != 1:
            raise E.Unsupported("next with default")
        v = eng.eval(st, node.args[0])
        if isinstance(v, VIter):
            return self.next_flat(st, v, node.lineno)
        if isinstance(v, VU):
            return self.next_inner(st, v, node.lineno)
        r = self.ext.next_of(st, v, node.lineno)
        if r is not None:
            return r
        raise E.Unsupported(f"next of {v!r}")

    def b_anext(self, st, node):
        self.eng.used_assumptions.add("A-ASYNC")
        try:
            return self.b_next(st, node)
        except self.E.RaiseEx as ex:
            if ex.cls == "StopIteration":
                raise self.E.RaiseEx("StopAsyncIteration", ex.line, ex.info)
            raise

    def b_isinstance(self, st, node):
        eng = self.eng
        v = eng.eval(st, node.args[0])
        r = self.ext.isinstance_of(st, v, node.args[1], node.lineno)
        if r is not None:
            return r
        raise self.E.Unsupported(f"isinstance at line {node.lineno}")

    def b_max(self, st, node):
        eng = self.eng
        args = [eng.eval(st, a) for a in node.args]
        if len(args) == 2 and all(isinstance(a, (VInt, VBool)) for a in args):
            from .engine import _as_int
            x, y = _as_int(args[0]), _as_int(args[1])
            return VInt(z3.If(x >= y, x, y))
        raise self.E.Unsupported("max")

    def b_min(self, st, node):
        eng = self.eng
        args = [eng.eval(st, a) for a in node.args]
        if len(args) == 2 and all(isinstance(a, (VInt, VBool)) for a in args):
            from .engine import _as_int
            x, y = _as_int(args[0]), _as_int(args[1])
            return VInt(z3.If(x <= y, x, y))
        raise self.E.Unsupported("min")

    def b_int(self, st, node):
        eng = self.eng
        v = eng.eval(st, node.args[0])
        if isinstance(v, (VInt, VBool)):
            from .engine import _as_int
            return VInt(_as_int(v))
        if isinstance(v, VU):
            return VInt(z3.Function("UINT", U, IntS)(v.t))
        raise self.E.Unsupported("int() of non-int")

    def b_bytes(self, st, node):
        eng = self.eng
        v = eng.eval(st, node.args[0])
        if isinstance(v, VU):
            return VU(z3.Function("BYTESOF", U, U)(v.t))
        raise self.E.Unsupported("bytes() of this value")

    def b_bool(self, st, node):
        eng = self.eng
        v = eng.eval(st, node.args[0])
        return VBool(eng.truthy(st, v))

    def b_str(self, st, node):
        eng = self.eng
        v = eng.eval(st, node.args[0])
        return self.ext.str_of(st, v, node.lineno)

    def b_all(self, st, node):
        eng = self.eng
        v = eng.eval(st, node.args[0])
        if isinstance(v, VTuple):
            return VBool(z3.And([eng.truthy(st, x) for x in v.items] or
                                [z3.BoolVal(True)]))
        r = self.ext.all_any(st, v, True, node.lineno)
        if r is not None:
            return r
        raise self.E.Unsupported("all() of a non-tuple")

    def b_any(self, st, node):
        eng = self.eng
        v = eng.eval(st, node.args[0])
        if isinstance(v, VTuple):
            return VBool(z3.Or([eng.truthy(st, x) for x in v.items] or
                               [z3.BoolVal(False)]))
        r = self.ext.all_any(st, v, False, node.lineno)
        if r is not None:
            return r
        raise self.E.Unsupported("any() of a non-tuple")

    def b_list(self, st, node):
        eng = self.eng
        if not node.args:
            return eng.empty_list(st, None)
        v = eng.eval(st, node.args[0])
        if isinstance(v, VList):
            new = VList(v.arr, v.n, v.eshape, v.ms)
            return new
        r = self.ext.list_of(st, v, node.lineno)
        if r is not None:
            return r
        raise self.E.Unsupported(f"list() of {v!r}")

    def b_tuple(self, st, node):
        eng = self.eng
        v = eng.eval(st, node.args[0])
        r = self.ext.tuple_of(st, v, node.lineno)
        if r is not None:
            return r
        raise self.E.Unsupported(f"tuple() of {v!r}")

    def b_reversed(self, st, node):
        eng = self.eng
        v = eng.eval(st, node.args[0])
        return self.ext.reversed_of(st, v, node.lineno)

    # ------------------------------------------------------------------
    # spec builtins
    # ------------------------------------------------------------------
    def sp_old(self, st, node):
        eng = self.eng
        snap = st.old
        if snap is None:
            raise self.E.Unsupported("old() without a pre-state")
        cur = (st.locals, st.heap, st.ghost, st.out,
               {k: (v.pos, v.done) for k, v in st.iters.items()})
        # parameters keep their entry values; heap/ghost are the entry ones
        st.heap = dict(snap["heap"])
        oldg = dict(snap["ghost"])
        for k in ("result", "yielding"):
            if k in st.ghost:
                oldg[k] = st.ghost[k]
        st.ghost = oldg
        st.out = snap["out"]
        # parameters: entry bindings for names present in the pre-state
        loc = dict(st.locals)
        for k, v in snap["locals"].items():
            loc[k] = v
        st.locals = loc
        for k, (p, d) in snap["iters"].items():
            st.iters[k].pos, st.iters[k].done = p, d
        # ... and the allocation frontier is the entry one (allocated(x)
        # inside old() means: allocated on entry)
        cur_nr = st.next_ref
        if snap.get("next_ref") is not None:
            st.next_ref = snap["next_ref"]
        try:
            return eng.eval(st, node.args[0])
        finally:
            st.next_ref = cur_nr
            newheap = st.heap
            st.locals, st.heap, st.ghost, st.out = cur[0], cur[1], cur[2], cur[3]
            # arrays first materialised inside old() are entry arrays: keep
            for k, v in newheap.items():
                if k not in st.heap:
                    st.heap[k] = v
                    snap["heap"][k] = v
            for k, (p, d) in cur[4].items():
                st.iters[k].pos, st.iters[k].done = p, d

    def _quant(self, st, node, forall=True):
        eng = self.eng
        lam = node.args[0]
        if not isinstance(lam, ast.Lambda):
            raise self.E.Unsupported("forall needs a lambda")
        sorts = {}
        pats_src = None
        for kw in node.keywords:
            if kw.arg == "pats":
                pats_src = ast.literal_eval(kw.value)
            else:
                sorts[kw.arg] = kw.value.value
        names = [a.arg for a in lam.args.args]
        saved = dict(st.locals)
        vs = []
        # bound variables are named by nesting depth: an inner binder never
        # has the name of an enclosing one (no capture when macros nest), and
        # two evaluations of the same formula give the SAME term (needed to
        # recognise a goal that is literally an assumed formula)
        self._qdepth = getattr(self, "_qdepth", 0) + 1
        for n in names:
            shape = sorts.get(n, "int")
            sort = eng.sort_of(shape)
            c = z3.Const(f"{n}!q{self._qdepth}", sort)
            vs.append(c)
            st.locals[n] = self.spec_wrap(st, shape, c)
        try:
            body = eng.truthy(st, eng.eval(st, lam.body))
            pats = []
            for p in pats_src or []:
                items = p if isinstance(p, (list, tuple)) else [p]
                terms = []
                for it in items:
                    v = eng.eval(st, eng.spec_parse(it))
                    terms.append(v.ms if isinstance(v, VList) else v.t)
                pats.append(z3.MultiPattern(*terms) if len(terms) > 1
                            else terms[0])
        finally:
            st.locals = saved
            self._qdepth -= 1
        if forall:
            return VBool(z3.ForAll(vs, body, patterns=pats) if pats
                         else z3.ForAll(vs, body))
        return VBool(z3.Exists(vs, body))

    def sp_forall(self, st, node):
        return self._quant(st, node, True)

    def sp_exists(self, st, node):
        return self._quant(st, node, False)

    def sp_implies(self, st, node):
        eng = self.eng
        a = eng.truthy(st, eng.eval(st, node.args[0]))
        try:
            b = eng.truthy(st, eng.eval(st, node.args[1]))
        except (self.E.Unsupported, self.E.RaiseEx):
            # consequent not expressible in this state (e.g. a local that
            # does not exist on this path): provable only if the antecedent
            # is false
            b = st.fresh("undef", BoolS)
        return VBool(z3.Implies(a, b))

    def sp_iff(self, st, node):
        eng = self.eng
        a = eng.truthy(st, eng.eval(st, node.args[0]))
        b = eng.truthy(st, eng.eval(st, node.args[1]))
        return VBool(a == b)

    def sp_ite(self, st, node):
        eng = self.eng
        c = eng.truthy(st, eng.eval(st, node.args[0]))
        return eng.ite(st, c, eng.eval(st, node.args[1]),
                       eng.eval(st, node.args[2]))

    def sp_len(self, st, node):
        return self.b_len(st, node)

    def sp_min(self, st, node):
        return self.b_min(st, node)

    def sp_max(self, st, node):
        return self.b_max(st, node)

    def sp_truthy(self, st, node):
        eng = self.eng
        return VBool(eng.truthy(st, eng.eval(st, node.args[0])))

    def sp_is_none(self, st, node):
        eng = self.eng
        return VBool(eng.is_none(st, eng.eval(st, node.args[0])))

    def _iter_arg(self, st, node, i=0):
        eng = self.eng
        v = eng.eval(st, node.args[i])
        if not isinstance(v, VIter):
            raise self.E.Unsupported("expected an iterator parameter")
        return st.iters[v.iid]

    # multiset of a list / consumed prefix / whole source
    def sp_mset(self, st, node):
        eng = self.eng
        v = eng.eval(st, node.args[0])
        if isinstance(v, VList):
            if v.ms is None:
                raise self.E.Unsupported("mset of a non-U list")
            return VSpecTerm(v.ms)
        if isinstance(v, VSpecTerm):
            return v
        raise self.E.Unsupported("mset of this value")

    def sp_consumed(self, st, node):
        return VInt(self._iter_arg(st, node).pos)

    def sp_srclen(self, st, node):
        return VInt(self._iter_arg(st, node).n)

    def sp_infinite(self, st, node):
        return VBool(self._iter_arg(st, node).inf)

    def sp_failat(self, st, node):
        return VInt(self._iter_arg(st, node).failat)

    def sp_exhausted(self, st, node):
        return VBool(self._iter_arg(st, node).done)

    def sp_src(self, st, node):
        eng = self.eng
        it = self._iter_arg(st, node)
        i = eng.eval(st, node.args[1])
        return VU(it.seq[i.t])

    def sp_forstream(self, st, node):
        v = st.ghost.get("__forstream")
        if v is None:
            raise self.E.Unsupported("no stream-iterating loop")
        return v

    def sp_srcstream(self, st, node):
        it = self._iter_arg(st, node)
        s_ = getattr(it, "stream", None)
        if s_ is None:
            raise self.E.Unsupported("iterator without a source stream")
        return VStream(s_)

    def sp_pmset(self, st, node):
        """multiset of the first k elements of the source (default: consumed
        prefix)"""
        eng = self.eng
        it = self._iter_arg(st, node)
        k = eng.eval(st, node.args[1]).t if len(node.args) > 1 else it.pos
        return VSpecTerm(it.pms(k))

    def sp_count(self, st, node):
        eng = self.eng
        ms = eng.eval(st, node.args[0])
        x = eng.coerce(st, eng.eval(st, node.args[1]), "U")
        t = ms.ms if isinstance(ms, VList) else ms.t
        return VInt(t[x])

    def sp_ms_sum_eq(self, st, node):
        """ms_sum_eq(a, b, c): a (+) b == c pointwise"""
        eng = self.eng
        ts = []
        for a in node.args:
            v = eng.eval(st, a)
            ts.append(v.ms if isinstance(v, VList) else v.t)
        x = z3.Const("x!ms", U)
        return VBool(z3.ForAll([x], ts[0][x] + ts[1][x] == ts[2][x]))

    def sp_ms_eq(self, st, node):
        eng = self.eng
        ts = []
        for a in node.args:
            v = eng.eval(st, a)
            ts.append(v.ms if isinstance(v, VList) else v.t)
        x = z3.Const("x!ms", U)
        return VBool(z3.ForAll([x], ts[0][x] == ts[1][x]))

    def sp_ms_le(self, st, node):
        eng = self.eng
        ts = []
        for a in node.args:
            v = eng.eval(st, a)
            ts.append(v.ms if isinstance(v, VList) else v.t)
        x = z3.Const("x!ms", U)
        return VBool(z3.ForAll([x], ts[0][x] <= ts[1][x]))

    # inner-iterable ghosts
    def sp_ipos(self, st, node):
        self._inner_axioms(st)
        eng = self.eng
        u = eng.coerce(st, eng.eval(st, node.args[0]), "U")
        return VInt(st.ghost["IPOS"][u])

    def sp_iopen(self, st, node):
        self._inner_axioms(st)
        eng = self.eng
        u = eng.coerce(st, eng.eval(st, node.args[0]), "U")
        return VBool(st.ghost["IOPEN"][u])

    def sp_iseq(self, st, node):
        eng = self.eng
        u = eng.coerce(st, eng.eval(st, node.args[0]), "U")
        k = eng.eval(st, node.args[1]).t
        return VU(ISEQ(u, k))

    def sp_ilen(self, st, node):
        eng = self.eng
        u = eng.coerce(st, eng.eval(st, node.args[0]), "U")
        return VInt(ILEN(u))

    def sp_iinf(self, st, node):
        eng = self.eng
        u = eng.coerce(st, eng.eval(st, node.args[0]), "U")
        return VBool(IINF(u))

    def sp_ifail(self, st, node):
        eng = self.eng
        u = eng.coerce(st, eng.eval(st, node.args[0]), "U")
        return VInt(IFAIL(u))

    def sp_ycount(self, st, node):
        self._inner_axioms(st)
        eng = self.eng
        u = eng.coerce(st, eng.eval(st, node.args[0]), "U")
        p = eng.eval(st, node.args[1]).t
        return VInt(st.ghost["YC"][u][p])

    def _frame_vs(self, st, node, snap):
        """frame_*('Cls.f', r1, r2, ...): heap component Cls.f is unchanged
        w.r.t. the snapshot except at the listed references."""
        eng = self.eng
        key = node.args[0].value
        refs = [eng.eval(st, a).t for a in node.args[1:]]
        conj = []
        r = z3.Const("r!fs", IntS)
        found = False
        for k in list(st.heap):
            if k == key or k.startswith(key + "#"):
                found = True
                if snap is None or k not in snap["heap"]:
                    continue
                cur, old = st.heap[k], snap["heap"][k]
                if cur is old or z3.eq(cur, old):
                    continue
                conj.append(z3.ForAll([r], z3.Implies(
                    z3.And([r != x for x in refs] + [r >= 0]),
                    cur[r] == old[r])))
        return VBool(z3.And(conj) if conj else z3.BoolVal(True))

    def sp_frame_loop(self, st, node):
        return self._frame_vs(st, node, st.ghost.get("__loop_entry"))

    def sp_frame_old(self, st, node):
        return self._frame_vs(st, node, st.old)

    def sp_APPLY(self, st, node):
        eng = self.eng
        f = eng.eval(st, node.args[0])
        x = eng.coerce(st, eng.eval(st, node.args[1]), "U")
        return VU(APP(f.t, x))

    def sp_old_next_ref(self, st, node):
        return VInt(st.old["next_ref"])

    def sp_fresh(self, st, node):
        eng = self.eng
        v = eng.eval(st, node.args[0])
        # allocated during this call: at or above the entry frontier and
        # below the current one
        return VBool(z3.And(v.t >= st.old["next_ref"], v.t < st.next_ref))

    def sp_failed(self, st, node):
        return VBool(bool(st.ghost.get("__failed")))


class VSpecTerm(V):
    """A raw z3 term that only exists in specifications (multiset, seq..)."""

    def __init__(self, t):
        self.t = t
