"""Shared helpers of the concrete stage (run under /venv/bin/python)."""
from __future__ import annotations
import asyncio
import collections
import contextlib
import json
import os
import random
import shutil
import tempfile
import threading
from pathlib import Path

os.environ.setdefault("TF_CPP_MIN_LOG_LEVEL", "3")
os.environ.setdefault("CUDA_VISIBLE_DEVICES", "")

import numpy as np  # noqa: E402


def sedpack_io():
    import sedpack.io as sio
    return sio


@contextlib.contextmanager
def tmpdir():
    d = tempfile.mkdtemp(prefix="sedpack_verif_")
    try:
        yield Path(d)
    finally:
        shutil.rmtree(d, ignore_errors=True)


def mk_dataset(path, fmt="fb", compression="", eps=2, hashes=("sha256",),
               attrs=None):
    from sedpack.io import Dataset, Metadata, DatasetStructure, Attribute
    if attrs is None:
        attrs = [Attribute(name="id", dtype="int64", shape=()),
                 Attribute(name="v", dtype="float32", shape=(3,))]
    ds = DatasetStructure(saved_data_description=attrs, compression=compression,
                          examples_per_shard=eps, shard_file_type=fmt,
                          hash_checksum_algorithms=tuple(hashes))
    return Dataset.create(path, Metadata(description="verif"), ds)


def example(i):
    return {"id": np.int64(i), "v": np.array([i, i + 0.5, -i], np.float32)}


def ex_id(e):
    v = e["id"]
    try:
        return int(np.asarray(v).reshape(-1)[0])
    except Exception:  # noqa: BLE001
        return int(v)


def fill(dataset, ids, split="train", metadata=None, rel=None):
    """One filler session.  metadata: list parallel to ids or None."""
    from sedpack.io.dataset_filler import DatasetFiller
    f = DatasetFiller(dataset, relative_path_from_split=Path(rel)) if rel \
        else dataset.filler()
    with f as filler:
        for k, i in enumerate(ids):
            md = metadata[k] if metadata else None
            filler.write_example(values=example(i), split=split,
                                 custom_metadata=md)


INTERFACES = ["numpy", "concurrent", "async", "rust", "tf"]


def iterate(dataset, interface, split="train", limit=None, timeout=120,
            **kw):
    """Run one pass (repeat=False unless given) and return the list of ids.
    A watchdog turns a hang into TimeoutError."""
    kw.setdefault("repeat", False)
    kw.setdefault("shuffle", 0)
    res = {}

    def run():
        try:
            out = []
            if interface == "numpy":
                kw.pop("file_parallelism", None)
                it = dataset.as_numpy_iterator(split=split, **kw)
                for e in it:
                    out.append(ex_id(e))
                    if limit and len(out) >= limit:
                        break
            elif interface == "concurrent":
                it = dataset.as_numpy_iterator_concurrent(split=split, **kw)
                for e in it:
                    out.append(ex_id(e))
                    if limit and len(out) >= limit:
                        break
            elif interface == "rust":
                kw.pop("custom_metadata_type_limit", None)
                it = dataset.as_numpy_iterator_rust(split=split, **kw)
                for e in it:
                    out.append(ex_id(e))
                    if limit and len(out) >= limit:
                        break
            elif interface == "async":
                kw.pop("custom_metadata_type_limit", None)

                async def go():
                    async for e in dataset.as_numpy_iterator_async(
                            split=split, **kw):
                        out.append(ex_id(e))
                        if limit and len(out) >= limit:
                            break
                asyncio.run(go())
            elif interface == "tf":
                kw.setdefault("batch_size", 0)
                ds = dataset.as_tfdataset(split=split, **kw)
                for e in ds.as_numpy_iterator():
                    out.append(ex_id(e))
                    if limit and len(out) >= limit:
                        break
            res["out"] = out
        except BaseException as e:  # noqa: BLE001
            res["exc"] = e

    t = threading.Thread(target=run, daemon=True)
    t.start()
    t.join(timeout)
    if t.is_alive():
        raise TimeoutError(f"{interface} did not finish within {timeout}s")
    if "exc" in res:
        raise res["exc"]
    return res["out"]


# ---- independent oracle: walk the metadata tree from the JSON files ---------
def tree_shards(root: Path, split: str):
    """[(shard_info_dict, list_rel_path)] depth first, own shards first."""
    info = json.loads((root / "dataset_info.json").read_text())
    sli = info["splits"].get(split)
    if sli is None:
        return []
    out = []

    def walk(rel):
        doc = json.loads((root / rel).read_text())
        for s in doc.get("shard_files", []):
            out.append((s, rel))
        for c in doc.get("children_shard_lists", []):
            walk(c["shard_list_info_file"]["file_path"])
    walk(sli["shard_list_info_file"]["file_path"])
    return out


def shard_ids(dataset, shard_path: Path):
    """ids stored in one shard file, decoded with the matching reader."""
    from sedpack.io.flatbuffer import IterateShardFlatBuffer
    from sedpack.io.npz import IterateShardNP
    from sedpack.io.tfrec import IterateShardTFRec
    t = dataset.dataset_structure.shard_file_type
    cls = {"fb": IterateShardFlatBuffer, "npz": IterateShardNP,
           "tfrec": IterateShardTFRec}[t]
    r = cls(dataset_structure=dataset.dataset_structure, process_record=None)
    return [ex_id(e) for e in r.iterate_shard(shard_path)]


def select_reference(shards, k=None, n=None, pred=None):
    """The declarative selection of C12 on (shard_info_dict, rel) pairs."""
    s1 = [s for s in shards if pred is None or pred(s[0])]
    if not s1:
        raise ValueError("empty selection")
    s2 = s1[:k] if k else s1
    if n:
        counts = collections.Counter()
        s3 = []
        for s in s2:
            key = json.dumps(s[0].get("custom_metadata", {}), sort_keys=True)
            counts[key] += 1
            if counts[key] <= n:
                s3.append(s)
    else:
        s3 = s2
    return s3


def result(check, ok, function=None, evaluations=1, witness=None, bound="",
           finding_key=None):
    r = {"check": check, "ok": bool(ok), "evaluations": evaluations,
         "bound": bound}
    if function:
        r["function"] = function
    if witness is not None:
        r["witness"] = witness
    if finding_key:
        r["finding_key"] = finding_key
    return r
