"""Bounded run-time checks of the metadata / file-system contracts on the real
code: audit of the shard-list tree after random session histories (C04, C08),
tamper matrix against check() (C05), crash-point snapshots (C06), real
multi-process writers (C09), digests against independent implementations
(C16), hostile paths (C17), reopen / relocate / version gate (C20)."""
from __future__ import annotations
import builtins
import collections
import hashlib
import io
import json
import numpy as np
import os
import pathlib
import random
import shutil
import subprocess
import sys
import time
from pathlib import Path

from . import common as C

EXT = {"fb": ".fb", "npz": ".npz", "tfrec": ".tfrec"}


# --------------------------------------------------------------------------
# independent audit of a dataset directory (json + the shard readers only)
# --------------------------------------------------------------------------
def audit_tree(root: Path, dataset=None, expected=None):
    """Returns a list of problems (empty = exact).  expected: split -> list
    of ids (multiset) or None."""
    from sedpack.io import Dataset
    problems = []
    info = json.loads((root / "dataset_info.json").read_text())
    d = Dataset(root)
    listed = collections.Counter()
    for split, sli in info["splits"].items():
        def walk(entry, depth=0):
            rel = Path(entry["shard_list_info_file"]["file_path"])
            if rel.name != "shards_list.json":
                problems.append(f"{rel}: not a shards_list.json")
            doc = json.loads((root / rel).read_text())
            n_ex = 0
            n_sh = 0
            for s in doc.get("shard_files", []):
                n_sh += 1
                fp = Path(s["file_infos"][0]["file_path"])
                listed[str(fp)] += 1
                if fp.parent != rel.parent:
                    problems.append(f"{fp} listed by {rel} is not in its "
                                    f"directory")
                if not (root / fp).is_file():
                    problems.append(f"{fp} listed but missing")
                    continue
                try:
                    real = len(C.shard_ids(d, root / fp))
                except Exception as e:  # noqa: BLE001
                    problems.append(f"{fp} undecodable: {e!r}"[:200])
                    continue
                rec = s.get("number_of_examples", 0)
                if real != rec:
                    problems.append(f"{fp}: recorded {rec} examples, "
                                    f"decodable {real}")
                n_ex += rec
            for c in doc.get("children_shard_lists", []):
                ce, cs = walk(c, depth + 1)
                if c.get("number_of_examples", 0) != ce:
                    problems.append(f"{rel}: child entry "
                                    f"{c['shard_list_info_file']['file_path']}"
                                    f" says {c.get('number_of_examples', 0)} "
                                    f"examples, child holds {ce}")
                if c.get("number_of_shards", 0) != cs:
                    problems.append(f"{rel}: child entry shard count "
                                    f"{c.get('number_of_shards', 0)} != {cs}")
                n_ex += ce
                n_sh += cs
            if doc.get("number_of_examples", 0) != n_ex:
                problems.append(f"{rel}: total {doc.get('number_of_examples', 0)}"
                                f" != sum {n_ex}")
            return n_ex, n_sh
        te, ts = walk(sli)
        if sli.get("number_of_examples", 0) != te:
            problems.append(f"split {split}: recorded "
                            f"{sli.get('number_of_examples', 0)} examples, "
                            f"true {te}")
        if sli.get("number_of_shards", 0) != ts:
            problems.append(f"split {split}: recorded "
                            f"{sli.get('number_of_shards', 0)} shards, true {ts}")
    for fp, n in listed.items():
        if n > 1:
            problems.append(f"{fp} listed {n} times")
    ext = EXT[info["dataset_structure"]["shard_file_type"]]
    for p in root.rglob("*" + ext):
        rel = str(p.relative_to(root))
        if rel not in listed:
            problems.append(f"{rel} on disk but not listed")
    if dataset is not None:
        mem = json.loads(dataset._dataset_info.model_dump_json())
        if mem != info:
            problems.append("in-memory description differs from disk")
    if expected is not None:
        for split, ids in expected.items():
            if not ids and split not in info["splits"]:
                continue
            try:
                got = C.iterate(d, "numpy", split)
            except Exception as e:  # noqa: BLE001
                problems.append(f"iteration of {split} failed: {e!r}"[:200])
                continue
            if collections.Counter(got) != collections.Counter(ids):
                problems.append(f"split {split}: content differs: missing "
                                f"{sorted((collections.Counter(ids) - collections.Counter(got)).elements())[:10]} "
                                f"extra {sorted((collections.Counter(got) - collections.Counter(ids)).elements())[:10]}")
    return problems


def _multi(dataset, groups_by_split, single_process=True):
    """multi-writer call; groups_by_split: list (one per writer) of
    {split: [ids]}"""
    return dataset.write_multiprocessing(
        feed_writer=_feed, custom_arguments=[(g,) for g in groups_by_split],
        single_process=single_process, consistency_check=True)


def _feed(filler, groups):
    n = 0
    with filler as f:
        for split, ids in groups.items():
            for i in ids:
                f.write_example(values=C.example(i), split=split)
                n += 1
    return n


def random_history(rnd, nsessions):
    """A list of session descriptions."""
    dirs = ["sub", "sub/deeper", "part1", "part10", "a", "a/b", "2024/01",
            "2024/02"]
    hist = []
    for _ in range(nsessions):
        kind = rnd.choice(["root", "root", "dir", "dir", "dir", "multi",
                           "deferred"])
        splits = rnd.sample(["train", "test", "holdout"], rnd.randint(1, 2))
        s = {"kind": kind, "reopen": rnd.random() < 0.5}
        if kind == "dir":
            s["dir"] = rnd.choice(dirs)
        if kind == "deferred":
            nw = rnd.randint(1, 3)
            s["writers"] = [{"dir": rnd.choice(dirs), "counts": {
                sp: rnd.randint(0, 3) for sp in splits}} for _ in range(nw)]
            s["order"] = rnd.sample(range(nw), nw)
        elif kind == "multi":
            s["writers"] = [
                {sp: rnd.randint(0, 4) for sp in rnd.sample(
                    splits, rnd.randint(1, len(splits)))}
                for _ in range(rnd.randint(1, 3))]
        else:
            s["counts"] = {sp: rnd.randint(0, 5) for sp in splits}
        hist.append(s)
    return hist


def run_history(root, hist, fmt="fb", eps=2, real_processes=False,
                hashes=("sha256",)):
    """Runs the sessions; after each one audits the tree.  Returns
    (problems, session index) of the first failing session or ([], None)."""
    from sedpack.io import Dataset
    d = C.mk_dataset(root, fmt, "", eps=eps, hashes=hashes)
    expected = collections.defaultdict(list)
    pending = {}
    nxt = [0]

    def fresh(n):
        ids = list(range(nxt[0], nxt[0] + n))
        nxt[0] += n
        return ids
    for k, s in enumerate(hist):
        if s["reopen"]:
            d = Dataset(root)
        if s["kind"] != "aborted":
            touched = set(s.get("counts", {}))
            for w in s.get("writers", []):
                touched |= set(w.get("counts", w) if isinstance(w, dict) else ())
            for sp in list(pending):
                if sp in touched:
                    expected[sp].extend(pending.pop(sp))
        try:
            if s["kind"] == "multi":
                groups = []
                for w in s["writers"]:
                    g = {sp: fresh(n) for sp, n in w.items()}
                    for sp, ids in g.items():
                        expected[sp].extend(ids)
                    groups.append(g)
                res = _multi(d, groups, single_process=not real_processes)
                if res != [sum(len(v) for v in g.values()) for g in groups]:
                    return [f"multi-writer results {res} not in argument "
                            f"order"], k
            elif s["kind"] == "aborted":
                # a writer that is killed before DatasetFiller.__exit__: the
                # shards it closed are on disk and in its directory's list,
                # the dataset description has not heard of them yet.  They
                # become part of the dataset with the next session that
                # merges this split (the session after this one must write
                # the same split).
                from sedpack.io.dataset_filler import DatasetFiller
                f = DatasetFiller(d, relative_path_from_split=Path(s["dir"]))
                filler = f.__enter__()
                sp, n = s["split"], s["count"]
                ids = fresh(n)
                for i in ids:
                    filler.write_example(values=C.example(i), split=sp)
                closed = (n // eps) * eps if n % eps else n - eps
                pending.setdefault(sp, []).extend(ids[:max(0, closed)])
                del filler, f          # no __exit__
                continue               # nothing to audit: not a completed session
            elif s["kind"] == "deferred":
                # fillers that do not update the dataset themselves; their
                # infos are handed to write_config later, one call per filler
                # in the given order (an info may be stale by then: a later
                # filler extended the same list file)
                from sedpack.io.dataset_filler import DatasetFiller
                infos = []
                for w in s["writers"]:
                    f = DatasetFiller(d, relative_path_from_split=Path(w["dir"]),
                                      auto_update_dataset=False)
                    with f as filler:
                        for sp, n in w["counts"].items():
                            for i in fresh(n):
                                expected[sp].append(i)
                                filler.write_example(values=C.example(i),
                                                     split=sp)
                    infos.append(f.get_updated_infos())
                for j in s["order"]:
                    d.write_config(updated_infos=infos[j])
            else:
                from sedpack.io.dataset_filler import DatasetFiller
                f = DatasetFiller(d, relative_path_from_split=Path(s["dir"])) \
                    if s["kind"] == "dir" else d.filler()
                with f as filler:
                    for sp, n in s["counts"].items():
                        for i in fresh(n):
                            expected[sp].append(i)
                            filler.write_example(values=C.example(i), split=sp)
        except Exception as e:  # noqa: BLE001
            return [f"session raised {e!r}"[:300]], k
        problems = audit_tree(root, d, expected)
        # the handle that was kept (and has iterated before) delivers what a
        # fresh open delivers
        for sp in expected:
            try:
                kept = sorted(C.iterate(d, "numpy", sp))
            except Exception as e:  # noqa: BLE001
                kept = repr(e)[:120]
            if expected[sp] and kept != sorted(expected[sp]):
                problems.append(f"{sp}: the kept handle delivers {kept}, "
                                f"written so far {sorted(expected[sp])}")
        try:
            Dataset(root).check(show_progressbar=False)
        except Exception as e:  # noqa: BLE001
            problems.append(f"check() failed after a completed session: "
                            f"{e!r}"[:200])
        if problems:
            return problems, k
    return [], None


FIXED_HISTORIES = [
    # reused sub-directory (F2), nested reuse, prefix-named siblings, root after multi
    [{"kind": "dir", "dir": "sub", "counts": {"train": 3}, "reopen": False},
     {"kind": "dir", "dir": "sub", "counts": {"train": 2}, "reopen": True},
     {"kind": "root", "counts": {"train": 1}, "reopen": False}],
    [{"kind": "dir", "dir": "a", "counts": {"train": 2}, "reopen": False},
     {"kind": "dir", "dir": "a/b", "counts": {"train": 3}, "reopen": False},
     {"kind": "dir", "dir": "a", "counts": {"train": 1}, "reopen": True}],
    [{"kind": "dir", "dir": "part1", "counts": {"train": 2}, "reopen": False},
     {"kind": "dir", "dir": "part10", "counts": {"train": 2}, "reopen": False},
     {"kind": "dir", "dir": "part10", "counts": {"train": 1}, "reopen": True}],
    [{"kind": "multi", "writers": [{"train": 3}, {"test": 2}], "reopen": False},
     {"kind": "root", "counts": {"train": 2, "test": 1}, "reopen": True},
     {"kind": "multi", "writers": [{"test": 2}], "reopen": False},
     {"kind": "multi", "writers": [{"test": 1, "train": 1}], "reopen": True}],
    [{"kind": "dir", "dir": "2024/01", "counts": {"train": 2}, "reopen": False},
     {"kind": "dir", "dir": "2024/02", "counts": {"train": 2}, "reopen": False},
     {"kind": "root", "counts": {"train": 1}, "reopen": False}],
    [{"kind": "multi", "writers": [{"train": 2}], "reopen": False},
     {"kind": "dir", "dir": "sub", "counts": {"train": 2}, "reopen": False},
     {"kind": "root", "counts": {"train": 3}, "reopen": True}],
    # a writer killed after closing a shard; the next session (other directory,
    # same split) must leave every recorded checksum right
    [{"kind": "dir", "dir": "part_a", "counts": {"train": 3}, "reopen": False},
     {"kind": "aborted", "dir": "part_a", "split": "train", "count": 3, "reopen": True},
     {"kind": "dir", "dir": "part_b", "counts": {"train": 2}, "reopen": True},
     {"kind": "root", "counts": {"train": 1, "test": 1}, "reopen": False}],
    # deferred updates: two fillers on the same directory, the older (by then
    # stale) info is committed last; nested directories committed child first
    [{"kind": "deferred", "reopen": False, "order": [1, 0], "writers": [
        {"dir": "part", "counts": {"train": 2}},
        {"dir": "part", "counts": {"train": 3}}]},
     {"kind": "root", "counts": {"train": 1}, "reopen": True}],
    [{"kind": "deferred", "reopen": False, "order": [1, 0, 2], "writers": [
        {"dir": "a", "counts": {"train": 2, "test": 1}},
        {"dir": "a/b", "counts": {"train": 3}},
        {"dir": "a", "counts": {"train": 1}}]}],
    # every writer of a multi-writer call fills several splits: the updates
    # arrive interleaved by split (train, test, train, test, holdout, ...)
    [{"kind": "multi", "reopen": False, "writers": [
        {"train": 3, "test": 3}, {"train": 2, "test": 3, "holdout": 1},
        {"test": 1, "train": 4}]},
     {"kind": "root", "counts": {"train": 1, "holdout": 2}, "reopen": True},
     {"kind": "multi", "reopen": False, "writers": [
        {"holdout": 2, "train": 2}, {"holdout": 3, "train": 1}]}],
]


def check_histories(ctx):
    """C04 / C08: metadata exact and append-only after every session of
    fixed and random histories."""
    rnd = random.Random(ctx["seed"] + 7)
    tier = ctx["tier"]
    n_random = 6 if tier == "quick" else 60
    bad = None
    n_eval = 0
    with C.tmpdir() as tmp:
        hists = list(FIXED_HISTORIES) + [random_history(rnd, rnd.randint(2, 5))
                                         for _ in range(n_random)]
        for hi, h in enumerate(hists):
            fmt = "fb" if tier == "quick" or hi % 3 == 0 else \
                ("npz" if hi % 3 == 1 else "tfrec")
            n_eval += len(h)
            # every other history without recorded checksums (legal, and
            # then nothing but the file content tells two versions apart)
            hashes = () if hi % 2 else ("sha256",)
            problems, k = run_history(tmp / f"h{hi}", h, fmt, hashes=hashes)
            if problems:
                bad = dict(history=h, failing_session=k, format=fmt,
                           hash_checksum_algorithms=list(hashes),
                           problems=problems[:6])
                break
        if bad is None and tier != "quick":
            h = FIXED_HISTORIES[3]
            problems, k = run_history(tmp / "real", h, "fb",
                                      real_processes=True)
            n_eval += len(h)
            if problems:
                bad = dict(history=h, failing_session=k,
                           real_processes=True, problems=problems[:6])
    out = [C.result(
        "after every completed session: per-shard counts = decodable counts, "
        "list totals, child entries, split totals, every listed file in its "
        "list's directory, nothing listed twice or unlisted, memory == disk, "
        "check() passes, content = previous content + new examples",
        bad is None, function="merge_shard_infos", evaluations=n_eval,
        witness=bad, bound=f"{len(FIXED_HISTORIES)} fixed + {n_random} random "
                           f"histories of 2..5 sessions")]
    # creating over an existing dataset is refused and changes nothing
    from sedpack.io import Dataset, Metadata, DatasetStructure
    from sedpack.io.errors import DatasetExistsError
    with C.tmpdir() as tmp:
        root = tmp / "exists"
        d = C.mk_dataset(root, "fb", "", eps=2)
        C.fill(d, range(3), "train")
        before = {str(p.relative_to(root)): p.read_bytes()
                  for p in root.rglob("*") if p.is_file()}
        refused = False
        try:
            Dataset.create(root, Metadata(description="other"),
                           DatasetStructure())
        except DatasetExistsError:
            refused = True
        except Exception:  # noqa: BLE001
            refused = False
        after = {str(p.relative_to(root)): p.read_bytes()
                 for p in root.rglob("*") if p.is_file()}
        out.append(C.result("Dataset.create over an existing dataset is "
                            "refused and changes nothing",
                            refused and before == after,
                            function="Dataset.create",
                            witness=None if refused and before == after else
                            dict(refused=refused,
                                 changed=sorted(set(before) ^ set(after)))))
        # the same directory spelled differently ('~', relative, trailing
        # components) is the same dataset: creation is refused as well
        import os as _os
        old_home, old_cwd = _os.environ.get("HOME"), _os.getcwd()
        bad = None
        try:
            _os.environ["HOME"] = str(tmp)
            _os.chdir(tmp)
            for spelled in ("~/exists", "exists", "./exists", "exists/../exists",
                            str(root) + "/"):
                ok = False
                try:
                    Dataset.create(Path(spelled), Metadata(description="x"),
                                   DatasetStructure())
                except DatasetExistsError:
                    ok = True
                except Exception:  # noqa: BLE001
                    ok = False
                now = {str(p.relative_to(root)): p.read_bytes()
                       for p in root.rglob("*") if p.is_file()}
                if not ok or now != before:
                    bad = dict(spelled=spelled, refused=ok,
                               changed=sorted(k for k in set(before) | set(now)
                                              if before.get(k) != now.get(k))[:5])
                    break
        finally:
            _os.chdir(old_cwd)
            if old_home is None:
                _os.environ.pop("HOME", None)
            else:
                _os.environ["HOME"] = old_home
        out.append(C.result("Dataset.create is refused for every spelling of "
                            "an existing dataset's directory ('~', relative, "
                            "'..')", bad is None, function="Dataset.create",
                            evaluations=5, witness=bad))
    return out


# --------------------------------------------------------------------------
def _committed_dataset(root, hashes, fmt="fb"):
    from sedpack.io import Dataset
    d = C.mk_dataset(root, fmt, "", eps=2, hashes=hashes)
    C.fill(d, range(0, 5), "train")
    C.fill(d, range(10, 13), "train", rel="sub/deeper")
    C.fill(d, range(20, 23), "test")
    old_list = (root / "train" / "shards_list.json").read_bytes()
    C.fill(d, range(30, 32), "train")
    _WRITING_HANDLE[str(root)] = d
    return Dataset(root), old_list


_WRITING_HANDLE = {}


def check_integrity(ctx):
    """C05: check() passes on the committed dataset and fails after every
    sampled modification of every reachable file."""
    from sedpack.io import Dataset
    rnd = random.Random(ctx["seed"] + 11)
    tier = ctx["tier"]
    algsets = [("sha256",), ("xxh64", "md5")] if tier == "quick" else [
        ("sha256",), ("xxh32",), ("md5", "sha1", "xxh128"),
        ("md5", "sha1", "sha224", "sha256", "sha384", "sha512", "sha3_224",
         "sha3_256", "sha3_384", "sha3_512", "xxh32", "xxh64", "xxh128")]
    undetected = []
    n_eval = 0
    accept_fail = None
    for algs in algsets:
        with C.tmpdir() as tmp:
            root = tmp / "ds"
            d, old_list = _committed_dataset(root, algs)
            try:
                d.check(show_progressbar=False)
            except Exception as e:  # noqa: BLE001
                accept_fail = dict(algs=algs, error=repr(e)[:200])
                break
            expected_desc = d.current_metadata_checksums()
            files = [p for p in root.rglob("*") if p.is_file() and
                     p.name != "dataset_info.json"]
            for f in files:
                orig = f.read_bytes()
                mods = []
                n = len(orig)
                offs = sorted({0, n // 2, n - 1} | {rnd.randrange(n) for _ in
                                                    range(2 if tier == "quick"
                                                          else 8)})
                for o in offs:
                    b = bytearray(orig)
                    b[o] ^= 1 << rnd.randrange(8)
                    mods.append((f"flip@{o}", bytes(b)))
                # the same kind of edit made "quietly": same inode, same size,
                # access / modification times put back (this process has
                # already hashed the file once: check() above)
                b = bytearray(orig)
                b[offs[len(offs) // 2]] ^= 0x10
                mods.append(("flip, times restored", bytes(b)))
                for ln in sorted({0, 1, n // 2, n - 1}):
                    if ln < n:
                        mods.append((f"truncate->{ln}", orig[:ln]))
                mods.append(("extend", orig + b"\x00"))
                # edits that text-mode / re-encoding readers do not see:
                # newline conventions, a byte-order mark, trailing blanks,
                # case of hex digits, JSON re-spacing
                if b"\n" in orig:
                    i0 = orig.index(b"\n")
                    mods.append(("LF->CR", orig[:i0] + b"\r" + orig[i0 + 1:]))
                    mods.append(("LF->CRLF", orig[:i0] + b"\r\n" + orig[i0 + 1:]))
                    mods.append(("all LF->CRLF", orig.replace(b"\n", b"\r\n")))
                if f.suffix == ".json":
                    mods.append(("BOM", b"\xef\xbb\xbf" + orig))
                    mods.append(("trailing newline", orig + b"\n"))
                    mods.append(("leading space", b" " + orig))
                    try:
                        re_enc = json.dumps(json.loads(orig)).encode()
                        if re_enc != orig:
                            mods.append(("json re-serialised", re_enc))
                    except Exception:  # noqa: BLE001
                        pass
                mods.append(("delete", None))
                sib = [g for g in files if g != f and g.suffix == f.suffix
                       and g.read_bytes() != orig]
                if sib:
                    mods.append(("swap-with-sibling", sib[0].read_bytes()))
                if f == root / "train" / "shards_list.json":
                    mods.append(("rollback", old_list))
                st0 = f.stat()
                for name, content in mods:
                    n_eval += 1
                    if content is None:
                        f.unlink()
                    elif name.endswith("times restored"):
                        with open(f, "r+b") as fh:     # in place: same inode
                            fh.write(content)
                        os.utime(f, ns=(st0.st_atime_ns, st0.st_mtime_ns))
                    else:
                        f.write_bytes(content)
                    try:
                        Dataset(root).check(show_progressbar=False)
                        undetected.append(dict(algs=algs,
                                               file=str(f.relative_to(root)),
                                               modification=name))
                    except Exception:  # noqa: BLE001
                        pass
                    f.write_bytes(orig)
                    os.utime(f, ns=(st0.st_atime_ns, st0.st_mtime_ns))
                if undetected and tier == "quick":
                    break
            # description file with expected checksums supplied
            desc = root / "dataset_info.json"
            orig = desc.read_bytes()
            b = bytearray(orig)
            b[len(b) // 2] ^= 4
            for name, content in (("flip", bytes(b)), ("extend", orig + b" ")):
                # asked of a fresh handle and of the handle that wrote the
                # dataset (which must not answer from memory)
                for who, handle in (("fresh handle", None),
                                    ("the writing handle",
                                     _WRITING_HANDLE[str(root)])):
                    n_eval += 1
                    desc.write_bytes(content)
                    try:
                        (handle or Dataset(root)).check(
                            show_progressbar=False,
                            hash_checksums_values=expected_desc)
                        undetected.append(dict(
                            algs=algs, file="dataset_info.json",
                            modification=name + ", checked through " + who))
                    except Exception:  # noqa: BLE001
                        pass
                    desc.write_bytes(orig)
        if undetected and tier == "quick":
            break
    out = [C.result("check() passes on a committed nested dataset",
                    accept_fail is None, function="DatasetWriting.check",
                    witness=accept_fail)]
    out.append(C.result(
        "every sampled modification (bit flips, truncations, extension, "
        "newline / BOM / re-serialisation edits, deletion, sibling swap, "
        "rollback) of every shard / list file, and of "
        "the description with expected checksums, makes check() raise",
        not undetected, function="DatasetWriting.check", evaluations=n_eval,
        witness=undetected[:5] or None,
        bound=f"algorithm tuples {algsets}; nested dataset with 8 files"))
    return out


# --------------------------------------------------------------------------
class _FsRecorder:
    """Copies the dataset directory after every file-system effect below it
    (open for writing, close of such a file, replace/rename, mkdir, unlink):
    each copy is what a crash / a concurrent reader at that instant sees."""

    def __init__(self, root, snapdir, every=1):
        self.root = Path(os.path.abspath(root))
        self.snapdir = snapdir
        self.snaps = []
        self.busy = False
        self.orig = {}

    def inside(self, p):
        try:
            p = Path(os.path.abspath(os.fspath(p)))
        except TypeError:
            return False
        return p == self.root or self.root in p.parents

    def snap(self, label):
        if self.busy:
            return
        self.busy = True
        try:
            dst = self.snapdir / f"s{len(self.snaps):04d}"
            shutil.copytree(self.root, dst)
            self.snaps.append((dst, label))
        finally:
            self.busy = False

    def __enter__(self):
        rec = self
        o_open = builtins.open
        self.orig["open"] = o_open
        self.orig["io_open"] = io.open

        def h_open(file, mode="r", *a, **k):
            f = o_open(file, mode, *a, **k)
            if not rec.busy and any(c in mode for c in "wax+") and \
                    rec.inside(file):
                rec.snap(f"open({file},{mode})")
            return f
        builtins.open = h_open
        io.open = h_open
        for name in ("replace", "rename", "mkdir", "unlink", "remove",
                     "rmdir"):
            o = getattr(os, name)
            self.orig[name] = o

            def mk(o=o, name=name):
                def h(*a, **k):
                    r = o(*a, **k)
                    if a and rec.inside(a[0]):
                        rec.snap(f"{name}({a[0]})")
                    return r
                return h
            setattr(os, name, mk())
        return self

    def __exit__(self, *a):
        builtins.open = self.orig["open"]
        io.open = self.orig["io_open"]
        for name in ("replace", "rename", "mkdir", "unlink", "remove",
                     "rmdir"):
            setattr(os, name, self.orig[name])


def _crash_view_ok(snap, committed, written):
    """Checks one crash snapshot.  Returns a problem string or None."""
    from sedpack.io import Dataset
    for p in snap.rglob("*.json"):
        if p.name.startswith("update_"):
            continue          # temp sibling, not a metadata file
        try:
            json.loads(p.read_text())
        except Exception as e:  # noqa: BLE001
            return f"{p.relative_to(snap)} is not a complete document: {e!r}"[:200]
    try:
        d = Dataset(snap)
    except Exception as e:  # noqa: BLE001
        return f"cannot open: {e!r}"[:200]
    from sedpack.io.utils import hash_checksums
    algs = d.dataset_structure.hash_checksum_algorithms
    for split in d._dataset_info.splits:
        try:
            shards = C.tree_shards(snap, split)
        except Exception as e:  # noqa: BLE001
            return f"tree of {split} unreadable: {e!r}"[:200]
        for s, rel in shards:
            fi = s["file_infos"][0]
            f = snap / fi["file_path"]
            if not f.is_file():
                return f"reachable shard {fi['file_path']} missing"
            if tuple(fi.get("hash_checksums", ())) and \
                    tuple(hash_checksums(f, algs)) != tuple(fi["hash_checksums"]):
                return f"reachable shard {fi['file_path']} does not match " \
                       f"its checksums"
        try:
            got = C.iterate(d, "numpy", split)
        except Exception as e:  # noqa: BLE001
            return f"iteration of {split} failed: {e!r}"[:200]
        c = collections.Counter(got)
        if any(v > 1 for v in c.values()):
            return f"{split}: duplicated examples {[k for k, v in c.items() if v > 1][:5]}"
        if not set(got) <= set(written.get(split, [])):
            return f"{split}: examples never written " \
                   f"{sorted(set(got) - set(written.get(split, [])))[:5]}"
        missing = set(committed.get(split, [])) - set(got)
        if missing:
            return f"{split}: committed examples lost {sorted(missing)[:5]}"
    for split, ids in committed.items():
        if ids and split not in d._dataset_info.splits:
            return f"split {split} with committed examples disappeared"
    return None


def check_crash(ctx):
    """C06: at every file-system effect of a continued session, the directory
    is consistent: complete documents, reachable shards match checksums,
    only written examples, all committed examples present."""
    from sedpack.io import Dataset
    tier = ctx["tier"]
    fmts = ["fb"] if tier == "quick" else ["fb", "npz", "tfrec"]
    bad = None
    n_eval = 0
    for fmt in fmts:
        for scenario in ("filler", "subdir", "multi"):
            with C.tmpdir() as tmp:
                root = tmp / "ds"
                # both runs seed the stdlib / numpy generators the same way
                # (reproducible training scripts do): what protects committed
                # shards from being overwritten must not depend on them
                random.seed(20240229)
                np.random.seed(20240229)
                d = C.mk_dataset(root, fmt, "", eps=2)
                C.fill(d, range(0, 5), "train")
                C.fill(d, range(10, 12), "test")
                if scenario != "filler":
                    C.fill(d, range(20, 23), "train", rel="sub")
                random.seed(20240229)
                np.random.seed(20240229)
                committed = {"train": list(range(5)) + (
                    [20, 21, 22] if scenario != "filler" else []),
                    "test": [10, 11]}
                written = {k: list(v) for k, v in committed.items()}
                new = list(range(100, 105))
                written["train"] += new
                d = Dataset(root)
                with _FsRecorder(root, tmp / "snaps") as rec:
                    if scenario == "filler":
                        C.fill(d, new, "train")
                    elif scenario == "subdir":
                        C.fill(d, new, "train", rel="sub")
                    else:
                        _multi(d, [{"train": new[:3]}, {"train": new[3:]}])
                for snap, label in rec.snaps:
                    n_eval += 1
                    prob = _crash_view_ok(snap, committed, written)
                    if prob:
                        bad = dict(format=fmt, scenario=scenario,
                                   crash_point=label.replace(str(root), "<root>"),
                                   problem=prob)
                        break
            if bad:
                break
        if bad:
            break
    return [C.result(
        "directory copied after every file-system effect of a continued "
        "session (root filler / reused sub-directory / multi-writer): always "
        "complete documents, matching reachable shards, no torn or foreign "
        "example, committed examples present", bad is None,
        function="safe_update_file", evaluations=n_eval, witness=bad,
        bound=f"formats {fmts}, 3 scenarios, every open/replace/mkdir point")]


# --------------------------------------------------------------------------
def _slow_feed(filler, groups, delay):
    n = 0
    with filler as f:
        for split, ids in groups.items():
            for i in ids:
                time.sleep(delay)
                f.write_example(values=C.example(i), split=split)
                n += 1
    return (n, sorted(groups))


def _tag_feed(filler, groups, delay, tag, chdir_to=None):
    """like _slow_feed; returns its tag; may change the working directory of
    the process it runs in before writing"""
    if chdir_to is not None:
        os.chdir(chdir_to)
    with filler as f:
        for split, ids in groups.items():
            for i in ids:
                time.sleep(delay)
                f.write_example(values=C.example(i), split=split)
    return tag


def _failing_feed(filler, groups, fail_after):
    """writes, then raises inside the filler's context after fail_after
    examples (None: never)"""
    n = 0
    with filler as f:
        for split, ids in groups.items():
            for i in ids:
                if fail_after is not None and n >= fail_after:
                    raise RuntimeError("writer gives up")
                f.write_example(values=C.example(i), split=split)
                n += 1
    return n


def check_parallel_writers(ctx):
    """C09: real worker processes with skewed speeds: results in argument
    order, same content as sequential, exact metadata, disjoint files."""
    from sedpack.io import Dataset
    tier = ctx["tier"]
    bad = None
    n_eval = 0
    plans = [
        [({"train": [0, 1, 2, 3, 4]}, 0.02), ({"train": [10], "test": [11]}, 0.0),
         ({}, 0.0), ({"test": [20, 21, 22]}, 0.005)],
    ]
    if tier != "quick":
        plans.append([({"train": list(range(100, 109))}, 0.0),
                      ({"train": [200]}, 0.05)])
    for plan in plans:
        with C.tmpdir() as tmp:
            root = tmp / "par"
            d = C.mk_dataset(root, "fb", "", eps=2)
            C.fill(d, [900, 901], "train")
            n_eval += 1
            res = d.write_multiprocessing(
                feed_writer=_slow_feed,
                custom_arguments=[(g, delay) for g, delay in plan],
                single_process=False, consistency_check=True)
            exp_res = [(sum(len(v) for v in g.values()), sorted(g))
                       for g, _ in plan]
            if res != exp_res:
                bad = dict(plan=str(plan), results=res, expected=exp_res)
                break
            expected = collections.defaultdict(list)
            expected["train"] += [900, 901]
            for g, _ in plan:
                for sp, ids in g.items():
                    expected[sp] += ids
            problems = audit_tree(root, d, expected)
            # each writer's examples in its own order, writers in argument order
            for sp in expected:
                seq = C.iterate(Dataset(root), "numpy", sp)
                want = [i for i in expected[sp]]
                if seq != want:
                    problems.append(f"{sp}: order {seq} != sequential "
                                    f"equivalent {want}")
            # no two workers wrote into the same directory
            dirs = collections.Counter()
            for sp in expected:
                for s, rel in C.tree_shards(root, sp):
                    dirs[str(Path(s["file_infos"][0]["file_path"]).parent)] += 0
            if problems:
                bad = dict(plan=str(plan), problems=problems[:5])
                break
    # many writers (more than ten: names / indices with two digits), the
    # later ones faster; and a dataset created through a RELATIVE path whose
    # writers change their working directory
    if bad is None:
        cwd = os.getcwd()
        real_cpu_count = os.cpu_count
        for case in ("13 writers", "13 writers, os.cpu_count() == 4",
                     "relative root + chdir",
                     "relative root + chdir, single process"):
            n_eval += 1
            with C.tmpdir() as tmp:
                try:
                    os.chdir(tmp)
                    if case.endswith("== 4"):
                        os.cpu_count = lambda: 4       # a small machine
                    if case.startswith("13 writers"):
                        d = C.mk_dataset(tmp / "par", "fb", "", eps=2)
                        # every writer fills BOTH splits: the updates
                        # reach the description interleaved (train, test,
                        # train, test, ...)
                        args = [({"train": [100 + 10 * k, 101 + 10 * k],
                                  "test": [500 + 10 * k, 501 + 10 * k,
                                           502 + 10 * k]},
                                 0.02 * (12 - k) / 12, f"w{k}") for k in
                                range(13)]
                        sp_ = False
                    else:
                        d = C.mk_dataset(Path("rel") / "par", "fb", "", eps=2)
                        other = tmp / "elsewhere"
                        other.mkdir()
                        args = [({"train": [100, 101, 102]}, 0.0, "w0", None),
                                ({"train": [110, 111]}, 0.0, "w1", str(other)),
                                ({"train": [120]}, 0.0, "w2", None)]
                        sp_ = case.endswith("single process")
                    res = d.write_multiprocessing(
                        feed_writer=_tag_feed, custom_arguments=args,
                        single_process=sp_, consistency_check=True)
                    os.chdir(tmp)
                    root = tmp / ("par" if case.startswith("13 writers")
                                  else "rel/par")
                    want = {sp: [i for a in args
                                 for i in a[0].get(sp, [])]
                            for sp in ("train", "test")}
                    want = {sp: v for sp, v in want.items() if v}
                    problems = audit_tree(root, d, want)
                    if res != [a[2] for a in args]:
                        problems.append(f"results {res} are not in argument "
                                        f"order")
                    for sp in want:
                        seq = C.iterate(Dataset(root), "numpy", sp)
                        if seq != want[sp]:
                            problems.append(f"{sp}: order {seq} != sequential "
                                            f"equivalent {want[sp]}")
                    stray = [str(p.relative_to(tmp)) for p in tmp.rglob("*")
                             if p.is_file() and root not in p.parents]
                    if stray:
                        problems.append(f"files written outside the dataset: "
                                        f"{stray[:3]}")
                except Exception as e:  # noqa: BLE001
                    problems = ["failed: " + repr(e)[:300]]
                finally:
                    os.chdir(cwd)
                    os.cpu_count = real_cpu_count
                if problems:
                    bad = dict(case=case, problems=problems[:5])
                    break
    # a writer that fails: the call fails, the dataset keeps exactly what it
    # had (nothing of the failed call is registered, by no process), and a
    # retry through the same handle adds exactly the retry's examples
    if bad is None:
        for sp_ in (False, True):
            n_eval += 1
            with C.tmpdir() as tmp:
                root = tmp / "par"
                d = C.mk_dataset(root, "fb", "", eps=2)
                C.fill(d, [900, 901, 902], "train")
                C.fill(d, [950], "test")
                before = {p: p.read_bytes() for p in root.rglob("*.json")}
                problems = []
                try:
                    d.write_multiprocessing(
                        feed_writer=_failing_feed,
                        custom_arguments=[({"train": [1, 2, 3, 4, 5]}, None),
                                          ({"train": [10, 11, 12, 13],
                                            "test": [14, 15, 16]}, 5),
                                          ({"test": [20, 21, 22]}, 3)],
                        single_process=sp_, consistency_check=False)
                    problems.append("the call returned normally although two "
                                    "writers raised")
                except RuntimeError:
                    pass
                except Exception as e:  # noqa: BLE001
                    problems.append("unexpected failure: " + repr(e)[:200])
                changed = [str(p.relative_to(root)) for p, b in before.items()
                           if not p.exists() or p.read_bytes() != b]
                if changed:
                    problems.append(f"metadata of the dataset rewritten by the "
                                    f"failed call: {changed[:4]}")
                try:
                    got = {sp: C.iterate(Dataset(root), "numpy", sp)
                           for sp in ("train", "test")}
                    if got != {"train": [900, 901, 902], "test": [950]}:
                        problems.append(f"content after the failed call: {got}")
                    res = d.write_multiprocessing(
                        feed_writer=_failing_feed,
                        custom_arguments=[({"train": [30, 31, 32]}, None),
                                          ({"test": [40, 41]}, None)],
                        single_process=sp_, consistency_check=True)
                    got = {sp: sorted(C.iterate(Dataset(root), "numpy", sp))
                           for sp in ("train", "test")}
                    if res != [3, 2] or got != {
                            "train": [30, 31, 32, 900, 901, 902],
                            "test": [40, 41, 950]}:
                        problems.append(f"after the retry: results {res}, "
                                        f"content {got}")
                except Exception as e:  # noqa: BLE001
                    problems.append("retry failed: " + repr(e)[:200])
                if problems:
                    bad = dict(case="a writer raises inside its filler (" + (
                        "single process" if sp_ else "worker processes") + ")",
                        problems=problems[:5])
                    break
    return [C.result(
        "write_multiprocessing with real processes of different speeds == the "
        "writers run one after another (content, per-writer order, metadata, "
        "check(), results in argument order)", bad is None,
        function="write_multiprocessing", evaluations=n_eval, witness=bad,
        bound="2-4 and 13 real worker processes, skewed by sleeps (OS "
              "scheduling, not all interleavings); a relative root with a "
              "writer that changes its working directory")]


# --------------------------------------------------------------------------
ALGS13 = ["md5", "sha1", "sha224", "sha256", "sha384", "sha512", "sha3_224",
          "sha3_256", "sha3_384", "sha3_512", "xxh32", "xxh64", "xxh128"]


def _oneshot(alg, data):
    import xxhash
    if alg.startswith("xxh"):
        return getattr(xxhash, alg)(data).hexdigest()
    return hashlib.new(alg, data).hexdigest()


def check_digests(ctx):
    """C16: hash_checksums == independent one-shot digests, for file sizes
    around the 128 KiB buffer; recorded checksums of a dataset are the
    digests of the files, in the configured order."""
    from sedpack.io.utils import hash_checksums
    from sedpack.io import Dataset
    rnd = random.Random(ctx["seed"] + 5)
    tier = ctx["tier"]
    K = 128 * 1024
    sizes = [0, 1, 11, K - 1, K, K + 1, 2 * K - 1, 2 * K, 2 * K + 1]
    if tier != "quick":
        sizes += [3 * K, 8 * K, 1024 * 1024 + 3]
    bad = None
    n_eval = 0
    with C.tmpdir() as tmp:
        for sz in sizes:
            data = rnd.randbytes(sz)
            f = tmp / f"f{sz}"
            f.write_bytes(data)
            tuples = [tuple(ALGS13), ("sha256",), ("xxh64", "xxh64", "md5"),
                      tuple(reversed(ALGS13)), ()]
            for tup in tuples:
                n_eval += 1
                got = tuple(hash_checksums(f, tup))
                exp = tuple(_oneshot(a, data) for a in tup)
                if got != exp or any(x != x.lower() for x in got):
                    bad = dict(size=sz, algorithms=tup,
                               first_mismatch=[(a, g, e) for a, g, e in
                                               zip(tup, got, exp) if g != e][:2])
                    break
            if bad:
                break
        if bad is None and shutil.which("sha256sum"):
            f = tmp / f"f{K}"
            n_eval += 1
            ext = subprocess.run(["sha256sum", str(f)], capture_output=True,
                                 text=True).stdout.split()[0]
            if ext != hash_checksums(f, ("sha256",))[0]:
                bad = dict(size=K, tool="sha256sum", external=ext)
        # several files hashed at the same time by threads of one process
        # (threaded writers): each digest is still that of its own file
        if bad is None:
            import threading
            files = []
            for k in range(6):
                data = rnd.randbytes(3 * K + 17 * k + 1) * 4
                f = tmp / f"par{k}"
                f.write_bytes(data)
                files.append((f, data))
            for rep in range(2 if tier == "quick" else 6):
                got = {}
                start = threading.Barrier(len(files))

                def work(k, f):
                    start.wait()
                    got[k] = tuple(hash_checksums(f, ("sha256", "xxh64")))
                ths = [threading.Thread(target=work, args=(k, f))
                       for k, (f, _) in enumerate(files)]
                for t in ths:
                    t.start()
                for t in ths:
                    t.join()
                n_eval += len(files)
                wrong = [k for k, (f, data) in enumerate(files)
                         if got.get(k) != (_oneshot("sha256", data),
                                           _oneshot("xxh64", data))]
                if wrong:
                    bad = dict(concurrent_threads=len(files),
                               sizes=[len(d_) for _, d_ in files],
                               files_with_wrong_digest=wrong)
                    break
        rec_bad = None
        if bad is None:
            algs = ("sha3_256", "xxh32", "md5")
            root = tmp / "ds"
            d = C.mk_dataset(root, "fb", "", eps=2, hashes=algs)
            C.fill(d, range(5), "train")
            C.fill(d, range(5, 8), "train", rel="sub")
            info = json.loads((root / "dataset_info.json").read_text())

            def walk(entry):
                nonlocal rec_bad, n_eval
                fi = entry["shard_list_info_file"]
                n_eval += 1
                data = (root / fi["file_path"]).read_bytes()
                if tuple(fi["hash_checksums"]) != tuple(
                        _oneshot(a, data) for a in algs):
                    rec_bad = dict(file=fi["file_path"])
                doc = json.loads(data)
                for s in doc.get("shard_files", []):
                    for sfi in s["file_infos"]:
                        n_eval += 1
                        b = (root / sfi["file_path"]).read_bytes()
                        if tuple(sfi["hash_checksums"]) != tuple(
                                _oneshot(a, b) for a in algs):
                            rec_bad = dict(file=sfi["file_path"])
                for c in doc.get("children_shard_lists", []):
                    walk(c)
            for sli in info["splits"].values():
                walk(sli)
            # a continued session whose body raises after some writes (the
            # caller catches it): whatever the description then says, every
            # recorded checksum is the digest of the file it names
            if rec_bad is None:
                try:
                    with d.filler() as fl:
                        for i in range(20, 23):
                            fl.write_example(values=C.example(i), split="train")
                        raise KeyboardInterrupt("user stops the session")
                except KeyboardInterrupt:
                    pass
                info = json.loads((root / "dataset_info.json").read_text())
                for sli in info["splits"].values():
                    walk(sli)
                if rec_bad is not None:
                    rec_bad["after"] = "a session whose body raised"
            # metadata files whose character count and byte count differ
            # (non-ASCII text) and straddle a multiple of the read buffer:
            # a digest of a prefix / of re-encoded text would show here
            if rec_bad is None:
                from sedpack.io import Metadata, DatasetStructure, Attribute
                root = tmp / "ds_utf8"
                big = "\u0436" * 70000        # 70 000 chars, 140 000 bytes
                ds = DatasetStructure(
                    saved_data_description=[Attribute(name="id", dtype="int64",
                                                      shape=())],
                    examples_per_shard=2, shard_file_type="fb",
                    hash_checksum_algorithms=algs)
                d2 = Dataset.create(root, Metadata(description=big,
                                                   custom_metadata={"k": big}),
                                    ds)
                with d2.filler() as fl:
                    for i in range(3):
                        fl.write_example(values={"id": np.int64(i)},
                                         split="train",
                                         custom_metadata={"note": big[:66000]})
                info = json.loads((root / "dataset_info.json").read_text())
                for sli in info["splits"].values():
                    walk(sli)
                n_eval += 1
                got = tuple(Dataset(root).current_metadata_checksums())
                data = (root / "dataset_info.json").read_bytes()
                if got != tuple(_oneshot(a, data) for a in algs):
                    rec_bad = dict(file="dataset_info.json (non-ASCII, "
                                   f"{len(data)} bytes)")
    return [C.result("hash_checksums == independent one-shot digests "
                     "(hashlib / xxhash / sha256sum), lowercase hex, "
                     "argument order, sizes around multiples of 128 KiB, six "
                     "files hashed concurrently by threads",
                     bad is None, function="hash_checksums",
                     evaluations=n_eval, witness=bad,
                     bound=f"sizes {sizes}, 5 algorithm tuples"),
            C.result("every checksum recorded in a dataset's metadata is the "
                     "digest of the file it names, in configured order",
                     rec_bad is None, function="Shard.close", witness=rec_bad)]


# --------------------------------------------------------------------------
def check_paths(ctx):
    """C17: hostile path strings in metadata are rejected at load or never
    lead to a read outside the root; the writer sub-directory cannot escape."""
    from sedpack.io import Dataset
    from sedpack.io.file_info import FileInfo
    from sedpack.io.shard_file_metadata import ShardsList, ShardListInfo
    from sedpack.io.dataset_filler import DatasetFiller
    tier = ctx["tier"]
    bad = None
    n_eval = 0
    with C.tmpdir() as tmp:
        outside = tmp / "outside"
        outside.mkdir()
        root = tmp / "dataset"
        d = C.mk_dataset(root, "fb", "", eps=2)
        C.fill(d, range(4), "train")
        # an outside shard / list that a hostile path might reach
        shard = next(root.rglob("*.fb"))
        shutil.copy(shard, outside / "secret.fb")
        (outside / "deep").mkdir()
        shutil.copy(shard, outside / "deep" / "secret.fb")
        shutil.copy(root / "train" / "shards_list.json",
                    outside / "shards_list.json")
        sib = tmp / "dataset_v2"
        sib.mkdir()
        shutil.copy(root / "train" / "shards_list.json",
                    sib / "shards_list.json")
        backup = tmp / "dataset_backup"
        shutil.copytree(root, backup)
        hostile = ["../outside/secret.fb", str(outside / "secret.fb"),
                   "train/../../outside/secret.fb",
                   "../outside/deep/secret.fb", "a/../../outside/secret.fb",
                   "./../outside/secret.fb", "train//../../outside/secret.fb",
                   "../dataset_v2/x.fb", "/etc/hostname",
                   # POSIX double-slash root (its first component is '//')
                   "/" + str(outside / "secret.fb"),
                   "//" + str(outside / "secret.fb").lstrip("/")]
        # spellings that are plain (odd) names on POSIX: they may be accepted,
        # but must stay harmless (nothing outside the root read or created)
        bs = "\\"
        odd = [".." + bs + "outside" + bs + "secret.fb",
               bs + str(outside / "secret.fb")[1:].replace("/", bs),
               "train" + bs + ".." + bs + ".." + bs + "outside" + bs + "secret.fb"]
        # ... and compatibility characters that Unicode normalisation (NFKC)
        # turns into '.', '..' and '/': ONE DOT LEADER, TWO DOT LEADER,
        # FULLWIDTH FULL STOP, FULLWIDTH SOLIDUS
        odd += ["train/\u2024\u2024/\u2024\u2024/outside/secret.fb",
                "\u2025/outside/secret.fb",
                "\uff0e\uff0e/outside/secret.fb",
                "..\uff0foutside\uff0fsecret.fb",
                "\uff0f" + str(outside / "secret.fb").lstrip("/")]
        odd_lists = ["\u2025/outside/shards_list.json",
                     "\uff0e\uff0e/outside/shards_list.json"]
        odd_lists += [".." + bs + "outside" + bs + "shards_list.json",
                     bs + str(outside / "shards_list.json")[1:].replace("/", bs),
                     ".." + bs + "escaped" + bs + "shards_list.json"]
        hostile_lists = ["../outside/shards_list.json",
                         str(outside / "shards_list.json"),
                         # POSIX keeps exactly two leading slashes as an
                         # anchor of its own
                         "/" + str(outside / "shards_list.json"),
                         "//./" + str(outside / "shards_list.json").lstrip("/"),
                         "../dataset_v2/shards_list.json",
                         "train/../../outside/shards_list.json"]
        # (1) validators
        for h in hostile + hostile_lists:
            n_eval += 1
            try:
                FileInfo(file_path=Path(h))
                bad = dict(what="FileInfo accepted", path=h)
                break
            except Exception:  # noqa: BLE001
                pass
        for h in hostile_lists:
            if bad:
                break
            n_eval += 1
            try:
                ShardsList(relative_path_self=Path(h))
                bad = dict(what="ShardsList accepted", path=h)
            except Exception:  # noqa: BLE001
                pass
        # (1b) the verdict does not depend on the working directory
        if not bad:
            cwd0 = os.getcwd()
            work = tmp / "work"
            work.mkdir()
            shutil.copy(shard, work / "secret.fb")
            try:
                for wd in (Path("/"), work, tmp, root):
                    os.chdir(wd)
                    for h in ["../outside/secret.fb", "../work/secret.fb",
                              "train/../../work/secret.fb",
                              "train/../../outside/secret.fb",
                              "a/../../dataset_v2/x.fb"]:
                        n_eval += 1
                        try:
                            FileInfo(file_path=Path(h))
                            bad = dict(what="FileInfo accepted", path=h,
                                       working_directory=str(wd).replace(
                                           str(tmp), "<tmp>"))
                            break
                        except Exception:  # noqa: BLE001
                            pass
                    if bad:
                        break
            finally:
                os.chdir(cwd0)
        # (2) tampered metadata: opening / iterating / checking must not read
        # outside the root
        opened = []
        o_open = builtins.open
        o_ioopen = io.open

        def h_open(file, *a, **k):
            try:
                p = Path(os.path.abspath(os.fspath(file)))
                if tmp in p.parents and root not in p.parents and p != root:
                    opened.append(str(p))
            except TypeError:
                pass
            return o_open(file, *a, **k)
        listp = root / "train" / "shards_list.json"
        orig = listp.read_text()
        infop = root / "dataset_info.json"
        orig_info = infop.read_text()
        if not bad:
            builtins.open = h_open
            io.open = h_open
            try:
                for h in hostile + odd:
                    n_eval += 1
                    doc = json.loads(orig)
                    doc["shard_files"][0]["file_infos"][0]["file_path"] = h
                    listp.write_text(json.dumps(doc))
                    del opened[:]
                    try:
                        dd = Dataset(root)
                        list(dd.as_numpy_iterator(split="train", repeat=False,
                                                  shuffle=0))
                    except Exception:  # noqa: BLE001
                        pass
                    try:
                        Dataset(root).check(show_progressbar=False)
                    except Exception:  # noqa: BLE001
                        pass
                    if opened:
                        bad = dict(what="file outside the root was opened",
                                   hostile_path=h, opened=opened[:3])
                        break
                listp.write_text(orig)
                for h in hostile_lists + odd_lists:
                    if bad:
                        break
                    n_eval += 1
                    info = json.loads(orig_info)
                    info["splits"]["train"]["shard_list_info_file"][
                        "file_path"] = h
                    infop.write_text(json.dumps(info))
                    del opened[:]
                    try:
                        dd = Dataset(root)
                        list(dd.as_numpy_iterator(split="train", repeat=False,
                                                  shuffle=0))
                    except Exception:  # noqa: BLE001
                        pass
                    if opened:
                        bad = dict(what="list outside the root was opened",
                                   hostile_path=h, opened=opened[:3])
                infop.write_text(orig_info)
                # load_or_create on hostile relative paths
                for h in hostile_lists:
                    if bad:
                        break
                    n_eval += 1
                    del opened[:]
                    try:
                        ShardsList.load_or_create(root, Path(h))
                    except Exception:  # noqa: BLE001
                        pass
                    if opened:
                        bad = dict(what="load_or_create opened a list outside "
                                   "the root", hostile_path=h,
                                   opened=opened[:3])
            finally:
                builtins.open = o_open
                io.open = o_ioopen
                listp.write_text(orig)
                infop.write_text(orig_info)
        # (2b) a list document whose own relative_path_self is hostile / odd:
        # continuing to write must not create anything outside the root
        if not bad:
            for h in hostile_lists + odd_lists:
                n_eval += 1
                doc = json.loads(orig)
                doc["relative_path_self"] = h
                listp.write_text(json.dumps(doc))
                before = {str(p) for p in tmp.rglob("*")}
                try:
                    with Dataset(root).filler() as f:
                        f.write_example(values=C.example(77), split="train")
                except Exception:  # noqa: BLE001
                    pass
                created = [p for p in ({str(p) for p in tmp.rglob("*")} -
                                       before)
                           if not p.startswith(str(root) + os.sep)]
                # restore the dataset for the next round
                shutil.rmtree(root)
                shutil.copytree(backup, root)
                if created:
                    bad = dict(what="continuing a dataset whose list names "
                               "itself by a hostile path created files "
                               "outside the root", relative_path_self=h,
                               created=created[:3])
                    break
        # (3) writer sub-directory option
        if not bad:
            for h in ["../escape", str(outside / "w"), "a/../../escape",
                      "..", "x/../../y"]:
                n_eval += 1
                before = {str(p) for p in tmp.rglob("*")}
                try:
                    with DatasetFiller(Dataset(root),
                                       relative_path_from_split=Path(h)) as f:
                        f.write_example(values=C.example(1), split="train")
                except Exception:  # noqa: BLE001
                    pass
                created = [p for p in ({str(p) for p in tmp.rglob("*")} -
                                       before)
                           if not p.startswith(str(root))]
                if created:
                    bad = dict(what="writer created files outside the root",
                               relative_path_from_split=h, created=created[:3])
                    break
        # (4) outside A-SYMLINK's scope, kept as a regression probe of the
        # canonical-path containment test in load_or_create: a writer
        # sub-directory that is a symbolic link to a SIBLING whose name
        # extends the root's name ("dataset" / "dataset_v2") must not have
        # the list stored there loaded or rewritten
        if not bad:
            n_eval += 1
            (root / "train" / "part").symlink_to(sib, target_is_directory=True)
            sib_list = sib / "shards_list.json"
            before = sib_list.read_bytes()
            del opened[:]
            builtins.open = h_open
            io.open = h_open
            try:
                with DatasetFiller(Dataset(root),
                                   relative_path_from_split=Path("part")) as f:
                    f.write_example(values=C.example(5), split="train")
                    f.write_example(values=C.example(6), split="train")
                    f.write_example(values=C.example(7), split="train")
            except Exception:  # noqa: BLE001
                pass
            finally:
                builtins.open = o_open
                io.open = o_ioopen
            if sib_list.read_bytes() != before or any(
                    p.endswith("shards_list.json") for p in opened):
                bad = dict(what="a shard list outside the root (reached "
                           "through a symbolic link to a sibling directory "
                           "named <root>_v2) was loaded or rewritten",
                           opened=[p for p in opened
                                   if p.endswith("shards_list.json")][:3],
                           rewritten=sib_list.read_bytes() != before)
    return [C.result(
        "hostile paths (.., absolute, normalised spellings, prefix-named "
        "sibling) in file infos / list infos / load_or_create / writer "
        "sub-directory: rejected or harmless; no file outside the root is "
        "opened or created", bad is None, function="no_directory_traversal",
        evaluations=n_eval, witness=bad,
        bound="11 hostile + 8 odd (backslash, Unicode compatibility dots and "
              "slashes) shard paths, 4 hostile + 5 odd list paths (also as a "
              "list's own relative_path_self, then continued writing), 5 "
              "writer options, 1 symbolic link to a prefix-named sibling")]


# --------------------------------------------------------------------------
_OTHER_RELEASE_WRITER = r"""
import sys
import sedpack
sedpack.__version__ = sys.argv[2]
import numpy as np
from sedpack.io import Dataset, Metadata, DatasetStructure, Attribute
md = Metadata(description="recorded by " + sys.argv[2],
              custom_metadata={"nested": {"k": [1, 2.5, None, True]}})
ds = DatasetStructure(
    saved_data_description=[Attribute(name="id", dtype="int64", shape=()),
                            Attribute(name="v", dtype="float32", shape=(3,))],
    compression="", examples_per_shard=2, shard_file_type="npz")
d = Dataset.create(sys.argv[1], metadata=md, dataset_structure=ds)
with d.filler() as f:
    for i in range(3):
        f.write_example(values={"id": i, "v": np.full(3, i, np.float32)},
                        split="train")
if d.metadata.sedpack_version != sys.argv[2]:
    sys.exit("the writing handle does not hold version " + sys.argv[2])
"""


def check_reopen(ctx):
    """C20: description round trip; relocation; version gate."""
    import sedpack
    from sedpack.io import Dataset, Metadata, DatasetStructure, Attribute
    tier = ctx["tier"]
    out = []
    bad = None
    n_eval = 0
    nested = {"text": "žluťoučký 🐎   \"quote\" \\ back", "n": [1, 2.5, None,
              True, {"deep": {"k": ["x", {"y": 0}]}}], "empty": {}, "e2": []}
    with C.tmpdir() as tmp:
        for fmt, comp, algs in [("fb", "LZ4", ("sha256",)),
                                ("npz", "ZIP", ("xxh64", "md5")),
                                ("tfrec", "GZIP", ())]:
            n_eval += 1
            root = tmp / f"rt_{fmt}"
            attrs = [Attribute(name="id", dtype="int64", shape=(),
                               custom_metadata=nested),
                     Attribute(name="v", dtype="float32", shape=(3,))]
            ds = DatasetStructure(saved_data_description=attrs,
                                  compression=comp, examples_per_shard=3,
                                  shard_file_type=fmt,
                                  hash_checksum_algorithms=algs)
            md = Metadata(description="popis ✓", dataset_version="2.3.4",
                          download_from="http://x/ö", custom_metadata=nested)
            d = Dataset.create(root, md, ds)
            with d.filler() as f:
                for i in range(5):
                    f.write_example(values=C.example(i), split="train",
                                    custom_metadata={"shard": nested, "i": i // 3})
            d2 = Dataset(root)
            if d2._dataset_info != d._dataset_info or \
                    d2.metadata.custom_metadata != nested or \
                    d2.dataset_structure.saved_data_description[0].custom_metadata != nested:
                bad = dict(what="description differs after reopen", fmt=fmt)
                break
            shards = list(d2.shard_info_iterator("train"))
            if shards[0].custom_metadata != {"shard": nested, "i": 0}:
                bad = dict(what="shard custom metadata differs", fmt=fmt,
                           got=str(shards[0].custom_metadata)[:200])
                break
            # the writer amends the description it holds and saves again
            # without new shards (explicitly, then by a session that writes
            # nothing): a fresh open reconstructs the amended description
            for how in ("write_config([])", "empty filler session"):
                n_eval += 1
                d.metadata.description = "amended ✓ " + how
                d.metadata.custom_metadata["amended"] = {"how": how,
                                                         "n": [1, None]}
                d.dataset_structure.saved_data_description[1].custom_metadata[
                    "unit"] = "µV " + how
                try:
                    if how == "write_config([])":
                        d.write_config(updated_infos=[])
                    else:
                        with d.filler():
                            pass
                    d3 = Dataset(root)
                    if d3._dataset_info != d._dataset_info:
                        bad = dict(what="description amended on the writing "
                                   "handle and saved (" + how + ") differs "
                                   "after reopen", fmt=fmt,
                                   held=d.metadata.description,
                                   reopened=d3.metadata.description)
                except Exception as e:  # noqa: BLE001
                    bad = dict(what="amend + " + how + " failed", fmt=fmt,
                               error=repr(e)[:200])
                if bad:
                    break
            if bad:
                break
        out.append(C.result("reopen reconstructs the description (unicode, "
                            "nested custom metadata at dataset / attribute / "
                            "shard level, all settings)", bad is None,
                            function="DatasetBase._load", evaluations=n_eval,
                            witness=bad))
        # relocation
        bad = None
        n_eval = 0
        src = tmp / "orig"
        d = C.mk_dataset(src, "fb", "", eps=2)
        C.fill(d, range(5), "train")
        C.fill(d, range(5, 8), "train", rel="sub")
        ref = C.iterate(Dataset(src), "numpy", "train")
        targets = [tmp / "moved" / "nested dir" / "ünï cödé",
                   tmp / "~backup of dataset" / "ds", tmp / "with space"]
        cwd = os.getcwd()
        try:
            for k, t in enumerate(targets):
                t.parent.mkdir(parents=True, exist_ok=True)
                shutil.copytree(src, t)
                ref = C.iterate(Dataset(src), "numpy", "train")
                for hi, how in enumerate(("absolute", "relative",
                                          "relative with '..'")):
                    n_eval += 1
                    if how == "relative":
                        os.chdir(t.parent.parent)
                        p = Path(t.parent.name) / t.name
                    elif how == "relative with '..'":
                        side = t.parent.parent / "some side dir" / "deeper"
                        side.mkdir(parents=True, exist_ok=True)
                        os.chdir(side)
                        p = Path("..") / ".." / t.parent.name / t.name
                    else:
                        p = t
                    try:
                        dd = Dataset(p)
                        dd.check(show_progressbar=False)
                        got = C.iterate(dd, "numpy", "train")
                        if got != ref:
                            raise AssertionError(f"content {got} != {ref}")
                        C.fill(dd, [1000 + 10 * k + hi], "train")
                        got2 = C.iterate(Dataset(p), "numpy", "train")
                        if collections.Counter(got2) != collections.Counter(
                                ref + [1000 + 10 * k + hi]):
                            raise AssertionError("append after move lost data")
                        ref = got2
                        Dataset(p).check(show_progressbar=False)
                    except Exception as e:  # noqa: BLE001
                        bad = dict(target=str(t.relative_to(tmp)), reached=how,
                                   error=repr(e)[:300])
                        break
                    finally:
                        os.chdir(cwd)
                if bad:
                    break
        finally:
            os.chdir(cwd)
        out.append(C.result("a copied / moved dataset directory (absolute or "
                            "relative path, also through '..'; nested, "
                            "unicode, blank, '~' names) "
                            "opens, verifies, iterates and accepts writing",
                            bad is None, function="DatasetBase.__init__",
                            evaluations=n_eval, witness=bad))
        # version gate
        bad = None
        n_eval = 0
        import semver
        cur = semver.Version.parse(sedpack.__version__)
        root = tmp / "ver"
        d = C.mk_dataset(root, "fb", "", eps=2)
        C.fill(d, range(2), "train")
        infop = root / "dataset_info.json"
        base = json.loads(infop.read_text())
        cands = set()
        for dm in (-1, 0, 1, 10):
            for dn in (-1, 0, 1, 9, 10):
                for dp in (-7, -1, 0, 1, 3, 10, 93):
                    ma, mi, pa = cur.major + dm, cur.minor + dn, cur.patch + dp
                    if ma >= 0 and mi >= 0 and pa >= 0:
                        cands.add(f"{ma}.{mi}.{pa}")
        cands |= {f"{cur.major}.{cur.minor}.{cur.patch}-rc.1",
                  f"{cur.major}.{cur.minor}.{cur.patch + 1}-alpha"}
        for v in sorted(cands):
            n_eval += 1
            base["metadata"]["sedpack_version"] = v
            infop.write_text(json.dumps(base))
            newer = semver.Version.parse(v).compare(str(cur)) > 0
            try:
                Dataset(root)
                loaded = True
            except ValueError:
                loaded = False
            except Exception as e:  # noqa: BLE001
                bad = dict(version=v, error=repr(e)[:200])
                break
            if loaded == newer:
                bad = dict(recorded=v, running=str(cur), loaded=loaded,
                           should_load=not newer)
                break
        # datasets really recorded by another release: a child process sets
        # sedpack.__version__ before sedpack.io is imported, so that whatever
        # the write path derives from the version behaves as in that release
        rel_bad = None
        rel_n = 0
        writer = tmp / "other_release_writer.py"
        writer.write_text(_OTHER_RELEASE_WRITER, encoding="utf-8")
        triples = {"same": (cur.major, cur.minor, cur.patch),
                   "newer-patch": (cur.major, cur.minor, cur.patch + 1),
                   "newer-minor": (cur.major, cur.minor + 1, 0)}
        if cur.patch > 0:
            triples["older-patch"] = (cur.major, cur.minor, cur.patch - 1)
        elif cur.minor > 0:
            triples["older-minor"] = (cur.major, cur.minor - 1, 9)
        elif cur.major > 0:
            triples["older-major"] = (cur.major - 1, 9, 9)
        if tier == "quick":
            triples.pop("newer-minor")
        env = dict(os.environ, TF_CPP_MIN_LOG_LEVEL="3",
                   CUDA_VISIBLE_DEVICES="", PYTHONDONTWRITEBYTECODE="1",
                   PYTHONPATH=os.path.dirname(os.path.dirname(
                       os.path.abspath(sedpack.__file__))))
        procs = {}
        for name, t3 in triples.items():
            v = "%d.%d.%d" % t3
            procs[name] = (v, subprocess.Popen(
                [sys.executable, str(writer), str(tmp / ("rel_" + name)), v],
                env=env, stdout=subprocess.PIPE, stderr=subprocess.STDOUT,
                text=True))
        for name, (v, pr) in procs.items():
            rel_n += 1
            try:
                o, _ = pr.communicate(timeout=600)
            except subprocess.TimeoutExpired:
                pr.kill()
                o = "timeout"
            if pr.returncode != 0:
                # the harness, not the library, failed to record
                raise RuntimeError("other-release writer failed: " + o[-400:])
            newer = semver.Version.parse(v).compare(str(cur)) > 0
            try:
                dd = Dataset(tmp / ("rel_" + name))
                loaded, seen = True, dd.metadata.sedpack_version
            except ValueError:
                loaded, seen = False, None
            except Exception as e:  # noqa: BLE001
                rel_bad = dict(recorded_by=v, error=repr(e)[:200])
                break
            if loaded == newer:
                rel_bad = dict(recorded_by=v, running=str(cur), loaded=loaded,
                               should_load=not newer)
                break
            if loaded and seen != v:
                rel_bad = dict(recorded_by=v, running=str(cur),
                               reopened_reports=seen,
                               what="the recorded version is not what the "
                                    "writing release held")
                break
        out.append(C.result("a dataset recorded by another release (child "
                            "process with that version) is refused when "
                            "newer and otherwise reopens reporting the "
                            "recording version", rel_bad is None,
                            function="DatasetWriting.write_config",
                            evaluations=rel_n, witness=rel_bad,
                            bound=f"releases {sorted(triples)}"))
        # A-SEMVER: the library's comparison is the precedence order of the
        # semver 2.0 specification (the chains of its section 11, written
        # down here independently of the library)
        chains = [["1.0.0-alpha", "1.0.0-alpha.1", "1.0.0-alpha.beta",
                   "1.0.0-beta", "1.0.0-beta.2", "1.0.0-beta.11",
                   "1.0.0-rc.1", "1.0.0"],
                  ["1.0.0", "2.0.0", "2.1.0", "2.1.1"],
                  ["0.9.9", "0.10.0", "0.10.1", "1.0.0-0", "1.0.0"]]
        sv_bad = None
        sv_n = 0
        for ch in chains:
            for i_, a_ in enumerate(ch):
                for j_, b_ in enumerate(ch):
                    sv_n += 1
                    got = semver.Version.parse(a_).compare(b_)
                    want = (i_ > j_) - (i_ < j_)
                    if (got > 0) - (got < 0) != want:
                        sv_bad = dict(a=a_, b=b_, compare=got, expected=want)
        if semver.Version.parse("1.0.0+build1").compare("1.0.0+build2") != 0:
            sv_bad = dict(a="1.0.0+build1", b="1.0.0+build2",
                          what="build metadata must be ignored")
        out.append(C.result("semver.Version.compare is the precedence order of "
                            "the semver 2.0 specification (chains of its "
                            "section 11)", sv_bad is None,
                            function="DatasetBase._load", evaluations=sv_n,
                            witness=sv_bad))
        out.append(C.result("a dataset recorded by a newer version is refused, "
                            "same or older loads (semver precedence)",
                            bad is None, function="DatasetBase._load",
                            evaluations=n_eval, witness=bad,
                            bound=f"{len(cands)} versions around the running "
                                  f"one"))
    return out
