"""Run-time form of the itertools contracts on the real functions (bounded)."""
from __future__ import annotations
import asyncio
import collections
import itertools
import random


class Src:
    """Iterable that counts pulls, optionally fails at a position."""

    def __init__(self, items, fail_at=-1):
        self.items = list(items)
        self.pulled = 0
        self.fail_at = fail_at

    def __iter__(self):
        for i, x in enumerate(self.items):
            if i == self.fail_at:
                raise RuntimeError("source failure")
            self.pulled += 1
            yield x
        if self.fail_at == len(self.items):
            raise RuntimeError("source failure")


def _cases(ctx, big):
    rnd = random.Random(ctx["seed"])
    sizes = [0, 1, 2, 3, 5, 8]
    bufs = [1, 2, 3, 4, 7, 20]
    for n in sizes:
        for b in bufs:
            yield n, b
    for _ in range(big):
        yield rnd.randint(0, 30), rnd.randint(1, 12)
    for c in (ctx.get("cex") or []):
        m = c.get("model") or {}
        try:
            b = int(str(m.get("buffer_size", "1")).split()[0])
            n = int(str(m.get("iterable_n", m.get("iterables_n", "3"))).split()[0])
            for dn in range(0, 3):
                for db in range(0, 3):
                    yield max(0, n + dn), max(1, b + db)
        except Exception:  # noqa: BLE001
            pass


def check_exactly_once(ctx):
    from sedpack.io.itertools import shuffle_buffer, round_robin
    big = 40 if ctx["tier"] == "quick" else 600
    rnd = random.Random(ctx["seed"] + 1)
    out = []
    n_eval = 0
    bad = None
    # element values: the stream may carry ANY value, also the ones a careless
    # end-of-input test could mistake for "nothing" (None, 0, '', (), False)
    falsy = [None, 0, "", (), False, 0.0, b""]
    for n, b in _cases(ctx, big):
        n_eval += 1
        src = Src(range(n))
        got = list(shuffle_buffer(src, b))
        if collections.Counter(got) != collections.Counter(range(n)):
            bad = {"n": n, "buffer_size": b, "got": got[:50]}
            break
        vals = [falsy[i % len(falsy)] if i % 3 == 1 else i for i in range(n)]
        got = list(shuffle_buffer(Src(vals), b))
        if collections.Counter(map(repr, got)) != \
                collections.Counter(map(repr, vals)):
            bad = {"n": n, "buffer_size": b, "values": "with None / 0 / '' / ()",
                   "got": [repr(x) for x in got[:30]],
                   "expected_len": len(vals), "got_len": len(got)}
            break
        # a failing source must propagate
        if n:
            fa = rnd.randint(0, n)
            try:
                list(shuffle_buffer(Src(range(n), fail_at=fa), b))
                bad = {"n": n, "buffer_size": b, "fail_at": fa,
                       "what": "source failure swallowed"}
                break
            except RuntimeError:
                pass
    out.append({"check": "shuffle_buffer exactly-once + failure propagates",
                "function": "shuffle_buffer", "ok": bad is None,
                "evaluations": n_eval, "witness": bad,
                "bound": f"n<=30, buffer<=20, {n_eval} cases"})
    bad = None
    n_eval = 0
    for n, b in _cases(ctx, big):
        n_eval += 1
        lens = [rnd.randint(0, 4) for _ in range(n)]
        inner = [[(j, p) for p in range(lens[j])] for j in range(n)]
        got = list(round_robin(Src(inner), b))
        exp = [t for l in inner for t in l]
        if collections.Counter(got) != collections.Counter(exp):
            bad = {"lens": lens, "buffer_size": b, "got": got[:50]}
            break
        inner2 = [[None if (j + p) % 2 else 0 for p in range(lens[j])]
                  for j in range(n)]
        got = list(round_robin(Src(inner2), b))
        if len(got) != sum(lens) or collections.Counter(map(repr, got)) != \
                collections.Counter(repr(t) for l in inner2 for t in l):
            bad = {"lens": lens, "buffer_size": b,
                   "values": "None / 0 elements", "got_len": len(got)}
            break
    out.append({"check": "round_robin exactly-once (tokens)",
                "function": "round_robin", "ok": bad is None,
                "evaluations": n_eval, "witness": bad,
                "bound": f"n<=30 inner lists of len<=4, {n_eval} cases"})
    return out


def check_laziness(ctx):
    from sedpack.io.itertools import shuffle_buffer, round_robin
    big = 20 if ctx["tier"] == "quick" else 300
    out = []
    bad = None
    n_eval = 0
    for n, b in _cases(ctx, big):
        # infinite source as well as finite
        for inf in (False, True):
            n_eval += 1
            src = Src(itertools.count() if False else range(n))
            if inf:
                class Inf:
                    pulled = 0

                    def __iter__(s):
                        for x in itertools.count():
                            s.pulled += 1
                            yield x
                src = Inf()
            g = shuffle_buffer(src, b)
            yielded = 0
            for _ in itertools.islice(g, 25):
                yielded += 1
                if src.pulled - yielded > b:
                    bad = {"n": n, "buffer_size": b, "inf": inf,
                           "pulled": src.pulled, "yielded": yielded}
                    break
            if bad:
                break
        if bad:
            break
    out.append({"check": "shuffle_buffer read-ahead <= buffer_size + 1 at "
                "every yield (after the element is handed over: <= b)",
                "function": "shuffle_buffer", "ok": bad is None,
                "evaluations": n_eval, "witness": bad,
                "bound": "finite n<=30 and infinite sources, first 25 yields"})
    # round_robin: the outer iterable (of iterables) is pulled only as far as
    # the buffer needs - buffer_size, plus one per inner iterable used up
    bad = None
    n_eval = 0
    for b in (1, 2, 3, 5, 8):
        for inner_len in (1, 3):
            n_eval += 1

            class Outer:
                pulled = 0

                def __iter__(s):
                    for k in range(1000):
                        s.pulled += 1
                        yield [(k, j) for j in range(inner_len)]
            src = Outer()
            yielded = 0
            for _ in itertools.islice(round_robin(src, buffer_size=b), 25):
                yielded += 1
                if src.pulled > b + yielded // inner_len + 1:
                    bad = {"buffer_size": b, "inner_length": inner_len,
                           "outer_pulled": src.pulled, "yielded": yielded,
                           "allowed": b + yielded // inner_len + 1}
                    break
            if bad:
                break
        if bad:
            break
    out.append({"check": "round_robin pulls <= buffer_size + (inner iterables "
                "used up) + 1 of the outer iterable at every yield",
                "function": "round_robin", "ok": bad is None,
                "evaluations": n_eval, "witness": bad,
                "bound": "1000 inner iterables of length 1 / 3, buffer sizes "
                         "1..8, first 25 yields"})
    return out
