"""Bounded stress of the real LazyPool with real threads (stand-in for the
schedules quantifier of C13, which contracts do not decide)."""
from __future__ import annotations
import collections
import random
import threading
import time

from . import common as C


def _run(fn, timeout=20):
    res = {}

    def go():
        try:
            res["v"] = fn()
        except BaseException as e:  # noqa: BLE001
            res["e"] = e
    t = threading.Thread(target=go, daemon=True)
    t.start()
    t.join(timeout)
    if t.is_alive():
        return "hang", None
    if "e" in res:
        return "exc", res["e"]
    return "ok", res["v"]


def check_pool(ctx):
    from sedpack.io.itertools import LazyPool
    rnd = random.Random(ctx["seed"])
    tier = ctx["tier"]
    bad = None
    n_eval = 0
    base_threads = threading.active_count()
    Ts = [1, 2, 3] if tier == "quick" else [1, 2, 3, 5, 8]
    for T in Ts:
        ns = sorted({0, 1, T - 1, T, T + 1, 2 * T + 1, 2 * T + 2, 2 * T + 3,
                     3 * T + 7} - {-1})
        for n in ns:
            for jitter in (False, True):
                n_eval += 1

                def f(x, jitter=jitter):
                    if jitter:
                        time.sleep(rnd.random() * 0.002)
                    return 2 * x

                def full():
                    with LazyPool(T) as pool:
                        out = list(pool.imap_unordered(f, range(n)))
                        # reuse after a full pass
                        out2 = list(pool.imap_unordered(f, range(n)))
                    return out, out2
                st, v = _run(full)
                if st != "ok" or collections.Counter(v[0]) != \
                        collections.Counter(2 * i for i in range(n)) or \
                        collections.Counter(v[1]) != collections.Counter(v[0]):
                    bad = dict(T=T, n=n, outcome=st, value=repr(v)[:200])
                    break
                # early exit at every position, then reuse
                for stop in sorted({0, 1, n // 2, max(0, n - 1)}):
                    if stop >= n:
                        continue
                    n_eval += 1

                    def early(stop=stop):
                        pool = LazyPool(T)
                        with pool:
                            got = []
                            for y in pool.imap_unordered(f, range(n)):
                                got.append(y)
                                if len(got) > stop:
                                    break
                        with pool:
                            again = list(pool.imap_unordered(f, range(n)))
                        return got, again
                    st, v = _run(early)
                    if st != "ok" or collections.Counter(v[1]) != \
                            collections.Counter(2 * i for i in range(n)):
                        bad = dict(T=T, n=n, early_exit_after=stop,
                                   outcome=st, value=repr(v)[:200])
                        break
                if bad:
                    break
                # failing input at every position: must raise, not hang
                for failpos in sorted({0, n // 2, n - 1}):
                    if failpos < 0 or failpos >= n:
                        continue
                    n_eval += 1

                    def g(x, failpos=failpos):
                        if x == failpos:
                            raise RuntimeError("boom")
                        return x

                    def failing():
                        with LazyPool(T) as pool:
                            return list(pool.imap_unordered(g, range(n)))
                    st, v = _run(failing)
                    if st != "exc" or not isinstance(v, RuntimeError):
                        bad = dict(T=T, n=n, failing_input=failpos,
                                   outcome=st, value=repr(v)[:200])
                        break
                if bad:
                    break
            if bad:
                break
        if bad:
            break
    # the consumer's own code raises inside the pool's context (not the
    # mapped function): the exception comes out, every worker terminates and
    # the pool can be entered again
    if bad is None:
        for T in Ts:
            for n in (T, 2 * T + 3, 3 * T + 7):
                for after in sorted({0, min(1, n - 1), n - 1}):
                    n_eval += 1

                    class _Mine(Exception):
                        pass

                    def consumer_raises(T=T, n=n, after=after):
                        pool = LazyPool(T)
                        seen = 0
                        try:
                            with pool:
                                for _ in pool.imap_unordered(
                                        lambda x: 2 * x, range(n)):
                                    seen += 1
                                    if seen > after:
                                        raise _Mine()
                        except _Mine:
                            pass
                        else:
                            return "swallowed", None
                        with pool:
                            return "raised", list(pool.imap_unordered(
                                lambda x: 2 * x, range(n)))
                    st, v = _run(consumer_raises)
                    if st != "ok" or v[0] != "raised" or collections.Counter(
                            v[1]) != collections.Counter(
                                2 * i for i in range(n)):
                        bad = dict(T=T, n=n, consumer_raises_after=after,
                                   outcome=st, value=repr(v)[:200])
                        break
                if bad:
                    break
            if bad:
                break
    # many threads (more than any fixed read-ahead cap) and the degenerate
    # counts 0 / -1 (which mean one worker)
    if bad is None:
        for T in (40, 0, -1):
            for n in (0, 1, 7, 100):
                n_eval += 1

                def full(T=T, n=n):
                    with LazyPool(T) as pool:
                        return list(pool.imap_unordered(lambda x: 2 * x,
                                                        range(n)))
                st, v = _run(full)
                if st != "ok" or collections.Counter(v) != \
                        collections.Counter(2 * i for i in range(n)):
                    bad = dict(T=T, n=n, outcome=st, value=repr(v)[:200])
                    break
            if bad:
                break
    # a consumer that pauses (6 s) between two results still gets every
    # result: a worker that finds nothing to do must wait, not give up
    if bad is None:
        n_eval += 1
        T, n = 3, 40
        pause = 6.0 if tier == "quick" else 12.0

        def slow_consumer():
            got = []
            with LazyPool(T) as pool:
                for y in pool.imap_unordered(lambda x: 2 * x, range(n)):
                    got.append(y)
                    if len(got) == 2:
                        time.sleep(pause)
            return got
        st, v = _run(slow_consumer, timeout=40)
        if st != "ok" or collections.Counter(v) != collections.Counter(
                2 * i for i in range(n)):
            bad = dict(T=T, n=n, consumer_pause_s=pause, outcome=st,
                       value=repr(v)[:200])
    time.sleep(0.3)
    leaked = threading.active_count() - base_threads
    out = [C.result(
        "LazyPool with real threads: one result per input, terminates, "
        "early exit + reuse, failing input raises (no hang), consumer's own "
        "exception + reuse, consumer pausing 6 s", bad is None,
        function="imap_unordered", evaluations=n_eval, witness=bad,
        bound=f"T in {Ts}, n around T and 2T+2, all early-exit / failure "
              f"positions sampled, OS scheduling (not all interleavings)")]
    out.append(C.result("no worker thread left running after the pool's "
                        "context is left", leaked <= 0, function="Collector.run",
                        witness={"leaked_threads": leaked}))
    return out
