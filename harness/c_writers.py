"""Bounded run-time checks around the writers: round-trip fidelity (C01),
shard sizes (C10), shard-level custom metadata (C11), all-or-nothing
write-time validation (C18)."""
from __future__ import annotations
import collections
import copy
import itertools
import json
import random
from pathlib import Path

import numpy as np

from . import common as C

FB_COMP = ["", "BZ2", "GZIP", "LZMA", "LZ4", "ZLIB", "ZSTD"]
NP_COMP = ["", "ZIP"]
TF_COMP = ["", "GZIP", "ZLIB"]
NUM_DTYPES = ["int8", "uint8", "int16", "uint16", "int32", "uint32", "int64",
              "uint64", "float16", "float32", "float64"]
TF_DTYPES = ["int8", "uint8", "int32", "int64", "float16", "float32"]


def _values(rnd, dtype, shape):
    """extreme + random bit patterns of the dtype in the given shape"""
    dt = np.dtype(dtype)
    n = int(np.prod(shape)) if shape else 1
    raw = rnd.randbytes(n * dt.itemsize)
    a = np.frombuffer(raw, dtype=dt).copy()
    if dt.kind == "f":
        sp = [0.0, -0.0, np.inf, -np.inf, np.nan, np.finfo(dt).tiny,
              np.finfo(dt).max, np.finfo(dt).min,
              np.finfo(dt).smallest_subnormal]
    else:
        ii = np.iinfo(dt)
        sp = [ii.min, ii.max, 0, 1]
    for k, v in enumerate(sp[:n]):
        a[k] = v
    return a.reshape(shape)


def _present(rnd, a):
    """the same value in another memory layout / byte order / container"""
    outs = [("c", np.array(a, order="C", copy=True))]
    if a.ndim >= 2:
        outs.append(("fortran", np.asfortranarray(a)))
        outs.append(("transposed-view", np.ascontiguousarray(a.T).T))
    if a.ndim >= 1 and a.shape[0] >= 1:
        big = np.zeros((a.shape[0] * 2,) + a.shape[1:], a.dtype)
        big[::2] = a
        outs.append(("strided", big[::2]))
    if a.dtype.itemsize > 1:
        outs.append(("byteswapped", a.astype(a.dtype.newbyteorder(">"))))
    if a.dtype.kind in "iu" and a.ndim <= 1:
        outs.append(("list", a.tolist()))
    return outs


def _bits(x, dtype):
    return np.array(np.asarray(x).astype(dtype, copy=False), order="C"
                    ).tobytes()


def check_roundtrip(ctx):
    """C01: write with every presentation, read with every interface,
    compare bit patterns."""
    from sedpack.io import Dataset, Metadata, DatasetStructure, Attribute
    rnd = random.Random(ctx["seed"] + 3)
    tier = ctx["tier"]
    out = []
    fails = []
    n_eval = 0
    cells = []
    for fmt, comps, dtypes in (("fb", FB_COMP, NUM_DTYPES),
                               ("npz", NP_COMP, NUM_DTYPES),
                               ("tfrec", TF_COMP, TF_DTYPES)):
        for comp in comps:
            cells.append((fmt, comp, dtypes))
    if tier == "quick":
        cells = [c for c in cells if c[1] in ("", "LZ4", "ZIP", "GZIP")]
    shapes = [(), (3,), (2, 3), (2, 1, 3), (2, 2, 1, 2)]
    with C.tmpdir() as tmp:
        for ci, (fmt, comp, dtypes) in enumerate(cells):
            dts = dtypes if tier != "quick" else rnd.sample(dtypes, 4)
            for dtype in dts:
                shape = rnd.choice(shapes) if tier == "quick" else None
                for shp in ([shape] if shape is not None else shapes):
                    root = tmp / f"rt{ci}_{dtype}_{len(shp)}"
                    attrs = [Attribute(name="id", dtype="int64", shape=()),
                             Attribute(name="x", dtype=dtype, shape=shp)]
                    if fmt != "fb":    # fb has no variable-size attributes
                        attrs += [Attribute(name="b", dtype="bytes", shape=()),
                                  Attribute(name="s", dtype="str", shape=())]
                    if fmt == "tfrec" and dtype == "float16" and shp == ():
                        pass
                    ds = DatasetStructure(saved_data_description=attrs,
                                          compression=comp,
                                          examples_per_shard=3,
                                          shard_file_type=fmt)
                    d = Dataset.create(root, Metadata(description="rt"), ds)
                    base = _values(rnd, dtype, shp)
                    written = []
                    stray = set()   # deliberately bad writes the format took
                    with d.filler() as f:
                        k = -1
                        for (pname, pv) in _present(rnd, base):
                            k += 1
                            bv = [b"", b"\x00\x01\xff", b"ab\x00",
                                  rnd.randbytes(5)][k % 4]
                            sv = ["", "žluť", "a b", "x"][k % 4]
                            vals = {"id": k, "x": pv}
                            if fmt != "fb":
                                vals.update(b=bv, s=sv)
                            try:
                                f.write_example(values=vals, split="train")
                            except ValueError:
                                # a presentation the format refuses at write
                                # time (e.g. python ints for a narrow dtype)
                                k -= 1
                                continue
                            written.append((pname, bv, sv))
                            if len(written) == 2:
                                # writes the library refuses (wrong shape;
                                # a dtype that cannot be cast safely, which
                                # the fb writer detects at the second
                                # attribute), caught by the caller, who goes
                                # on writing into the same shard: the accepted
                                # examples must still read back as written
                                # (npz does not enforce the dtype: it
                                # would take the complex value and store the
                                # whole column as complex, which puts the
                                # shard outside C01's quantifier - only
                                # safely castable presentations - so that
                                # write is made for fb alone)
                                for bi, bx in enumerate((
                                        np.zeros(tuple(shp) + (2,), dtype),
                                        np.full(shp, 1.5 + 2j, np.complex128))
                                        [:2 if fmt == "fb" else 1]):
                                    try:
                                        f.write_example(
                                            values=dict(vals, x=bx,
                                                        id=10_000 + bi),
                                            split="train")
                                        stray.add(10_000 + bi)
                                    except Exception:  # noqa: BLE001
                                        pass
                    want = _bits(base, dtype)
                    d = Dataset(root)
                    ifaces = ["numpy", "concurrent"] + (
                        ["async"] if fmt != "tfrec" else []) + (
                        ["rust"] if fmt == "fb" and comp in ("", "GZIP", "ZLIB",
                                                             "LZ4") else [])
                    if tier != "quick" or (dtype == dts[0] and comp in (
                            "", "GZIP")):
                        ifaces.append("tf")
                    for iface in ifaces:
                        n_eval += 1
                        try:
                            exs = _read(d, iface)
                        except Exception as e:  # noqa: BLE001
                            fails.append(C.result(
                                "round trip", False, function="decode_array",
                                witness=dict(fmt=fmt, comp=comp, dtype=dtype,
                                             shape=shp, interface=iface,
                                             error=repr(e)[:200])))
                            continue
                        if stray and fmt == "fb" and 10_001 in stray:
                            # fb enforces the declared dtype (C18): a complex
                            # value taken for a real attribute is stored as
                            # something else than what was written
                            fails.append(C.result(
                                "round trip", False,
                                function="save_numpy_vector_as_bytearray",
                                witness=dict(
                                    fmt=fmt, comp=comp, dtype=dtype, shape=shp,
                                    interface=iface, presentation="complex128 "
                                    "value (not safely castable), third write "
                                    "of a shard",
                                    problem="the fb writer accepted it; the "
                                            "example cannot read back as "
                                            "written")))
                            break
                        if stray:
                            # a deliberately bad write was taken: what its
                            # shard-mates read back is C18's business
                            n_eval -= 1
                            continue
                        if sorted(C.ex_id(e) for e in exs) != list(
                                range(len(written))):
                            fails.append(C.result(
                                "round trip", False,
                                function="ShardWriterBase.write",
                                witness=dict(fmt=fmt, comp=comp, dtype=dtype,
                                             shape=shp, interface=iface,
                                             problem="ids read back differ "
                                             "from the accepted writes",
                                             ids=[C.ex_id(e) for e in exs][:12],
                                             accepted=len(written))))
                            continue
                        for e in exs:
                            k = C.ex_id(e)
                            pname, bv, sv = written[k]
                            got = np.asarray(e["x"])
                            rd = dtype
                            if fmt == "tfrec" and np.dtype(dtype).kind in "iu":
                                rd = "int64"
                            if iface == "tf" and fmt != "tfrec":
                                rd = dtype
                            ok_shape = tuple(got.shape) == tuple(shp)
                            if fmt == "tfrec" and np.dtype(dtype).kind in "iu":
                                ok_val = np.array_equal(
                                    got.astype("int64"),
                                    np.asarray(base).astype("int64"))
                            else:
                                ok_val = _bits(got, dtype) == want
                            if fmt == "fb":
                                gb, gs = bv, sv
                            else:
                                gb = e["b"]
                                gb = bytes(gb) if not isinstance(
                                    gb, np.ndarray) else bytes(
                                    gb.item() if gb.shape == () else gb)
                                gs = e["s"]
                                if isinstance(gs, np.ndarray):
                                    gs = gs.item()
                                if isinstance(gs, bytes):
                                    gs = gs.decode("utf-8")
                            key = None
                            bad = None
                            if not ok_shape or not ok_val:
                                bad = "numeric attribute differs"
                                if fmt == "tfrec" and dtype == "float32" and \
                                        ok_shape and _nan_only_diff(got, base):
                                    key = "tfrec-float32-snan:"
                            elif gb != bv:
                                bad = f"bytes differ {gb!r} != {bv!r}"
                                if fmt == "npz" and bv.endswith(b"\x00") and \
                                        gb == bv.rstrip(b"\x00"):
                                    key = "npz-trailing-nul:"
                            elif gs != sv:
                                bad = f"str differs {gs!r} != {sv!r}"
                                if fmt == "npz" and sv.endswith("\x00"):
                                    key = "npz-trailing-nul:"
                            if bad:
                                fails.append(C.result(
                                    "round trip", False,
                                    function="save_numpy_vector_as_bytearray",
                                    witness=dict(fmt=fmt, comp=comp,
                                                 dtype=dtype, shape=shp,
                                                 interface=iface,
                                                 presentation=pname,
                                                 problem=bad),
                                    finding_key=key))
                                break
        # safely castable narrower dtypes and numpy scalars, mixed with
        # full-range values of the declared dtype inside one shard (the first
        # example of a shard being the narrow one)
        narrow = {"int64": ["uint8", "int16", "int32"],
                  "int32": ["int8", "uint16"], "uint32": ["uint8", "uint16"],
                  "float32": ["float16"], "float64": ["float32", "int32"]}
        for fmt in ("fb", "npz", "tfrec"):
            for dtype, srcs in narrow.items():
                if fmt == "tfrec" and dtype not in TF_DTYPES:
                    continue
                root = tmp / f"narrow_{fmt}_{dtype}"
                attrs = [Attribute(name="id", dtype="int64", shape=()),
                         Attribute(name="x", dtype=dtype, shape=(2,)),
                         Attribute(name="s", dtype=dtype, shape=())]
                ds = DatasetStructure(saved_data_description=attrs,
                                      compression="", examples_per_shard=3,
                                      shard_file_type=fmt)
                d = Dataset.create(root, Metadata(description="nw"), ds)
                full = _values(rnd, dtype, (8,))
                seq = []
                for j in range(6):
                    if j % 3 == 0:      # first of its shard: narrow
                        src = srcs[(j // 3) % len(srcs)]
                        x = np.array([1, 2], src)
                        sc = np.dtype(src).type(3)
                    else:
                        x = full[2 * j - 2:2 * j].copy()
                        sc = full[j]
                    seq.append((x, sc))
                kept = []
                with d.filler() as f:
                    for x, sc in seq:
                        try:
                            f.write_example(values={"id": len(kept), "x": x,
                                                    "s": sc}, split="train")
                            kept.append((x, sc))
                        except ValueError:
                            pass    # a presentation this format refuses
                d = Dataset(root)
                for iface in ["numpy", "concurrent"] + (
                        ["rust"] if fmt == "fb" else []):
                    n_eval += 1
                    try:
                        exs = _read(d, iface)
                    except Exception as e:  # noqa: BLE001
                        fails.append(C.result(
                            "round trip", False, function="decode_array",
                            witness=dict(fmt=fmt, dtype=dtype, interface=iface,
                                         presentation="narrow-then-full",
                                         problem="unreadable: " + repr(e)[:200])))
                        continue
                    wide = "int64" if fmt == "tfrec" and np.dtype(
                        dtype).kind in "iu" else dtype
                    for e in exs:
                        x, sc = kept[C.ex_id(e)]
                        if _bits(np.asarray(e["x"]), wide) != _bits(
                                np.asarray(x).astype(dtype), wide) or \
                                _bits(np.asarray(e["s"]), wide) != _bits(
                                    np.asarray(sc).astype(dtype), wide):
                            fails.append(C.result(
                                "round trip", False,
                                function="ShardWriterNP.close" if fmt == "npz"
                                else "save_numpy_vector_as_bytearray",
                                witness=dict(
                                    fmt=fmt, dtype=dtype, interface=iface,
                                    presentation="narrow-then-full",
                                    example=C.ex_id(e),
                                    problem="numeric attribute differs",
                                    written=[str(x.tolist()), str(sc)],
                                    written_as=str(np.asarray(x).dtype),
                                    read=[str(np.asarray(e["x"]).tolist()),
                                          str(e["s"])])))
                            break
        # consecutive examples that are equal under == and differ in their
        # bits (signed zeros, NaN payloads); a str with a lone surrogate (what
        # os.fsdecode gives for a non-UTF-8 file name) is refused or kept
        for fmt in ("fb", "npz", "tfrec"):
            n_eval += 1
            root = tmp / f"eqbits_{fmt}"
            attrs = [Attribute(name="id", dtype="int64", shape=()),
                     Attribute(name="x", dtype="float32", shape=(3,))]
            if fmt != "fb":
                attrs.append(Attribute(name="s", dtype="str", shape=()))
            ds = DatasetStructure(saved_data_description=attrs, compression="",
                                  examples_per_shard=8, shard_file_type=fmt)
            d = Dataset.create(root, Metadata(description="eq"), ds)
            qnan = np.array([0x7fc00000, 0x7fc00001, 0xffc00000],
                            np.uint32).view(np.float32)
            xs = [np.array([0.0, 1.0, -0.0], np.float32),
                  np.array([-0.0, 1.0, 0.0], np.float32),
                  np.array([0.0, 1.0, -0.0], np.float32),
                  qnan, qnan[::-1].copy(), qnan]
            ss = ["a", "a", "caf\udce9.bin", "caf?.bin", "b", "b"]
            kept = []
            with d.filler() as f:
                for x, sv in zip(xs, ss):
                    vals = {"id": len(kept), "x": x}
                    if fmt != "fb":
                        vals["s"] = sv
                    try:
                        f.write_example(values=vals, split="train")
                        kept.append((x, sv))
                    except ValueError:
                        pass     # refused (UnicodeEncodeError is a ValueError)
            d = Dataset(root)
            for iface in ["numpy", "concurrent"] + (
                    ["rust"] if fmt == "fb" else []):
                try:
                    exs = _read(d, iface)
                except Exception as e:  # noqa: BLE001
                    fails.append(C.result(
                        "round trip", False, function="decode_array",
                        witness=dict(fmt=fmt, interface=iface,
                                     presentation="equal-but-different-bits",
                                     problem="unreadable: " + repr(e)[:200])))
                    continue
                for e in exs:
                    x, sv = kept[C.ex_id(e)]
                    gs = sv
                    if fmt != "fb":
                        gs = e["s"]
                        gs = gs.item() if isinstance(gs, np.ndarray) else gs
                        gs = gs.decode("utf-8", "surrogateescape") \
                            if isinstance(gs, bytes) else str(gs)
                    if _bits(np.asarray(e["x"]), "float32") != _bits(
                            x, "float32") or gs != sv:
                        fails.append(C.result(
                            "round trip", False,
                            function="ShardWriterFlatBuffer._write"
                            if fmt == "fb" else "to_tfrecord",
                            witness=dict(
                                fmt=fmt, dtype="float32 / str", interface=iface,
                                presentation="equal-but-different-bits",
                                example=C.ex_id(e),
                                problem="value read differs from the value "
                                        "written",
                                written=[x.view(np.uint32).tolist(), repr(sv)],
                                read=[np.asarray(e["x"], np.float32).view(
                                    np.uint32).tolist(), repr(gs)])))
                        break
        # one shard far larger than any block size a codec wrapper might
        # use (40 MiB of incompressible float32 in 10 examples)
        big_comps = ["LZ4", "ZSTD"] if tier == "quick" else [
            c for c in FB_COMP if c]
        for comp in big_comps:
            n_eval += 1
            root = tmp / f"big_{comp}"
            attrs = [Attribute(name="id", dtype="int64", shape=()),
                     Attribute(name="x", dtype="float32", shape=(1024, 1024))]
            ds = DatasetStructure(saved_data_description=attrs,
                                  compression=comp, examples_per_shard=10,
                                  shard_file_type="fb")
            d = Dataset.create(root, Metadata(description="big"), ds)
            gen = np.random.default_rng(ctx["seed"] + 77)
            blocks = [gen.integers(0, 2 ** 32, (1024, 1024), dtype=np.uint32
                                   ).view(np.float32) for _ in range(10)]
            with d.filler() as f:
                for k, bx in enumerate(blocks):
                    f.write_example(values={"id": k, "x": bx}, split="train")
            d = Dataset(root)
            for iface in ["numpy"] + (["rust"] if comp in (
                    "GZIP", "ZLIB", "LZ4") else []):
                try:
                    exs = _read(d, iface)
                    ok = len(exs) == 10 and all(
                        np.asarray(e["x"]).tobytes() ==
                        blocks[C.ex_id(e)].tobytes() for e in exs)
                    why = f"{len(exs)} of 10 examples read, contents " \
                          f"{'equal' if ok else 'differ'}"
                except Exception as e:  # noqa: BLE001
                    ok, why = False, "unreadable: " + repr(e)[:200]
                if not ok:
                    fails.append(C.result(
                        "round trip", False, function="CompressedFile.compress",
                        witness=dict(fmt="fb", comp=comp, dtype="float32",
                                     shape=(1024, 1024), interface=iface,
                                     presentation="one 40 MiB shard",
                                     problem=why)))
            del blocks
        # a consumer that overwrites what it was handed (in-place
        # normalisation) must not change what later epochs deliver
        import itertools as _it
        for fmt in ("fb", "npz", "tfrec"):
            root = tmp / f"scribble_{fmt}"
            d = C.mk_dataset(root, fmt, "", eps=2)
            C.fill(d, range(5), "train")
            d = Dataset(root)
            want5 = [_bits(C.example(i)["v"], "float32") for i in range(5)]
            for iface in ("numpy", "concurrent") + (
                    ("async",) if fmt != "tfrec" else ()):
                n_eval += 1
                got = []
                try:
                    for e in _epochs(d, iface, 15):
                        got.append((C.ex_id(e), _bits(np.asarray(e["v"]),
                                                      "float32")))
                        for v in e.values():
                            if isinstance(v, np.ndarray) and v.ndim and \
                                    v.flags.writeable:
                                v[...] = 0
                except Exception as ex:  # noqa: BLE001
                    fails.append(C.result(
                        "round trip", False, function="iterate_shard",
                        witness=dict(fmt=fmt, interface=iface,
                                     presentation="repeat", problem="repeating "
                                     "pass failed: " + repr(ex)[:200])))
                    continue
                wrong = [(n, i) for n, (i, b) in enumerate(got)
                         if not 0 <= i < 5 or b != want5[i]]
                if wrong or len(got) != 15:
                    fails.append(C.result(
                        "round trip", False, function="iterate_shard",
                        witness=dict(fmt=fmt, interface=iface,
                                     presentation="repeat",
                                     problem="values delivered in a later "
                                     "epoch differ from the values written "
                                     "after the consumer overwrote the arrays "
                                     "it was handed",
                                     first_wrong_position_and_id=wrong[:3],
                                     delivered=len(got))))
    seen = set()
    for f in fails:
        k = f.get("finding_key") or json.dumps(
            {x: str(f["witness"].get(x)) for x in ("fmt", "dtype", "problem",
                                                   "presentation")})
        if k in seen:
            continue
        seen.add(k)
        out.append(f)
    out.append(C.result(
        "every value read == value written (bit pattern, shape), for every "
        "memory layout / byte order / container, format, compression, reader",
        True, evaluations=n_eval,
        bound=f"{len(cells)} format x compression cells, dtypes "
              f"{'sampled' if tier == 'quick' else 'all'}, ranks 0..4, extreme "
              f"+ random bit patterns"))
    return out


def _nan_only_diff(got, base):
    g = np.asarray(got, dtype=np.float32).reshape(-1)
    b = np.asarray(base, dtype=np.float32).reshape(-1)
    if g.shape != b.shape:
        return False
    gi = g.view(np.uint32)
    bi = b.view(np.uint32)
    diff = gi != bi
    return bool(np.all(np.isnan(b[diff]))) and bool(np.all(np.isnan(g[diff])))


def _epochs(d, iface, n):
    """first n examples of an unshuffled repeating pass"""
    import asyncio
    import itertools as _it
    kw = dict(split="train", repeat=True, shuffle=0)
    if iface == "numpy":
        yield from _it.islice(d.as_numpy_iterator(**kw), n)
    elif iface == "concurrent":
        yield from _it.islice(d.as_numpy_iterator_concurrent(
            file_parallelism=2, **kw), n)
    elif iface == "async":
        # consumed inside the event loop: snapshot, then overwrite, there
        yield from asyncio.run(_async_epochs(d, kw, n))
    else:
        raise ValueError(iface)


async def _async_epochs(d, kw, n):
    out = []
    async for e in d.as_numpy_iterator_async(file_parallelism=2, **kw):
        snap = {k: (np.array(v, copy=True) if isinstance(v, np.ndarray) else v)
                for k, v in e.items()}
        out.append(snap)
        for v in e.values():
            if isinstance(v, np.ndarray) and v.ndim and v.flags.writeable:
                v[...] = 0
        if len(out) >= n:
            break
    return out


def _read(d, iface):
    """examples (dicts) of one unshuffled pass"""
    import asyncio
    kw = dict(split="train", repeat=False, shuffle=0)
    if iface == "numpy":
        return list(d.as_numpy_iterator(**kw))
    if iface == "concurrent":
        return list(d.as_numpy_iterator_concurrent(file_parallelism=2, **kw))
    if iface == "rust":
        return list(d.as_numpy_iterator_rust(file_parallelism=2, **kw))
    if iface == "async":
        async def go():
            return [e async for e in d.as_numpy_iterator_async(
                file_parallelism=2, **kw)]
        return asyncio.run(go())
    if iface == "tf":
        return list(d.as_tfdataset(batch_size=0, **kw).as_numpy_iterator())
    raise ValueError(iface)


# --------------------------------------------------------------------------
def _shards_of(root, split):
    return [(s.get("number_of_examples", 0), s.get("custom_metadata", {}))
            for s, _ in C.tree_shards(root, split)]


def check_shard_sizes(ctx):
    """C10: 1 <= n <= examples_per_shard for every shard; all but the last
    shard of a session/split are full unless the metadata changes."""
    from sedpack.io import Dataset
    rnd = random.Random(ctx["seed"] + 13)
    tier = ctx["tier"]
    bad = None
    n_eval = 0
    with C.tmpdir() as tmp:
        k = 0
        for eps in ([1, 2, 3] if tier == "quick" else [1, 2, 3, 4, 7]):
            counts = sorted({0, 1, eps - 1, eps, eps + 1, 2 * eps - 1, 2 * eps,
                             2 * eps + 1, 3 * eps + 1} - {-1})
            for na in counts:
                for nb in (0, 1, eps + 1):
                    for mdmode in ("none", "same", "change", "tuple",
                                   "rejected", "rejected-by-format",
                                   "per-split"):
                        k += 1
                        n_eval += 1
                        root = tmp / f"s{k}"
                        d = C.mk_dataset(root, "fb", "", eps=eps)
                        # interleave two splits
                        seq = [("train", i) for i in range(na)] + \
                              [("test", 100 + i) for i in range(nb)]
                        rnd.shuffle(seq)
                        change_at = rnd.randint(0, max(0, na - 1))
                        mds = []
                        ntrain = 0
                        try:
                            with d.filler() as f:
                                for sp, i in seq:
                                    md = None
                                    if mdmode == "per-split":
                                        # each split under its own constant
                                        # value, writes interleaved
                                        md = {"split": sp, "n": [1, {"x": 2}]}
                                    elif sp == "train":
                                        if mdmode == "same":
                                            md = {"k": 1}
                                        elif mdmode == "change":
                                            md = {"k": int(ntrain >= change_at)}
                                        elif mdmode == "tuple":
                                            md = {"k": (1, 2), 3: "int key"}
                                        elif mdmode == "rejected" and \
                                                ntrain == change_at:
                                            try:
                                                f.write_example(
                                                    values={"id": 0, "v": np.zeros(7, np.float32)},
                                                    split="train",
                                                    custom_metadata={"k": "bad"})
                                            except ValueError:
                                                pass
                                            md = {"k": "good"}
                                        elif mdmode == "rejected-by-format" \
                                                and ntrain in (change_at,
                                                               change_at + 1):
                                            # right shape, refused by the fb
                                            # writer itself (float64 cannot
                                            # be cast safely to float32)
                                            try:
                                                f.write_example(
                                                    values={"id": 0, "v": np.full(3, 0.1, np.float64)},
                                                    split="train")
                                            except ValueError:
                                                pass
                                        ntrain += 1
                                        mds.append(md)
                                    f.write_example(values=C.example(i),
                                                    split=sp,
                                                    custom_metadata=md)
                        except Exception as e:  # noqa: BLE001
                            bad = dict(eps=eps, train=na, test=nb, md=mdmode,
                                       error=repr(e)[:200])
                            break
                        for sp, total in (("train", na), ("test", nb)):
                            if total == 0:
                                continue
                            sh = _shards_of(root, sp)
                            sizes = [n for n, _ in sh]
                            if sum(sizes) != total or any(
                                    n < 1 or n > eps for n in sizes):
                                bad = dict(eps=eps, split=sp, sizes=sizes,
                                           total=total, md=mdmode)
                                break
                            for j in range(len(sh) - 1):
                                same_md = sh[j][1] == sh[j + 1][1]
                                if sizes[j] != eps and (same_md or mdmode in (
                                        "none", "same", "tuple", "per-split",
                                        "rejected-by-format")):
                                    bad = dict(eps=eps, split=sp, sizes=sizes,
                                               md=mdmode,
                                               what="non-final shard not full "
                                                    "without a metadata change")
                                    break
                            if bad:
                                break
                        if bad:
                            break
                    if bad:
                        break
                if bad:
                    break
            if bad:
                break
        # tfrec: the first write after a rollover is refused by the converter
        # (file already open), the next accepted one carries other metadata
        if bad is None:
            for eps in (2, 3):
                n_eval += 1
                root = tmp / f"tf{eps}"
                d = C.mk_dataset(root, "tfrec", "", eps=eps)
                md = {"k": "A"}
                n_ok = 0
                with d.filler() as f:
                    for i in range(3 * eps):
                        if i == eps:
                            try:
                                f.write_example(
                                    values={"id": 2.5, "v": C.example(i)["v"]},
                                    split="train", custom_metadata=md)
                            except Exception:  # noqa: BLE001
                                pass
                            md = {"k": "B"}
                        f.write_example(values=C.example(i), split="train",
                                        custom_metadata=md)
                        n_ok += 1
                sizes = [n for n, _ in _shards_of(root, "train")]
                if sum(sizes) != n_ok or any(n < 1 or n > eps for n in sizes):
                    bad = dict(fmt="tfrec", eps=eps, sizes=sizes, total=n_ok,
                               md="refused first write of a shard, then "
                                  "other metadata")
                    break
    return [C.result(
        "every recorded shard has 1..examples_per_shard examples; all but the "
        "last shard of a split are full unless the custom metadata changes",
        bad is None, function="write_example", evaluations=n_eval,
        witness=bad, bound="examples_per_shard 1..7, counts around multiples, "
                           "two interleaved splits, metadata none/same/"
                           "changing/tuple-valued/after a rejected write/"
                           "one constant value per split")]


def check_custom_metadata(ctx):
    """C11: each example written with non-empty metadata sits in a shard whose
    recorded metadata equals that value at write time, whatever the caller
    does with the object afterwards."""
    from sedpack.io import Dataset
    rnd = random.Random(ctx["seed"] + 17)
    tier = ctx["tier"]
    bad = None
    n_eval = 0
    scenarios = []
    # (name, generator of (split, metadata-object-or-None, mutate-after))
    def reuse_flat():
        m = {"k": 0}
        for i in range(9):
            m["k"] = i // 3
            yield "train", m
    def reuse_nested():
        m = {"n": {"k": 0, "l": [0]}}
        for i in range(9):
            m["n"]["k"] = i // 2
            m["n"]["l"][0] = i // 2
            yield "train", m
    def mutate_after():
        for i in range(8):
            m = {"k": i // 4, "n": {"x": [i // 4]}}
            yield "train", m
            m["k"] = 99
            m["n"]["x"].append(5)
    def alternate_splits():
        a, b = {"k": "A"}, {"k": "B"}
        for sp, m in [("train", a), ("train", a), ("train", b), ("train", b),
                      ("test", a), ("train", a), ("test", b), ("train", a),
                      ("train", b)]:
            yield sp, m
    def absent_mix():
        for i in range(9):
            yield "train", ({"k": i // 3} if i % 3 else None)
    def key_sets():
        # values that differ only in which keys are present (a key dropped,
        # a key added whose value is None / falsy, the same keys reordered)
        for m in ({"run": 1, "aug": True}, {"run": 1}, {"run": 1, "x": None},
                  {"run": 1, "x": 0}, {"x": 0, "run": 1}, {"run": 1, "x": []},
                  {"run": 1}):
            yield "train", dict(m)
            yield "train", dict(m)
    def pop_in_place():
        m = {"a": 1, "b": 2, "c": {"d": 1, "e": 2}}
        for i in range(8):
            if i == 2:
                m.pop("b")
            if i == 4:
                m["c"].pop("e")
            if i == 6:
                m["b"] = None
            yield "train", m
    def interleaved_switch():
        # another split switches to the new value first
        a, b = {"k": "A"}, {"k": "B"}
        for sp, m in [("train", a), ("test", b), ("train", b), ("train", b),
                      ("test", b), ("test", a), ("train", a), ("test", a),
                      ("train", a), ("test", b), ("train", b)]:
            yield sp, m
    scenarios = [reuse_flat, reuse_nested, mutate_after, alternate_splits,
                 absent_mix, key_sets, pop_in_place, interleaved_switch]
    with C.tmpdir() as tmp:
        k = 0
        for eps in (2, 3, 5):
            for sc in scenarios:
                k += 1
                n_eval += 1
                root = tmp / f"m{k}"
                d = C.mk_dataset(root, "fb", "", eps=eps)
                labels = {}
                i = 0
                try:
                    with d.filler() as f:
                        for sp, m in sc():
                            labels[i] = (sp, copy.deepcopy(m))
                            f.write_example(values=C.example(i), split=sp,
                                            custom_metadata=m)
                            i += 1
                except Exception as e:  # noqa: BLE001
                    # legal examples and legal metadata: the write has to
                    # succeed for the example to be stored under its label
                    bad = dict(scenario=sc.__name__, eps=eps, example=i,
                               written_under=labels.get(i, (None, None))[1],
                               problem="the writing session raised: "
                                       + repr(e)[:200])
                    break
                d2 = Dataset(root)
                for sp in {s for s, _ in labels.values()}:
                    for s, rel in C.tree_shards(root, sp):
                        ids = C.shard_ids(d2, root / s["file_infos"][0]["file_path"])
                        for j in ids:
                            want = labels[j][1]
                            if want and json.loads(json.dumps(want)) != \
                                    s.get("custom_metadata", {}):
                                bad = dict(scenario=sc.__name__, eps=eps,
                                           example=j, written_under=want,
                                           shard_recorded=s.get("custom_metadata"))
                                break
                        if bad:
                            break
                    if bad:
                        break
                if bad:
                    break
                # selecting by metadata returns all and only those examples
                vals = []
                for sp, m in labels.values():
                    if m and sp == "train" and m not in vals:
                        vals.append(m)
                for v in vals[:3]:
                    jv = json.loads(json.dumps(v))
                    want = [j for j, (sp, m) in labels.items()
                            if sp == "train" and m == v]
                    extra_ok = [j for j, (sp, m) in labels.items()
                                if sp == "train" and not m]
                    # alone, and together with the other selection option
                    # (a limit that cannot bite must not change the answer, a
                    # limit of one shard may only shrink it)
                    for iface, lim, opt in (
                            ("numpy", None, None),
                            ("numpy", 1000, "custom_metadata_type_limit"),
                            ("concurrent", 1000, "custom_metadata_type_limit"),
                            ("numpy", 1, "custom_metadata_type_limit"),
                            ("numpy", 1000, "shards"), ("numpy", 1, "shards"),
                            ("concurrent", 1, "shards")):
                        kw = {} if lim is None else {opt: lim}
                        if iface == "concurrent":
                            kw["file_parallelism"] = 2
                        try:
                            got = C.iterate(d2, iface, "train",
                                            shard_filter=lambda s, jv=jv:
                                            s.custom_metadata == jv, **kw)
                        except Exception as e:  # noqa: BLE001
                            if not want:
                                continue     # nothing selected: may refuse
                            bad = dict(scenario=sc.__name__, eps=eps, value=v,
                                       interface=iface, expected=want,
                                       error=repr(e)[:200], **kw)
                            break
                        if (lim != 1 and not set(want) <= set(got)) or \
                                not set(got) <= set(want) | set(extra_ok) or \
                                (lim == 1 and want and not got):
                            bad = dict(scenario=sc.__name__, eps=eps, value=v,
                                       interface=iface, selected=got,
                                       expected=want, **kw)
                            break
                    if bad:
                        break
                if bad:
                    break
            if bad:
                break
        # the writing handle itself (no recorded checksums), asked for a
        # selection, written to again, asked again
        if bad is None:
            n_eval += 1
            root = tmp / "live"
            d = C.mk_dataset(root, "fb", "", eps=2, hashes=())
            C.fill(d, range(0, 4), "train", metadata=[{"run": "A"}] * 4)
            isrun = lambda r: (lambda s: s.custom_metadata == {"run": r})  # noqa: E731
            first = C.iterate(d, "numpy", "train", shard_filter=isrun("A"))
            C.fill(d, range(4, 9), "train",
                   metadata=[{"run": "B"}] * 3 + [{"run": "A"}] * 2)
            for r, want in (("A", [0, 1, 2, 3, 7, 8]), ("B", [4, 5, 6])):
                try:
                    got = C.iterate(d, "numpy", "train", shard_filter=isrun(r))
                except Exception as e:  # noqa: BLE001
                    got = repr(e)[:200]
                if got != want:
                    bad = dict(scenario="writing handle without checksums: "
                               "select, write again, select again",
                               value={"run": r}, selected=got, expected=want,
                               first_selection=first)
                    break
    return [C.result(
        "examples written under a non-empty metadata value are stored in a "
        "shard recorded with that value as of the write (object reused, "
        "mutated flat / nested, keys dropped / added with None or falsy "
        "values / popped in place, alternated across splits, absent)",
        bad is None, function="write_example", evaluations=n_eval,
        witness=bad, bound="8 scenarios x examples_per_shard in {2,3,5}; "
                           "selection by metadata alone and combined with "
                           "custom_metadata_type_limit")]


# --------------------------------------------------------------------------
def check_bad_writes(ctx):
    """C18: a rejected write leaves no trace; an accepted write never makes a
    shard undecodable."""
    from sedpack.io import Dataset, Metadata, DatasetStructure, Attribute
    rnd = random.Random(ctx["seed"] + 19)
    tier = ctx["tier"]
    fails = []
    n_eval = 0
    def good(i, fmt_=None):
        return {"id": np.int64(i), "a": np.full((2, 2), i, np.int32),
                "v": np.array([i, 1.5, -2.0], np.float32),
                "b": (b"x%d" % i) if CURFMT[0] != "fb" else np.uint8(i)}
    CURFMT = ["fb"]
    bads = {
        "wrong-shape-first": lambda i: dict(good(i), id=np.zeros(2, np.int64)),
        "wrong-shape-middle": lambda i: dict(good(i), a=np.zeros((2, 3), np.int32)),
        "wrong-rank-last": lambda i: dict(good(i), v=np.zeros((3, 1), np.float32)),
        "unsafe-dtype-middle": lambda i: dict(good(i), a=np.full((2, 2), 1.5, np.float64)),
        "unsafe-dtype-last": lambda i: dict(good(i), v=np.array([1, 2, 3], np.float64) * 1e300),
        "str-for-int": lambda i: dict(good(i), a=np.full((2, 2), "x")),
        "missing-last": lambda i: {k: v for k, v in good(i).items() if k != "b"},
        "missing-first": lambda i: {k: v for k, v in good(i).items() if k != "id"},
        "extra-key": lambda i: dict(good(i), extra=np.int64(1)),
        "none-scalar": lambda i: dict(good(i), id=None),
        "dict-scalar": lambda i: dict(good(i), id={"a": 1}),
        "huge-int": lambda i: dict(good(i), id=2 ** 70),
        "object-in-array": lambda i: dict(good(i), a=[[1, None], [2, 3]]),
        "float-for-int": lambda i: dict(good(i), id=2.5),
        # the same unrepresentable contents handed over as ndarrays of dtype
        # object (declared shape)
        "object-ndarray": lambda i: dict(good(i), a=np.array(
            [[1, None], [2, 3]], dtype=object)),
        "object-ndarray-bigint": lambda i: dict(good(i), a=np.array(
            [[2 ** 70, 1], [2, 3]], dtype=object)),
        # foreign containers for the variable-size attribute (fb declares it
        # uint8 there: these are then plain unsafe / wrong-shape values)
        "int-for-bytes": lambda i: dict(good(i), b=7),
        "npint-for-bytes": lambda i: dict(good(i), b=np.int64(5)),
        "int-array-for-bytes": lambda i: dict(good(i), b=np.arange(3)),
        "float-array-for-bytes": lambda i: dict(
            good(i), b=np.array([1.5, 2.5], np.float32)),
    }

    def same_value(read, written):
        """does what was read back represent what the caller handed over?"""
        try:
            if isinstance(written, (bytes, bytearray, str)) or isinstance(
                    read, (bytes, str)):
                r = read.item() if isinstance(read, np.ndarray) and \
                    read.shape == () else read
                if isinstance(r, np.ndarray):
                    r = r.tobytes()
                r = r.encode() if isinstance(r, str) else bytes(r)
                if not isinstance(written, (bytes, bytearray, str)):
                    return False
                w = written.encode() if isinstance(written, str) else \
                    bytes(written)
                return r == w or r == w.rstrip(b"\x00")   # npz NULs: F10
            ra, wa = np.asarray(read), np.asarray(written)
            if ra.dtype.kind in "SUO" or wa.dtype.kind in "SUO":
                return ra.shape == wa.shape and bool(
                    np.all(ra.astype(str) == wa.astype(str)))
            return ra.size == wa.size and bool(np.array_equal(
                ra.reshape(-1).astype(np.complex128),
                wa.reshape(-1).astype(np.complex128), equal_nan=True))
        except Exception:  # noqa: BLE001
            return False
    # the rejected write carries the same metadata as its neighbours (so that
    # it really falls where the name says), except in the "other metadata"
    # variant, where it also asks for a new shard (F7)
    positions = ["first-of-shard", "first-of-shard, other metadata", "middle",
                 "last-of-shard", "twice"]
    fmts = ["fb", "npz", "tfrec"]
    with C.tmpdir() as tmp:
        k = 0
        for fmt in fmts:
            CURFMT[0] = fmt
            for bname, bmk in bads.items():
                for pos in (positions if tier != "quick" else
                            rnd.sample(positions, 2)):
                    k += 1
                    n_eval += 1
                    root = tmp / f"b{k}"
                    attrs = [Attribute(name="id", dtype="int64", shape=()),
                             Attribute(name="a", dtype="int32", shape=(2, 2)),
                             Attribute(name="v", dtype="float32", shape=(3,)),
                             # fb has no variable-size attributes: a declared
                             # bytes attribute must be refused at write time
                             Attribute(name="b", dtype="bytes" if fmt != "fb"
                                       else "uint8", shape=())]
                    ds = DatasetStructure(saved_data_description=attrs,
                                          compression="", examples_per_shard=3,
                                          shard_file_type=fmt)
                    d = Dataset.create(root, Metadata(description="bw"), ds)
                    accepted = []
                    rejected = 0
                    bad_at = {"first-of-shard": [3],
                              "first-of-shard, other metadata": [3],
                              "middle": [4], "last-of-shard": [5],
                              "twice": [1, 2]}[pos]
                    err = None
                    try:
                        with d.filler() as f:
                            for i in range(8):
                                if i in bad_at:
                                    try:
                                        f.write_example(
                                            values=bmk(i), split="train",
                                            custom_metadata={"m": i} if
                                            pos.endswith("other metadata")
                                            else {"m": 0})
                                        accepted.append(("bad", i))
                                    except Exception:  # noqa: BLE001
                                        rejected += 1
                                f.write_example(values=good(i), split="train",
                                                custom_metadata={"m": 0})
                                accepted.append(("good", i))
                    except Exception as e:  # noqa: BLE001
                        err = repr(e)[:200]
                    witness = dict(fmt=fmt, bad=bname, position=pos)
                    if err:
                        fails.append(C.result("bad write", False,
                                              function="write_example",
                                              witness=dict(witness, problem="session broke after a rejected write: " + err)))
                        continue
                    try:
                        d2 = Dataset(root)
                        d2.check(show_progressbar=False)
                        got = [e for e in d2.as_numpy_iterator(
                            split="train", repeat=False, shuffle=0)]
                    except Exception as e:  # noqa: BLE001
                        fails.append(C.result("bad write", False,
                                              function="ShardWriterNP._write" if fmt == "npz" else "to_tfrecord" if fmt == "tfrec" else "ShardWriterFlatBuffer._write",
                                              witness=dict(witness, rejected=rejected, problem="dataset unreadable after accepted writes: " + repr(e)[:200])))
                        continue
                    ngood = sum(1 for t, _ in accepted if t == "good")
                    nacc = len(accepted)
                    rec = sum(n for n, _ in _shards_of(root, "train"))
                    ids = [C.ex_id(e) for e in got]
                    goods = [i for t, i in accepted if t == "good"]
                    okvals = all(
                        np.array_equal(np.asarray(e["a"]).astype(np.int64),
                                       np.full((2, 2), C.ex_id(e)))
                        for e in got if C.ex_id(e) in goods) if nacc == ngood \
                        else True
                    # an unusual value that was ACCEPTED has to read back
                    # as that value (pass order = write order here); taking
                    # it and storing something else is neither a rejection
                    # nor a faithful write
                    misread = None
                    if len(got) == nacc:
                        for k_, (t_, i_) in enumerate(accepted):
                            if t_ != "bad":
                                continue
                            w_ = bmk(i_)
                            for an, wv in w_.items():
                                # only a mismatch of the KIND of value
                                # (number given for a bytes / str attribute
                                # or the reverse): numeric narrowing that a
                                # format does not police is not covered by
                                # C18 ("where the format enforces the dtype")
                                # (tfrec polices the kind of a value; npz
                                # stores whatever numpy makes of the column -
                                # the int 7 among bytes becomes b"7" - which
                                # C18 leaves to the format)
                                if fmt != "tfrec":
                                    continue
                                declared_text = an == "b"
                                given_text = isinstance(
                                    wv, (bytes, bytearray, str)) or (
                                    isinstance(wv, np.ndarray) and
                                    wv.dtype.kind in "SU")
                                if declared_text == given_text:
                                    continue
                                if an in got[k_] and wv is not None and \
                                        not same_value(got[k_][an], wv):
                                    misread = dict(attribute=an,
                                                   written=repr(wv)[:80],
                                                   read=repr(got[k_][an])[:80])
                                    break
                            if misread:
                                break
                    if misread:
                        fails.append(C.result(
                            "bad write", False,
                            function="to_tfrecord" if fmt == "tfrec" else "ShardWriterNP._write" if fmt == "npz" else "ShardWriterFlatBuffer._write",
                            witness=dict(witness, rejected=rejected,
                                         problem="a value of a foreign type "
                                         "was accepted and reads back as "
                                         "something else", **misread)))
                        continue
                    if len(got) != nacc or rec != nacc or (
                            nacc == ngood and (ids != goods or not okvals)):
                        fails.append(C.result(
                            "bad write", False,
                            function="ShardWriterNP._write" if fmt == "npz" else "to_tfrecord" if fmt == "tfrec" else "ShardWriterFlatBuffer._write",
                            witness=dict(witness, rejected=rejected,
                                         accepted=nacc, read=len(got),
                                         recorded=rec, ids=ids[:12],
                                         problem="counts / contents differ "
                                                 "from the accepted writes")))
        # attribute declarations the format may not support: either refused at
        # write time or readable afterwards
        for fmt in fmts:
            for dtype in NUM_DTYPES + ["str", "bytes"]:
                k += 1
                n_eval += 1
                root = tmp / f"u{k}"
                attrs = [Attribute(name="id", dtype="int64", shape=()),
                         Attribute(name="x", dtype=dtype,
                                   shape=() if dtype in ("str", "bytes") else (2,))]
                ds = DatasetStructure(saved_data_description=attrs,
                                      compression="", examples_per_shard=3,
                                      shard_file_type=fmt)
                d = Dataset.create(root, Metadata(description="u"), ds)
                nacc = 0
                try:
                    with d.filler() as f:
                        for i in range(2):
                            v = ("s%d" % i) if dtype == "str" else \
                                (b"b%d" % i) if dtype == "bytes" else \
                                np.array([i, 1], dtype)
                            try:
                                f.write_example(values={"id": i, "x": v},
                                                split="train")
                                nacc += 1
                            except Exception:  # noqa: BLE001
                                pass
                except Exception as e:  # noqa: BLE001
                    fails.append(C.result("bad write", False,
                                          function="write_example",
                                          witness=dict(fmt=fmt, bad="declared dtype " + dtype,
                                                       problem="session broke: " + repr(e)[:200])))
                    continue
                if nacc:
                    try:
                        got = list(Dataset(root).as_numpy_iterator(
                            split="train", repeat=False, shuffle=0))
                        if len(got) != nacc:
                            raise AssertionError(f"{len(got)} read, {nacc} accepted")
                    except Exception as e:  # noqa: BLE001
                        fails.append(C.result(
                            "bad write", False, function="to_tfrecord" if fmt == "tfrec" else "save_numpy_vector_as_bytearray",
                            witness=dict(fmt=fmt, bad="declared dtype " + dtype,
                                         problem="accepted at write, unreadable: " + repr(e)[:200])))
    out = []
    seen = set()
    for f in fails:
        kx = json.dumps({x: f["witness"].get(x) for x in ("fmt", "bad")})
        if kx in seen:
            continue
        seen.add(kx)
        out.append(f)
        if len(out) >= 6:
            break
    out.append(C.result(
        "rejected writes leave no trace (counts, contents, later writes) and "
        "accepted writes keep the dataset readable", not fails,
        evaluations=n_eval,
        bound=f"3 formats x {len(bads)} kinds of bad value x positions "
              f"(first - also asking for a new shard - / middle / last of a "
              f"shard, twice)"))
    if fails:
        out[-1]["ok"] = True
    return out


def check_glue(ctx):
    """Run-time audit of the ASSUMED contracts of in-repo glue code (the
    functions whose bodies are outside the verified subset): what the sidecar
    contract says about them is checked on concrete calls."""
    import random as _r
    from sedpack.io.metadata import DatasetStructure, Attribute
    from sedpack.io.shard.get_shard_writer import get_shard_writer
    from sedpack.io.utils import func_or_identity, identity
    from sedpack.io.itertools.lazy_pool import Collector
    import queue
    problems = []
    n = 0
    with C.tmpdir() as tmp:
        for fmt, comp in (("fb", ""), ("fb", "LZ4"), ("npz", ""), ("npz", "ZIP"),
                          ("tfrec", ""), ("tfrec", "GZIP")):
            n += 1
            ds = DatasetStructure(
                saved_data_description=[Attribute(name="id", dtype="int64",
                                                  shape=())],
                compression=comp, shard_file_type=fmt)
            p = tmp / f"d_{fmt}_{comp}" / "sub" / f"x.{fmt}"
            w = get_shard_writer(dataset_structure=ds, shard_file=p)
            # contract: fresh writer for exactly this path, no record yet,
            # not closed, no file touched (the directory may be created)
            if getattr(w, "_shard_file", None) != p:
                problems.append(f"{fmt}: writer path {getattr(w, '_shard_file', None)} != {p}")
            if p.exists():
                problems.append(f"{fmt}: file exists right after construction")
            held = (getattr(w, "_examples", None) or getattr(w, "_buffer", None)
                    or getattr(w, "_tf_shard_writer", None))
            if held:
                problems.append(f"{fmt}: a new writer already holds records")
            if type(w).__name__ != {"fb": "ShardWriterFlatBuffer",
                                    "npz": "ShardWriterNP",
                                    "tfrec": "ShardWriterTFRec"}[fmt]:
                problems.append(f"{fmt}: wrong writer class {type(w).__name__}")
    # func_or_identity: returns f, or the identity
    n += 3
    f = lambda x: x + 1  # noqa: E731
    if func_or_identity(f) is not f:
        problems.append("func_or_identity(f) is not f")
    g = func_or_identity(None)
    if any(g(x) != x for x in (0, "a", (1, 2), None)):
        problems.append("func_or_identity(None) is not the identity")
    if identity(5) != 5:
        problems.append("identity")
    # Collector.__init__ stores its arguments and does not start the thread
    n += 1
    tq, rq = queue.Queue(), queue.Queue()
    c = Collector(func=f, to_process=tq, results=rq)
    if c._to_process is not tq or c._results is not rq or c.func is not f \
            or c.is_alive():
        problems.append("Collector.__init__ contract")
    return [C.result(
        "assumed contracts of in-repo glue (get_shard_writer + writer "
        "constructors, func_or_identity, Collector.__init__) hold on concrete "
        "calls", not problems, function="get_shard_writer", evaluations=n,
        witness=problems[:5] or None,
        bound="6 format x compression cells; 4 identity probes")]
