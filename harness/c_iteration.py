"""Run-time form of the iteration contracts on the real interfaces (bounded).
Reference values come from an independent walk of the JSON metadata
(common.tree_shards) and from decoding every shard on its own."""
from __future__ import annotations
import collections
import numpy as np
import itertools
import json
import os
import random
from pathlib import Path

from . import common as C


def _write_multi(dataset, groups, split="train"):
    """multi-writer call (single process): groups = list of id lists"""
    def feed(filler, ids):
        with filler as f:
            for i in ids:
                f.write_example(values=C.example(i), split=split)
        return len(ids)
    return dataset.write_multiprocessing(
        feed_writer=feed, custom_arguments=[(g,) for g in groups],
        single_process=True, consistency_check=False)


def build_layouts(root, fmt="fb", compression=""):
    """Several shard layouts: flat with a short last shard, a single shard,
    nested lists (root filler + multi-writer + sub-directory), two splits."""
    from sedpack.io import Dataset
    out = {}
    d = C.mk_dataset(root / "flat", fmt, compression, eps=2)
    C.fill(d, range(0, 7), "train")
    C.fill(d, range(100, 103), "test")
    out["flat"] = (root / "flat", {"train": list(range(7)),
                                   "test": [100, 101, 102]})
    d = C.mk_dataset(root / "one", fmt, compression, eps=8)
    C.fill(d, range(0, 3), "train")
    out["one"] = (root / "one", {"train": [0, 1, 2]})
    d = C.mk_dataset(root / "nested", fmt, compression, eps=2)
    C.fill(d, range(0, 3), "train")
    _write_multi(d, [[10, 11, 12], [20], [30, 31, 32, 33]], "train")
    C.fill(d, range(40, 45), "train", rel="sub/deeper")
    C.fill(d, range(50, 52), "holdout")
    # a directory, then a directory below it, then one below that (each in a
    # session of its own)
    d2 = C.mk_dataset(root / "deepening", fmt, compression, eps=2)
    C.fill(d2, range(60, 63), "train", rel="a")
    C.fill(d2, range(70, 72), "train", rel="a/b")
    C.fill(d2, range(80, 81), "train", rel="a/b/c")
    out["deepening"] = (root / "deepening", {"train": [60, 61, 62, 70, 71,
                                                        80]})
    # one multi-writer call whose writers each fill two splits (argument
    # order must hold in both)
    d3 = C.mk_dataset(root / "multi2", fmt, compression, eps=2)

    def feed2(filler, groups):
        with filler as f:
            for sp, ids in groups.items():
                for i in ids:
                    f.write_example(values=C.example(i), split=sp)
    d3.write_multiprocessing(
        feed_writer=feed2, single_process=True, consistency_check=False,
        custom_arguments=[({"train": [100 + 10 * w, 101 + 10 * w, 102 + 10 * w],
                            "test": [200 + 10 * w, 201 + 10 * w]},)
                          for w in range(3)])
    out["multi2"] = (root / "multi2", {
        "train": [100 + 10 * w + j for w in range(3) for j in range(3)],
        "test": [200 + 10 * w + j for w in range(3) for j in range(2)]})
    out["nested"] = (root / "nested", {
        "train": [0, 1, 2, 10, 11, 12, 20, 30, 31, 32, 33, 40, 41, 42, 43,
                  44], "holdout": [50, 51]})
    return out


# the writing sessions of build_layouts()["nested"]["train"], each in the
# order its examples were written (a multi-writer call in argument order);
# later sessions rewrite the split's list, which must not reorder earlier ones
NESTED_SESSIONS = [[0, 1, 2], [10, 11, 12, 20, 30, 31, 32, 33],
                   [40, 41, 42, 43, 44]]


def reference_sequence(dataset, root, split, **sel):
    shards = C.tree_shards(root, split)
    sel3 = C.select_reference(shards, sel.get("k"), sel.get("n"),
                              sel.get("pred"))
    seq = []
    for s, _ in sel3:
        seq.extend(C.shard_ids(dataset, root / s["file_infos"][0]["file_path"]))
    return seq


def _ifaces(fmt, tier):
    ifs = ["numpy", "concurrent"]
    if fmt in ("fb", "npz"):
        ifs.append("async")
    if fmt == "fb":
        ifs.append("rust")
    ifs.append("tf")
    return ifs


def check_exactly_once_interfaces(ctx):
    """C02: Counter(one pass) == Counter(examples written to the split)."""
    from sedpack.io import Dataset
    tier = ctx["tier"]
    rnd = random.Random(ctx["seed"])
    res = []
    n_eval = 0
    bad = None
    fmts = ["fb"] if tier == "quick" else ["fb", "npz", "tfrec"]
    shuffles = [0, 1, 3, 100] if tier == "quick" else [0, 1, 2, 3, 7, 100]
    fps = [1, 2, 8] if tier == "quick" else [1, 2, 3, 4, 8, 20]
    with C.tmpdir() as tmp:
        for fmt in fmts:
            layouts = build_layouts(tmp / fmt, fmt, "")
            for name, (root, expect) in layouts.items():
                d = Dataset(root)
                for split, ids in expect.items():
                    for iface in _ifaces(fmt, tier):
                        combos = list(itertools.product(shuffles, fps))
                        if tier == "quick":
                            combos = rnd.sample(combos, 4 if iface != "tf"
                                                else 1)
                        for shuffle, fp in combos:
                            n_eval += 1
                            calls = []

                            def pr(e, calls=calls):
                                calls.append(1)
                                return e
                            kw = dict(shuffle=shuffle, file_parallelism=fp)
                            if iface in ("numpy", "concurrent", "rust",
                                         "async"):
                                kw["process_record"] = pr
                            try:
                                got = C.iterate(d, iface, split, **kw)
                            except Exception as e:  # noqa: BLE001
                                bad = dict(layout=name, fmt=fmt, split=split,
                                           interface=iface, shuffle=shuffle,
                                           file_parallelism=fp,
                                           error=repr(e)[:300])
                                break
                            if collections.Counter(got) != \
                                    collections.Counter(ids) or (
                                        "process_record" in kw and
                                        len(calls) != len(got)):
                                bad = dict(layout=name, fmt=fmt, split=split,
                                           interface=iface, shuffle=shuffle,
                                           file_parallelism=fp, got=sorted(got),
                                           expected=sorted(ids),
                                           process_record_calls=len(calls))
                                break
                        if bad:
                            break
                    if bad:
                        break
                if bad:
                    break
            if bad:
                break
        # environment: the process may use a single CPU (taskset, a one-CPU
        # container), and file_parallelism left at its default
        env_n = 0
        if bad is None and hasattr(os, "sched_setaffinity"):
            root, expect = build_layouts(tmp / "env", "fb", "")["nested"]
            d = Dataset(root)
            allowed = os.sched_getaffinity(0)
            try:
                for cpus in ({min(allowed)}, allowed):
                    os.sched_setaffinity(0, cpus)
                    for iface in _ifaces("fb", tier):
                        for shuffle in (0, 3):
                            for kw in ({}, {"file_parallelism": 1},
                                       {"file_parallelism": 8}):
                                if iface == "numpy" and kw:
                                    continue
                                env_n += 1
                                try:
                                    got = C.iterate(d, iface, "train",
                                                    shuffle=shuffle, **kw)
                                except Exception as e:  # noqa: BLE001
                                    got = repr(e)[:200]
                                if not isinstance(got, list) or \
                                        collections.Counter(got) != \
                                        collections.Counter(expect["train"]):
                                    bad = dict(layout="nested", fmt="fb",
                                               interface=iface,
                                               shuffle=shuffle,
                                               usable_cpus=len(cpus),
                                               got=got if not isinstance(
                                                   got, list) else sorted(got),
                                               expected=sorted(
                                                   expect["train"]), **kw)
                                    break
                            if bad:
                                break
                        if bad:
                            break
                    if bad:
                        break
            finally:
                os.sched_setaffinity(0, allowed)
        n_eval += env_n
        # thorough tier: a consumer that pauses for 12 s in the middle of a
        # shuffled concurrent pass still gets every example exactly once
        if bad is None and tier != "quick":
            import time as _t
            root = tmp / "pause"
            dp = C.mk_dataset(root, "fb", "", eps=2)
            C.fill(dp, range(0, 60), "train")
            dp = Dataset(root)
            n_eval += 1
            got = []
            for e in dp.as_numpy_iterator_concurrent(
                    split="train", repeat=False, shuffle=4,
                    file_parallelism=3):
                got.append(C.ex_id(e))
                if len(got) == 5:
                    _t.sleep(12.0)
            if collections.Counter(got) != collections.Counter(range(60)):
                bad = dict(layout="30 shards", interface="concurrent",
                           shuffle=4, file_parallelism=3,
                           consumer_pause_s=12.0, delivered=len(got),
                           expected=60)
    res.append(C.result(
        "one pass == multiset written (all interfaces, layouts, shuffle, "
        "file_parallelism, one usable CPU / default parallelism); "
        "process_record called once per example",
        bad is None, function="as_numpy_iterator", evaluations=n_eval,
        witness=bad,
        bound=f"formats {fmts}, 3 layouts (<=16 examples), shuffle in "
              f"{shuffles}, file_parallelism in {fps}"))
    return res


def check_transform_and_live_handle(ctx):
    """C02: (a) a process_record that returns None / falsy values is a value
    like any other: one output per example; (b) one dataset handle that is
    iterated, written to and iterated again sees everything written, also
    when the dataset records no checksums."""
    import asyncio
    from sedpack.io import Dataset
    tier = ctx["tier"]
    bad = None
    n_eval = 0
    with C.tmpdir() as tmp:
        d = C.mk_dataset(tmp / "tr", "fb", "", eps=2)
        ids = list(range(9))
        C.fill(d, ids, "train")
        d = Dataset(tmp / "tr")

        def pr(e):
            i = C.ex_id(e)
            return None if i % 2 == 0 else (0 if i % 3 == 0 else i)
        want = collections.Counter(repr(None if i % 2 == 0 else
                                        (0 if i % 3 == 0 else i)) for i in ids)
        for iface in ("numpy", "concurrent", "async", "rust"):
            for shuffle in (0, 1, 3, 50):
                for fp in ((1,) if iface == "numpy" else (1, 3)):
                    n_eval += 1
                    kw = dict(split="train", process_record=pr, repeat=False,
                              shuffle=shuffle)
                    if iface != "numpy":
                        kw["file_parallelism"] = fp
                    try:
                        if iface == "numpy":
                            got = list(d.as_numpy_iterator(**kw))
                        elif iface == "concurrent":
                            got = list(d.as_numpy_iterator_concurrent(**kw))
                        elif iface == "rust":
                            got = list(d.as_numpy_iterator_rust(**kw))
                        else:
                            async def go():
                                return [x async for x in
                                        d.as_numpy_iterator_async(**kw)]
                            got = asyncio.run(go())
                    except Exception as e:  # noqa: BLE001
                        bad = dict(what="process_record returning None / 0",
                                   interface=iface, shuffle=shuffle, fp=fp,
                                   error=repr(e)[:200])
                        break
                    if collections.Counter(map(repr, got)) != want:
                        bad = dict(what="process_record returning None / 0: "
                                   "outputs are not one per example",
                                   interface=iface, shuffle=shuffle, fp=fp,
                                   got=[repr(x) for x in got], expected=len(ids))
                        break
                if bad:
                    break
            if bad:
                break
        # (b) live handle
        if not bad:
            for hashes in ((), ("sha256",)):
                for iface in _ifaces("fb", tier):
                    n_eval += 1
                    root = tmp / f"live_{len(hashes)}_{iface}"
                    h = C.mk_dataset(root, "fb", "", eps=2, hashes=hashes)
                    C.fill(h, range(0, 5), "train")
                    try:
                        first = C.iterate(h, iface, "train")
                        C.fill(h, range(5, 9), "train")
                        C.fill(h, range(9, 11), "train", rel="sub")
                        second = C.iterate(h, iface, "train")
                    except Exception as e:  # noqa: BLE001
                        bad = dict(what="iterate / write / iterate on one "
                                   "handle", interface=iface,
                                   hash_algorithms=list(hashes),
                                   error=repr(e)[:200])
                        break
                    # ... and the handle's other splits are their own
                    try:
                        C.fill(h, range(100, 103), "test")
                        C.fill(h, range(200, 202), "holdout")
                        others = {sp: sorted(C.iterate(h, iface, sp))
                                  for sp in ("test", "holdout", "train")}
                    except Exception as e:  # noqa: BLE001
                        others = repr(e)[:200]
                    if others != {"test": [100, 101, 102],
                                  "holdout": [200, 201],
                                  "train": list(range(11))}:
                        bad = dict(what="one handle asked for one split "
                                   "after another", interface=iface,
                                   hash_algorithms=list(hashes), got=others)
                        break
                    if sorted(first) != list(range(5)) or \
                            sorted(second) != list(range(11)):
                        bad = dict(what="iterate / write / iterate on one "
                                   "handle: the second pass does not see "
                                   "everything written", interface=iface,
                                   hash_algorithms=list(hashes),
                                   first=sorted(first), second=sorted(second))
                        break
                if bad:
                    break
    return [C.result(
        "a transformation returning None / 0 gives one output per example "
        "(every interface, shuffle below / above the size); one handle "
        "iterated, written to and iterated again sees all examples (with and "
        "without recorded checksums)", bad is None,
        function="as_numpy_iterator", evaluations=n_eval, witness=bad,
        bound="9 examples; shuffle in {0,1,3,50}; hash tuples (), (sha256)")]


def check_order(ctx):
    """C03: shuffle=0 => reference sequence, same on every pass / reopen."""
    from sedpack.io import Dataset
    tier = ctx["tier"]
    bad = None
    n_eval = 0
    fmts = ["fb"] if tier == "quick" else ["fb", "npz", "tfrec"]
    fps = [1, 2, 3, 5] if tier == "quick" else [1, 2, 3, 4, 5, 6, 7, 8, 20]
    with C.tmpdir() as tmp:
        for fmt in fmts:
            layouts = build_layouts(tmp / fmt, fmt, "")
            for name, (root, expect) in layouts.items():
                d = Dataset(root)
                for split in expect:
                    ref = reference_sequence(d, root, split)
                    if collections.Counter(ref) != collections.Counter(
                            expect[split]):
                        bad = dict(layout=name, what="reference walk differs "
                                   "from what was written", ref=ref)
                        break
                    sessions = NESTED_SESSIONS if (name, split) == (
                        "nested", "train") else [expect[split]]
                    for sess in sessions:
                        if [i for i in ref if i in set(sess)] != sess:
                            bad = dict(layout=name, split=split, what="the "
                                       "examples of one writing session are "
                                       "not listed in the order they were "
                                       "written", session=sess, listed=ref)
                            break
                    if bad:
                        break
                    for iface in _ifaces(fmt, tier):
                        for fp in (fps if iface in ("concurrent", "rust",
                                                    "async") else [2]):
                            if iface == "tf" and tier == "quick" and \
                                    name != "nested":
                                continue
                            n_eval += 1
                            try:
                                a = C.iterate(d, iface, split,
                                              file_parallelism=fp)
                                b = C.iterate(Dataset(root), iface, split,
                                              file_parallelism=fp) \
                                    if fp == fps[0] or iface == "numpy" else a
                            except Exception as e:  # noqa: BLE001
                                bad = dict(layout=name, fmt=fmt, split=split,
                                           interface=iface,
                                           file_parallelism=fp,
                                           error=repr(e)[:300])
                                break
                            if a != ref or b != ref:
                                bad = dict(layout=name, fmt=fmt, split=split,
                                           interface=iface,
                                           file_parallelism=fp, got=a,
                                           second_pass=b, expected=ref)
                                break
                        if bad:
                            break
                    if bad:
                        break
                if bad:
                    break
            if bad:
                break
        # one handle (no recorded checksums) iterated, written to again and
        # iterated again: same sequence as a fresh open, old examples first
        if bad is None:
            root = tmp / "live_order"
            d = C.mk_dataset(root, "fb", "", eps=2, hashes=())
            C.fill(d, range(0, 5), "train")
            first = C.iterate(d, "numpy", "train")
            C.fill(d, range(5, 9), "train")
            C.fill(d, range(20, 23), "train", rel="sub")
            ref = reference_sequence(d, root, "train")
            for iface in ("numpy", "concurrent"):
                n_eval += 1
                a = C.iterate(d, iface, "train", file_parallelism=2)
                b = C.iterate(Dataset(root), iface, "train", file_parallelism=2)
                if not (a == b == ref) or ref[:5] != first:
                    bad = dict(layout="handle iterated, written to, iterated "
                               "again (hash_checksum_algorithms=())",
                               interface=iface, kept_handle=a, fresh_open=b,
                               expected=ref, first_pass=first)
                    break
        # write order must also survive the selection options
        if bad is None:
            root = tmp / "md_order"
            _md_dataset(root, "fb")
            d = Dataset(root)
            for n in (1, 2, 5):
                for k in (None, 5):
                    ref = reference_sequence(d, root, "train", k=k, n=n)
                    for iface in ("numpy", "concurrent"):
                        n_eval += 1
                        got = C.iterate(d, iface, "train", shards=k,
                                        custom_metadata_type_limit=n,
                                        file_parallelism=2)
                        if got != ref:
                            bad = dict(layout="metadata runs A B A C A",
                                       interface=iface, limit=n, shards=k,
                                       got=got, expected=ref)
                            break
                    if bad:
                        break
                if bad:
                    break
    return [C.result(
        "unshuffled pass == write order (reference walk), every "
        "file_parallelism, repeated pass and reopen", bad is None,
        function="as_numpy_iterator_concurrent", evaluations=n_eval,
        witness=bad, bound=f"formats {fmts}, 3 layouts, fp in {fps}")]


def _md_dataset(root, fmt="fb"):
    """non-contiguous metadata runs A B A C A, eps 2"""
    d = C.mk_dataset(root, fmt, "", eps=2)
    ids = list(range(0, 13))
    # the value A is an equal dict every time, its nested dict built with the
    # keys in another order from run to run
    mds = ([{"k": "A", "n": {"x": [1, 2], "y": 0}}] * 3 + [{"k": "B"}] * 3 +
           [{"n": {"y": 0, "x": [1, 2]}, "k": "A"}] * 3 + [{"k": "C"}] * 2 +
           [{"k": "A", "n": {"y": 0, "x": [1, 2]}}] * 2)
    from sedpack.io.dataset_filler import DatasetFiller
    with d.filler() as f:
        for i, md in zip(ids, mds):
            f.write_example(values=C.example(i), split="train",
                            custom_metadata=md)
    return d


def check_selection(ctx):
    """C12: shards=k, shard_filter, custom_metadata_type_limit=n select the
    same shards in every interface accepting the option."""
    from sedpack.io import Dataset
    tier = ctx["tier"]
    bad = None
    n_eval = 0
    fmts = ["fb"] if tier == "quick" else ["fb", "npz", "tfrec"]
    with C.tmpdir() as tmp:
        for fmt in fmts:
            root = tmp / ("md_" + fmt)
            d = _md_dataset(root, fmt)
            d = Dataset(root)
            nshards = len(C.tree_shards(root, "train"))
            preds = {
                "none": None,
                "A": lambda s: (s.custom_metadata if hasattr(
                    s, "custom_metadata") else s.get("custom_metadata", {})
                ).get("k") == "A",
                "notB": lambda s: (s.custom_metadata if hasattr(
                    s, "custom_metadata") else s.get("custom_metadata", {})
                ).get("k") != "B",
                # exactly one shard
                "C": lambda s: (s.custom_metadata if hasattr(
                    s, "custom_metadata") else s.get("custom_metadata", {})
                ).get("k") == "C",
            }
            ks = [None, 1, 3, nshards, nshards + 5]
            ns = [None, 1, 2, 10]
            for pname, pred in preds.items():
                for k in ks:
                    for n in ns:
                        ref = reference_sequence(d, root, "train", k=k, n=n,
                                                 pred=pred)
                        for iface in _ifaces(fmt, tier):
                            if n is not None and iface in ("async", "rust"):
                                continue
                            if iface == "tf" and tier == "quick" and not (
                                    n == 1 and k is None):
                                continue
                            n_eval += 1
                            kw = dict(shards=k, shard_filter=pred,
                                      file_parallelism=2)
                            if n is not None:
                                kw["custom_metadata_type_limit"] = n
                            try:
                                got = C.iterate(d, iface, "train", **kw)
                            except Exception as e:  # noqa: BLE001
                                bad = dict(fmt=fmt, interface=iface, shards=k,
                                           limit=n, filter=pname,
                                           error=repr(e)[:300])
                                break
                            if got != ref:
                                bad = dict(fmt=fmt, interface=iface, shards=k,
                                           limit=n, filter=pname, got=got,
                                           expected=ref)
                                break
                            # the same selection, shuffled: same multiset
                            # (selections of one shard and of several)
                            if not (k in (None, 1, 3) and n in (None, 1)):
                                continue
                            n_eval += 1
                            try:
                                got = C.iterate(d, iface, "train", shuffle=3,
                                                **kw)
                            except Exception as e:  # noqa: BLE001
                                got = repr(e)[:300]
                            if not isinstance(got, list) or \
                                    sorted(got) != sorted(ref):
                                bad = dict(fmt=fmt, interface=iface, shards=k,
                                           limit=n, filter=pname, shuffle=3,
                                           got=got, expected_multiset=ref)
                                break
                        if bad:
                            break
                    if bad:
                        break
                if bad:
                    break
            if bad:
                break
            # a selection matching nothing is an error
            for iface in _ifaces(fmt, tier):
                n_eval += 1
                try:
                    got = C.iterate(d, iface, "train",
                                    shard_filter=lambda s: False)
                    bad = dict(fmt=fmt, interface=iface,
                               what="empty selection did not raise", got=got)
                    break
                except ValueError:
                    pass
                except Exception as e:  # noqa: BLE001
                    # tf wraps errors; anything raised is fine
                    pass
            if bad:
                break
        # the SAME predicate object asked again after its answer changed (a
        # selector with state): every call evaluates it afresh
        if bad is None:
            root = tmp / "md_fb"
            d = Dataset(root)

            class Selector:
                def __init__(self):
                    self.allowed = {"A"}

                def __call__(self, s):
                    md = s.custom_metadata if hasattr(
                        s, "custom_metadata") else s.get("custom_metadata", {})
                    return md.get("k") in self.allowed
            sel = Selector()
            for iface in ("numpy", "concurrent"):
                for allowed in ({"A"}, {"B"}, {"B", "C"}, set()):
                    n_eval += 1
                    sel.allowed = allowed
                    try:
                        ref = reference_sequence(d, root, "train", pred=sel)
                    except ValueError:
                        ref = []
                    try:
                        got = C.iterate(d, iface, "train", shard_filter=sel,
                                        file_parallelism=2)
                    except ValueError:
                        got = "ValueError"
                    except Exception as e:  # noqa: BLE001
                        got = repr(e)[:200]
                    if got != (ref if ref else "ValueError"):
                        bad = dict(what="one predicate object whose answer "
                                   "changes between calls", interface=iface,
                                   allowed=sorted(allowed), got=got,
                                   expected=ref or "ValueError (empty "
                                   "selection)")
                        break
                if bad:
                    break
        # one handle without recorded checksums: select, write more through
        # the same handle, select again - the selection sees the new shards
        if bad is None:
            root = tmp / "live_nohash"
            d = C.mk_dataset(root, "fb", "", eps=2, hashes=())
            C.fill(d, range(0, 4), "train", metadata=[{"k": "A"}] * 4)
            first = C.iterate(d, "numpy", "train", shards=1)
            C.fill(d, range(4, 10), "train",
                   metadata=[{"k": "B"}] * 3 + [{"k": "A"}] * 3)
            isB = lambda s: (s.custom_metadata if hasattr(  # noqa: E731
                s, "custom_metadata") else s.get("custom_metadata", {})
            ).get("k") == "B"
            for kw, sel in ((dict(shards=4), dict(k=4)),
                            (dict(shard_filter=isB), dict(pred=isB)),
                            (dict(custom_metadata_type_limit=1), dict(n=1)),
                            (dict(), dict())):
                for iface in ("numpy", "concurrent"):
                    n_eval += 1
                    ref = reference_sequence(d, root, "train", **sel)
                    try:
                        got = C.iterate(d, iface, "train", file_parallelism=2,
                                        **kw)
                    except Exception as e:  # noqa: BLE001
                        got = repr(e)[:300]
                    if got != ref:
                        bad = dict(what="handle created without checksums, "
                                   "iterated, written to again, then asked "
                                   "for a selection", interface=iface,
                                   selection={a: (b if not callable(b) else
                                                  "k == 'B'")
                                              for a, b in kw.items()},
                                   got=got, expected=ref,
                                   first_selection=first)
                        break
                if bad:
                    break
    return [C.result(
        "selection options (first k, predicate, n per metadata value) give "
        "the reference selection in every interface; empty selection raises",
        bad is None, function="shard_paths_dataset", evaluations=n_eval,
        witness=bad, bound=f"formats {fmts}, 7 shards in metadata runs "
                           f"A B A C A, k in 1..>shards, n in 1..10")]


def check_repeat(ctx):
    """C19: repeat=True: endless, only examples of the selected part of the
    split, each epoch complete; unshuffled = the one-pass sequence repeated;
    rust: every epoch is a permutation of the selection.  (For the shuffled
    Python pipelines only membership is checked here: a shuffle buffer may
    hold an element arbitrarily long, so no count bound over a finite prefix
    is sound; the first version of this check had one and raised a false
    alarm, see DESIGN.md.)"""
    from sedpack.io import Dataset
    tier = ctx["tier"]
    bad = None
    n_eval = 0
    with C.tmpdir() as tmp:
        layouts = build_layouts(tmp / "fb", "fb", "")
        root, expect = layouts["flat"]
        d = Dataset(root)
        nshards = len(C.tree_shards(root, "train"))
        # selections: whole split, a strict prefix of the shards
        sels = [None, 2] if tier == "quick" else [None, 1, 2, nshards]
        for iface in _ifaces("fb", tier):
            for k in sels:
                ref = reference_sequence(d, root, "train", k=k)
                ids = sorted(ref)
                for shuffle in (0, 3):
                    # file_parallelism beyond the number of (selected) shards:
                    # a cycled batch then names the same shard more than once
                    fps = (1,) if iface == "numpy" else (
                        (1, 3, nshards + 3) if tier != "quick" or k else (1, 3))
                    for fp in fps:
                        n_eval += 1
                        want = 3 * len(ids) + 2
                        kw = dict(repeat=True, shuffle=shuffle,
                                  file_parallelism=fp)
                        if k:
                            kw["shards"] = k
                        try:
                            got = C.iterate(d, iface, "train", limit=want, **kw)
                        except Exception as e:  # noqa: BLE001
                            bad = dict(interface=iface, shuffle=shuffle, fp=fp,
                                       shards=k, error=repr(e)[:300])
                            break
                        w = dict(interface=iface, shuffle=shuffle, fp=fp,
                                 shards=k)
                        if len(got) != want or not set(got) <= set(ids):
                            bad = dict(w, got=got, selected=ids,
                                       what="not endless / ids outside the "
                                            "selection")
                            break
                        if shuffle == 0 and got != (ref * 4)[:want]:
                            bad = dict(w, got=got, expected=(ref * 4)[:want],
                                       what="unshuffled repeat is not the "
                                            "one-pass sequence repeated")
                            break
                        if iface == "rust":
                            for e in range(3):
                                ep = got[e * len(ids):(e + 1) * len(ids)]
                                if sorted(ep) != ids:
                                    bad = dict(w, epoch=e, got=ep,
                                               selected=ids,
                                               what="epoch is not a "
                                                    "permutation of the "
                                                    "selection")
                                    break
                    if bad:
                        break
                if bad:
                    break
            if bad:
                break
        # a tiny split repeated for 1500 epochs (nothing may grow per epoch),
        # and a handle without recorded checksums asked for its splits in turn
        if bad is None:
            root3 = tmp / "tiny"
            d3 = C.mk_dataset(root3, "fb", "", eps=4, hashes=())
            C.fill(d3, range(0, 3), "train")
            C.fill(d3, range(10, 14), "test")
            for iface in ("numpy", "concurrent", "rust"):
                n_eval += 1
                try:
                    got = C.iterate(d3, iface, "train", limit=4500,
                                    repeat=True, shuffle=0,
                                    file_parallelism=2, timeout=90)
                    got_test = C.iterate(d3, iface, "test", limit=9,
                                         repeat=True, shuffle=0,
                                         file_parallelism=2)
                except BaseException as e:  # noqa: BLE001
                    bad = dict(interface=iface, what="repeating a 3-example "
                               "split for 1500 epochs failed",
                               error=repr(e)[:200])
                    break
                if got != [0, 1, 2] * 1500 or got_test != ([10, 11, 12, 13]
                                                           * 3)[:9]:
                    bad = dict(interface=iface, what="3-example split over "
                               "1500 epochs, then the other split through "
                               "the same handle (no recorded checksums)",
                               train_delivered=len(got),
                               first_wrong=next((k for k, (a, b) in enumerate(
                                   zip(got, [0, 1, 2] * 1500)) if a != b),
                                   None), test_prefix=got_test)
                    break
        # a transformation (or consumer) that works in place on what it is
        # handed: later epochs still deliver the one-pass sequence
        if bad is None:
            for fmt2 in ("npz", "fb"):
                root2 = tmp / ("inplace_" + fmt2)
                d2 = C.mk_dataset(root2, fmt2, "", eps=2)
                C.fill(d2, range(0, 5), "train")
                d2 = Dataset(root2)

                def inplace(e):
                    v = e["v"]
                    out = float(np.asarray(v).reshape(-1)[0])
                    if isinstance(v, np.ndarray) and v.flags.writeable:
                        v += 1000.0
                    return out
                for iface in ("numpy", "concurrent"):
                    n_eval += 1
                    kw = dict(split="train", repeat=True, shuffle=0,
                              process_record=inplace)
                    if iface == "concurrent":
                        kw["file_parallelism"] = 2
                    it = (d2.as_numpy_iterator(**kw) if iface == "numpy" else
                          d2.as_numpy_iterator_concurrent(**kw))
                    got = list(itertools.islice(it, 15))
                    want = [float(i) for i in range(5)] * 3
                    if got != want:
                        bad = dict(fmt=fmt2, interface=iface, shuffle=0,
                                   what="with a transformation that modifies "
                                        "its argument in place, later epochs "
                                        "differ from the first",
                                   got=got, expected=want)
                        break
                if bad:
                    break
        # the object returned by as_tfdataset is iterated several times
        # (e.g. once per training run): every iteration is a stream of its
        # own, starting at the beginning of the split
        if bad is None:
            ref = reference_sequence(d, root, "train")
            for fp in (1, 2):
                n_eval += 1
                try:
                    tfds = d.as_tfdataset(split="train", repeat=True,
                                          shuffle=0, batch_size=0,
                                          file_parallelism=fp)
                    takes = []
                    for n_take in (5, 3, len(ref) + 2):
                        takes.append([C.ex_id(e) for e in itertools.islice(
                            tfds.as_numpy_iterator(), n_take)])
                except Exception as e:  # noqa: BLE001
                    bad = dict(interface="tf", fp=fp,
                               what="iterating the returned dataset again "
                                    "failed", error=repr(e)[:300])
                    break
                want = [(ref * 3)[:n_take] for n_take in (5, 3, len(ref) + 2)]
                if takes != want:
                    bad = dict(interface="tf", fp=fp, shuffle=0,
                               what="a second / third iteration of the "
                                    "returned tf.data.Dataset is not the "
                                    "one-pass sequence repeated from its "
                                    "start", got=takes, expected=want)
                    break
    return [C.result(
        "repeat=True: prefix of 3 epochs + 2 is endless, within the selection "
        "(shards=k or whole split), periodic when unshuffled, a permutation "
        "per epoch for rust",
        bad is None, function="as_numpy_common", evaluations=n_eval,
        witness=bad, bound="fb, 7 examples in 4 shards, shards in "
                           f"{sels}, shuffle in {{0,3}}, file_parallelism up "
                           "to shards+3")]


def _damage(path: Path, kind):
    if kind == "deleted":
        path.unlink()
    elif kind == "emptied":
        path.write_bytes(b"")
    elif kind == "garbage":
        path.write_bytes(b"\x13garbage-not-a-shard" * 11)
    elif kind == "short-column":
        # npz only: the array of the LAST attribute loses its last element.
        # The decoder takes the number of examples from the first attribute
        # and indexes every attribute per example, so it rejects this content
        # (IndexError); a first attribute shortened instead is content the
        # decoder accepts, hence outside C07's quantifier and not generated.
        import numpy as np
        with np.load(path) as z:
            arrays = {k: z[k] for k in z.files}
        last = list(arrays)[-1]
        arrays[last] = arrays[last][:-1]
        with open(path, "wb") as f:
            np.savez(f, **arrays)


def _tfrecord_rejects(path: Path, comp) -> bool:
    """Independent probe: does TensorFlow's TFRecord reader reject the file?"""
    import tensorflow as tf
    try:
        for _ in tf.data.TFRecordDataset([str(path)], compression_type=comp):
            pass
    except Exception:  # noqa: BLE001
        return True
    return False


def check_damage(ctx):
    """C07: a missing / emptied / garbage shard raises within bounded time in
    every interface (never a hang, never a silent skip)."""
    from sedpack.io import Dataset
    tier = ctx["tier"]
    out = []
    fmts = [("fb", ""), ("fb", "GZIP"), ("fb", "LZ4"), ("npz", ""),
            ("tfrec", "")] if tier == "quick" else [
        ("fb", ""), ("fb", "GZIP"), ("fb", "LZ4"), ("npz", ""), ("npz", "ZIP"),
        ("tfrec", ""), ("tfrec", "GZIP")]
    all_kinds = ["deleted", "emptied", "garbage"]
    positions = [0, 1, -1] if tier != "quick" else [1]
    n_eval = 0
    n_skipped = 0
    fails = []
    with C.tmpdir() as tmp:
        for fmt, comp in fmts:
            kinds = list(all_kinds)
            if fmt == "npz":
                kinds.append("short-column")
            if tier == "quick" and fmt != "fb":
                kinds = ["deleted", "short-column" if fmt == "npz"
                         else "garbage"]
            if tier == "quick" and comp == "LZ4":
                kinds = ["emptied", "garbage"]   # codec errors of another type
            for kind in kinds:
                # (quick tier: the LZ4 cases damage the LAST shard, which is
                # not among the first file_parallelism shards handed out)
                for pos in (positions if not (tier == "quick" and
                                              comp == "LZ4") else [-1]):
                    root = tmp / f"{fmt}_{comp}_{kind}_{pos}"
                    d = C.mk_dataset(root, fmt, comp, eps=2)
                    C.fill(d, range(0, 8), "train")
                    shards = C.tree_shards(root, "train")
                    victim = root / shards[pos][0]["file_infos"][0]["file_path"]
                    _damage(victim, kind)
                    if fmt == "tfrec" and kind != "deleted" and \
                            not _tfrecord_rejects(victim, comp):
                        # the property quantifies over content "that the codec
                        # or decoder rejects": a zero-byte uncompressed TFRecord
                        # file IS a valid file of zero records for the
                        # TFRecord decoder, so it is not a damaged shard in the
                        # sense of C07 (the first version of this check
                        # demanded an error here: a false alarm, see DESIGN.md)
                        n_skipped += 1
                        continue
                    d = Dataset(root)
                    for iface in _ifaces(fmt, tier):
                        for shuffle in (0, 5):
                            n_eval += 1
                            key = None
                            try:
                                got = C.iterate(d, iface, "train",
                                                shuffle=shuffle,
                                                file_parallelism=2,
                                                timeout=40)
                                what = f"pass ended normally with {len(got)} " \
                                       f"of 8 examples"
                            except TimeoutError as e:
                                what = "hang: " + str(e)
                            except BaseException:  # noqa: BLE001
                                continue
                            if iface == "rust":
                                key = f"rust-damaged-shard:{kind}"
                            fails.append(C.result(
                                "damaged shard must raise", False,
                                function="imap_unordered" if shuffle and
                                iface == "concurrent" else "as_numpy_iterator",
                                witness=dict(fmt=fmt, compression=comp,
                                             damage=kind, position=pos,
                                             interface=iface, shuffle=shuffle,
                                             outcome=what),
                                finding_key=key))
        # more threads than shards and a rejection that takes a while (48 MiB
        # of garbage): idle workers have stopped before the failure arrives
        for fp in (8,):
            root = tmp / "slowrej"
            d = C.mk_dataset(root, "fb", "", eps=4)
            C.fill(d, range(0, 8), "train")          # 2 shards
            shards = C.tree_shards(root, "train")
            (root / shards[1][0]["file_infos"][0]["file_path"]).write_bytes(
                random.Random(5).randbytes(48 * 1024 * 1024))
            d = Dataset(root)
            for shuffle in (5, 0):
                n_eval += 1
                try:
                    got = C.iterate(d, "concurrent", "train", shuffle=shuffle,
                                    file_parallelism=fp, timeout=40)
                    what = f"pass ended normally with {len(got)} of 8 examples"
                except TimeoutError as e:
                    what = "hang: " + str(e)
                except BaseException:  # noqa: BLE001
                    continue
                fails.append(C.result(
                    "damaged shard must raise", False,
                    function="imap_unordered",
                    witness=dict(fmt="fb", compression="",
                                 damage="48 MiB of garbage", position=1,
                                 interface="concurrent", shuffle=shuffle,
                                 file_parallelism=fp, shards=2, outcome=what)))
        # a repeating (endless) stream over a damaged shard: the error has to
        # reach the consumer when the shard is first needed, not after some
        # number of silent passes
        for fmt, comp, kind in (("fb", "", "deleted"), ("fb", "LZ4", "garbage"),
                                ("npz", "", "short-column")):
            root = tmp / f"rep_{fmt}_{comp}_{kind}"
            d = C.mk_dataset(root, fmt, comp, eps=2)
            C.fill(d, range(0, 8), "train")
            shards = C.tree_shards(root, "train")
            _damage(root / shards[2][0]["file_infos"][0]["file_path"], kind)
            d = Dataset(root)
            for iface in ("numpy", "concurrent", "tf"):
                for shuffle, fp in ((0, 2), (5, 2), (5, 16)):
                    if iface == "numpy" and fp != 2:
                        continue
                    n_eval += 1
                    try:
                        got = C.iterate(d, iface, "train", shuffle=shuffle,
                                        file_parallelism=fp, repeat=True,
                                        limit=4 * 8, timeout=60)
                        what = (f"delivered {len(got)} examples (4 passes' "
                                f"worth) without an error") if len(got) >= 32 \
                            else (f"the repeating stream ended normally after "
                                  f"{len(got)} examples")
                    except TimeoutError as e:
                        what = "hang: " + str(e)
                    except BaseException:  # noqa: BLE001
                        continue
                    fails.append(C.result(
                        "damaged shard must raise", False,
                        function="imap_unordered" if shuffle and
                        iface != "numpy" else "as_numpy_iterator",
                        witness=dict(fmt=fmt, compression=comp, damage=kind,
                                     position=2, interface=iface,
                                     shuffle=shuffle, file_parallelism=fp,
                                     repeat=True, outcome=what)))
    # report: one entry per distinct (finding key or witness class)
    seen = set()
    for f in fails:
        k = f.get("finding_key") or json.dumps(
            {x: f["witness"][x] for x in ("fmt", "damage", "interface")})
        if k in seen:
            continue
        seen.add(k)
        out.append(f)
    out.append(C.result(
        "damaged shard (deleted / emptied / garbage / npz attribute array "
        "cut short; first, middle, last) raises in every interface, shuffled "
        "and not", not fails,
        evaluations=n_eval,
        bound=f"formats {fmts}, positions {positions}, watchdog 40 s; "
              f"{n_skipped} tfrec cases skipped because the TFRecord decoder "
              f"itself accepts the damaged file"))
    if fails:
        out[-1]["ok"] = True  # the individual failures above carry the verdict
    return out


def _wait_for_workers(timeout=20.0):
    import threading
    import time as _t
    from sedpack.io.itertools.lazy_pool import Collector
    end = _t.time() + timeout
    while _t.time() < end:
        if not any(isinstance(t, Collector) and t.is_alive()
                   for t in threading.enumerate()):
            return
        _t.sleep(0.005)


def _guarded_child(module, args, timeout, max_rss_mb):
    """Run `python -m module args` (same interpreter, same sedpack), kill it
    when it exceeds the wall time or the resident memory; returns (list of the
    JSON lines it printed, "exit N" | "killed: ...")."""
    import subprocess
    import sys
    import tempfile
    import time as _t
    import sedpack
    here = os.path.dirname(os.path.dirname(os.path.abspath(__file__)))
    env = dict(os.environ, TF_CPP_MIN_LOG_LEVEL="3", CUDA_VISIBLE_DEVICES="",
               PYTHONDONTWRITEBYTECODE="1",
               PYTHONPATH=os.path.dirname(os.path.dirname(os.path.abspath(
                   sedpack.__file__))) + os.pathsep + here)
    with tempfile.TemporaryFile("w+") as fo:
        pr = subprocess.Popen([sys.executable, "-m", module] + list(args),
                              env=env, cwd=here, stdout=fo,
                              stderr=subprocess.DEVNULL)
        end = _t.time() + timeout
        how = None
        while pr.poll() is None:
            _t.sleep(0.05)
            rss = 0
            try:
                with open(f"/proc/{pr.pid}/status") as f:
                    for ln in f:
                        if ln.startswith("VmRSS:"):
                            rss = int(ln.split()[1]) // 1024
            except OSError:
                pass
            if rss > max_rss_mb:
                how = f"killed: resident memory grew beyond {max_rss_mb} MB"
            elif _t.time() > end:
                how = f"killed: still running after {timeout} s"
            if how:
                pr.kill()
                pr.wait()
                break
        if how is None:
            how = f"exit {pr.returncode}"
        fo.seek(0)
        lines = []
        for ln in fo:
            try:
                lines.append(json.loads(ln))
            except ValueError:
                pass
    return lines, how


def check_lazy(ctx):
    """C14: taking k examples from a repeating stream opens only a bounded
    number of shards beyond those needed."""
    from sedpack.io import Dataset
    from sedpack.io.flatbuffer import IterateShardFlatBuffer
    bad = None
    n_eval = 0
    with C.tmpdir() as tmp:
        root = tmp / "lazy"
        d = C.mk_dataset(root, "fb", "", eps=2)
        C.fill(d, range(0, 40), "train")     # 20 shards
        d = Dataset(root)
        opened = []
        orig = IterateShardFlatBuffer.iterate_shard

        def counting(self, file_path):
            opened.append(str(file_path))
            return orig(self, file_path)
        IterateShardFlatBuffer.iterate_shard = counting
        try:
            for iface in ("numpy", "concurrent"):
                for shuffle in (0, 2):
                    for fp in (1, 2, 3):
                        for take in (1, 3, 7):
                            n_eval += 1
                            del opened[:]
                            try:
                                got = C.iterate(d, iface, "train", limit=take,
                                                repeat=True, shuffle=shuffle,
                                                file_parallelism=fp,
                                                timeout=60)
                            except TimeoutError as e:
                                bad = dict(interface=iface, shuffle=shuffle,
                                           fp=fp, take=take,
                                           opened=len(opened),
                                           outcome="taking finitely many "
                                           "examples from the repeating "
                                           "stream did not end: " + str(e))
                                break
                            # abandoning the pass only QUEUES the stop
                            # sentinels: the pool's worker threads still work
                            # off what they were handed.  Wait for them, so
                            # that their opens are counted for this pass and
                            # not for the next one (the first version of this
                            # check did not wait: a false alarm under load)
                            _wait_for_workers()
                            needed = (take + 1) // 2
                            if iface == "numpy":
                                bound = needed + (shuffle + 1 + 1) // 2 + 1
                            elif shuffle:
                                bound = needed + (2 * (fp or 1) + 3) + (
                                    fp or 1) + 1
                            else:
                                bound = needed + (fp or 1)
                            if len(got) != take or len(opened) > bound:
                                bad = dict(interface=iface, shuffle=shuffle,
                                           fp=fp, take=take,
                                           opened=len(opened), bound=bound)
                                break
                        if bad:
                            break
                    if bad:
                        break
                if bad:
                    break
        finally:
            IterateShardFlatBuffer.iterate_shard = orig
        # the Rust-backed interface with a transformation: the transformation
        # is applied as examples are taken, not to the whole epoch up front
        if bad is None:
            for fp in (1, 3):
                for take in (1, 5):
                    n_eval += 1
                    calls = []

                    def pr(e, calls=calls):
                        calls.append(1)
                        return e
                    try:
                        got = C.iterate(d, "rust", "train", limit=take,
                                        repeat=True, shuffle=0,
                                        file_parallelism=fp, process_record=pr,
                                        timeout=60)
                    except Exception as e:  # noqa: BLE001
                        bad = dict(interface="rust", fp=fp, take=take,
                                   outcome="failed: " + repr(e)[:200])
                        break
                    if len(got) != take or len(calls) > take + 16:
                        bad = dict(interface="rust", fp=fp, take=take,
                                   process_record_calls=len(calls),
                                   bound=take + 16, dataset_examples=40,
                                   what="transformation applied far ahead of "
                                        "the consumer")
                        break
                if bad:
                    break
        # a slow mapped function (0.3 s per shard): the pool still hands out
        # at most 2T+2 inputs beyond the results taken, however long the
        # consumer waits for them
        if bad is None:
            import time as _t
            from sedpack.io.itertools import LazyPool
            for T in (2,):
                n_eval += 1
                pulled = []

                def source():
                    for k in range(1000):
                        pulled.append(k)
                        yield k

                def slow(x):
                    _t.sleep(0.3)
                    return x
                taken = 0
                with LazyPool(T) as pool:
                    for _ in pool.imap_unordered(slow, source()):
                        taken += 1
                        if len(pulled) > taken + 2 * T + 2:
                            bad = dict(interface="LazyPool", threads=T,
                                       seconds_per_call=0.3, results_taken=taken,
                                       inputs_pulled=len(pulled),
                                       bound=taken + 2 * T + 2)
                        if taken >= 4 or bad:
                            break
                _wait_for_workers()
            # ... and with a fast function but a slow consumer (30 ms per
            # result): results waiting to be taken count as read-ahead too
            if bad is None:
                n_eval += 1
                T = 3
                del pulled[:]
                taken = 0
                with LazyPool(T) as pool:
                    for _ in pool.imap_unordered(lambda x: x, source()):
                        taken += 1
                        _t.sleep(0.03)
                        if len(pulled) > taken + 2 * T + 2:
                            bad = dict(interface="LazyPool", threads=T,
                                       consumer_seconds_per_result=0.03,
                                       results_taken=taken,
                                       inputs_pulled=len(pulled),
                                       bound=taken + 2 * T + 2)
                        if taken >= 30 or bad:
                            break
                _wait_for_workers()
        if bad is None:
            # as_tfdataset (documents file_parallelism=None, "chosen
            # automatically"); in a child process watched for memory and time
            cases, how = _guarded_child("harness.lazy_child", [str(root)],
                                        timeout=300, max_rss_mb=3000)
            running = None
            for c in cases:
                if c["event"] == "start":
                    running = c
                    continue
                running = None
                n_eval += 1
                fp_, take, shuffle = c["fp"] or 1, c["take"], c["shuffle"]
                needed = (take + 1) // 2
                # the bound of the concurrent reader underneath, plus 8
                # shards for the read-ahead of tf.data's prefetch
                bound = needed + ((2 * fp_ + 3) + fp_ + 1 if shuffle
                                  else fp_) + 8
                if c["event"] == "hang" or c.get("got") != take or \
                        c["opened"] > bound:
                    bad = dict(interface="tf", shuffle=shuffle, fp=c["fp"],
                               take=take, opened=c["opened"], bound=bound,
                               outcome=c.get("what", c["event"]))
                    break
            if bad is None and how != "exit 0" and not running and \
                    how.startswith("exit"):
                raise RuntimeError("lazy_child failed outside a case: " + how)
            if bad is None and (how != "exit 0" or running):
                r = running or {}
                bad = dict(interface="tf", shuffle=r.get("shuffle"),
                           fp=r.get("fp"), take=r.get("take"),
                           outcome="taking finitely many examples from the "
                                   "repeating stream did not end: child "
                                   "process " + how)
    return [C.result(
        "take k from a repeating stream: shards opened <= needed + bound("
        "shuffle, file_parallelism), independent of the 20-shard dataset",
        bad is None, function="as_numpy_iterator_concurrent",
        evaluations=n_eval, witness=bad,
        bound="fb, 20 shards, k in {1,3,7}, shuffle in {0,2}, fp in {1,2,3}; "
              "as_tfdataset also with file_parallelism=None, +8 shards "
              "allowed for its prefetch")]
