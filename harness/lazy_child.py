"""Child process of c_iteration.check_lazy: the as_tfdataset laziness cases.
Run apart from the harness process because a reader that is not lazy on a
repeating (infinite) stream does not merely open too many shards - it may
allocate without end; the parent watches this process's resident memory and
wall time and kills it.  Prints one JSON line per case, BEFORE ("start") and
after ("done") the case, so that the parent knows which case was running."""
from __future__ import annotations
import json
import sys
import time


def main():
    root = sys.argv[1]
    from . import common as C
    from .c_iteration import _wait_for_workers
    from sedpack.io import Dataset
    from sedpack.io.flatbuffer import IterateShardFlatBuffer
    d = Dataset(root)
    opened = []
    orig = IterateShardFlatBuffer.iterate_shard

    def counting(self, file_path):
        opened.append(str(file_path))
        return orig(self, file_path)
    IterateShardFlatBuffer.iterate_shard = counting
    for shuffle in (0, 2):
        for fp in (None, 1, 2):
            for take in (1, 3, 7):
                if shuffle and (fp is not None or take == 7):
                    continue
                case = dict(shuffle=shuffle, fp=fp, take=take)
                print(json.dumps(dict(case, event="start")), flush=True)
                del opened[:]
                try:
                    got = C.iterate(d, "tf", "train", limit=take, repeat=True,
                                    shuffle=shuffle, file_parallelism=fp,
                                    timeout=60)
                except TimeoutError as e:
                    print(json.dumps(dict(case, event="hang", what=str(e),
                                          opened=len(opened))), flush=True)
                    return
                _wait_for_workers()
                time.sleep(0.1)
                print(json.dumps(dict(case, event="done", got=len(got),
                                      opened=len(opened))), flush=True)


if __name__ == "__main__":
    main()
