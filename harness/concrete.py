"""Concrete stage (bounded): runs under /venv/bin/python against the real
sedpack of --repo.  Per property, runs the registered concrete checks and
writes a JSON list of results:
  {check, function, ok, evaluations, bound, witness, finding_key}"""
from __future__ import annotations
import argparse
import importlib
import json
import os
import sys
import time
import traceback

HERE = os.path.dirname(os.path.abspath(__file__))
sys.path.insert(0, os.path.dirname(HERE))

# property -> list of (module, function) concrete checks
REGISTRY = {
    "C02": [("harness.c_itertools", "check_exactly_once"),
            ("harness.c_iteration", "check_exactly_once_interfaces"),
            ("harness.c_iteration", "check_transform_and_live_handle")],
    "C03": [("harness.c_iteration", "check_order")],
    "C01": [("harness.c_writers", "check_roundtrip")],
    "C10": [("harness.c_writers", "check_shard_sizes"),
            ("harness.c_writers", "check_glue")],
    "C11": [("harness.c_writers", "check_custom_metadata")],
    "C18": [("harness.c_writers", "check_bad_writes"),
            ("harness.c_writers", "check_glue")],
    "C04": [("harness.c_metadata", "check_histories")],
    "C05": [("harness.c_metadata", "check_integrity"),
            ("harness.c_metadata", "check_histories")],
    "C06": [("harness.c_metadata", "check_crash")],
    "C07": [("harness.c_iteration", "check_damage")],
    "C08": [("harness.c_metadata", "check_histories")],
    "C09": [("harness.c_metadata", "check_parallel_writers"),
            ("harness.c_metadata", "check_histories")],
    "C16": [("harness.c_metadata", "check_digests"),
            ("harness.c_metadata", "check_histories")],
    "C17": [("harness.c_metadata", "check_paths")],
    "C20": [("harness.c_metadata", "check_reopen")],
    "C12": [("harness.c_iteration", "check_selection")],
    "C13": [("harness.c_lazy_pool", "check_pool")],
    "C14": [("harness.c_itertools", "check_laziness"),
            ("harness.c_iteration", "check_lazy")],
    "C19": [("harness.c_iteration", "check_repeat")],
}


def main():
    ap = argparse.ArgumentParser()
    ap.add_argument("pid")
    ap.add_argument("--repo", default="/repo")
    ap.add_argument("--tier", default="quick")
    ap.add_argument("--seed", type=int, default=0)
    ap.add_argument("--out", required=True)
    ap.add_argument("--cex", default=None)
    a = ap.parse_args()
    cex = None
    if a.cex and os.path.exists(a.cex):
        with open(a.cex) as f:
            cex = json.load(f)
    results = []
    err = None
    ctx = {"repo": a.repo, "tier": a.tier, "seed": a.seed, "cex": cex,
           "pid": a.pid}
    for mod, fn in REGISTRY.get(a.pid, []):
        t0 = time.time()
        # progress note for the parent: it watches this process's memory and
        # must know which check was running if it has to kill it
        with open(a.out + ".progress", "w") as f:
            json.dump({"running": fn, "results": results}, f, default=str)
        try:
            m = importlib.import_module(mod)
            rs = getattr(m, fn)(ctx)
            for r in rs:
                r.setdefault("check", fn)
                r.setdefault("evaluations", 1)
                results.append(r)
        except Exception:  # noqa: BLE001
            err = f"{mod}.{fn}: " + traceback.format_exc()[-1500:]
            break
    with open(a.out, "w") as f:
        json.dump({"results": results, "error": err}, f, indent=1, default=str)


if __name__ == "__main__":
    main()
