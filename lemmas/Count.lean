/-
A-LEMMA-COUNT: the facts about CNT / IDX that pyvc/models.py (FilterCompModel.axioms)
gives to the solver for list comprehensions with a filter.

  CNT(A, n)  = number of i < n with A i            (`cnt A n` below)
  IDX(A, j)  = index of the j-th true entry of A    (`idxN A n j` for any n with j < cnt A n)

Every SMT axiom is one of the theorems below (naturals instead of guarded integers).
Lean 4 core only, no Mathlib, no sorry.
-/

def cnt (A : Nat → Bool) : Nat → Nat
  | 0 => 0
  | n + 1 => cnt A n + (if A n then 1 else 0)

/-- bounds -/
theorem cnt_le (A : Nat → Bool) : ∀ n, cnt A n ≤ n
  | 0 => by simp [cnt]
  | n + 1 => by
      have ih := cnt_le A n
      simp only [cnt]
      split <;> omega

/-- partition: complementary predicates count to n -/
theorem cnt_partition (A B : Nat → Bool) :
    ∀ n, (∀ i, i < n → A i ≠ B i) → cnt A n + cnt B n = n
  | 0, _ => by simp [cnt]
  | n + 1, h => by
      have ih := cnt_partition A B n (fun i hi => h i (Nat.lt_succ_of_lt hi))
      have hn := h n (Nat.lt_succ_self n)
      simp only [cnt]
      cases ha : A n <;> cases hb : B n <;> simp_all <;> omega

theorem cnt_zero_of_all_false (A : Nat → Bool) :
    ∀ n, (∀ i, i < n → A i = false) → cnt A n = 0
  | 0, _ => by simp [cnt]
  | n + 1, h => by
      have ih := cnt_zero_of_all_false A n (fun i hi => h i (Nat.lt_succ_of_lt hi))
      have hn := h n (Nat.lt_succ_self n)
      simp [cnt, ih, hn]

/-- at most one true entry -/
theorem cnt_le_one (A : Nat → Bool) :
    ∀ n, (∀ i j, i < j → j < n → ¬(A i = true ∧ A j = true)) → cnt A n ≤ 1
  | 0, _ => by simp [cnt]
  | n + 1, h => by
      have ih := cnt_le_one A n
        (fun i j hij hj => h i j hij (Nat.lt_succ_of_lt hj))
      simp only [cnt]
      cases ha : A n
      · simp; exact ih
      · have hz : cnt A n = 0 := by
          apply cnt_zero_of_all_false
          intro i hi
          cases hi' : A i
          · rfl
          · exact absurd ⟨hi', ha⟩ (h i n hi (Nat.lt_succ_self n))
        simp [hz]

theorem cnt_mono (A : Nat → Bool) : ∀ m n, m ≤ n → cnt A m ≤ cnt A n := by
  intro m n h
  induction h with
  | refl => exact Nat.le_refl _
  | step _ ih =>
      simp only [cnt]
      split <;> omega

/-- a true entry at i < n is counted: cnt A i < cnt A n -/
theorem cnt_lt_of_true (A : Nat → Bool) (i n : Nat) (hi : i < n) (ha : A i = true) :
    cnt A i < cnt A n := by
  have h1 : cnt A (i + 1) = cnt A i + 1 := by simp [cnt, ha]
  have h2 := cnt_mono A (i + 1) n hi
  omega

/-- the j-th true entry below n (meaningful for j < cnt A n) -/
def idxN (A : Nat → Bool) : Nat → Nat → Nat
  | 0, _ => 0
  | n + 1, j => if j < cnt A n then idxN A n j else n

/-- enumeration: in range, true, and of rank j -/
theorem idxN_spec (A : Nat → Bool) :
    ∀ n j, j < cnt A n → idxN A n j < n ∧ A (idxN A n j) = true ∧ cnt A (idxN A n j) = j
  | 0, j, h => by simp [cnt] at h
  | n + 1, j, h => by
      simp only [idxN]
      by_cases hj : j < cnt A n
      · simp only [hj, if_true]
        have ih := idxN_spec A n j hj
        exact ⟨Nat.lt_succ_of_lt ih.1, ih.2.1, ih.2.2⟩
      · simp only [hj, if_false]
        simp only [cnt] at h
        cases ha : A n
        · simp [ha] at h; omega
        · simp [ha] at h
          exact ⟨Nat.lt_succ_self n, by first | rfl | exact ha, by omega⟩

/-- the value does not depend on the bound n -/
theorem idxN_stable (A : Nat → Bool) (n j : Nat) (h : j < cnt A n) :
    idxN A (n + 1) j = idxN A n j := by
  simp [idxN, h]

theorem idxN_stable' (A : Nat → Bool) : ∀ m n j, n ≤ m → j < cnt A n → idxN A m j = idxN A n j := by
  intro m n j hnm hj
  induction hnm with
  | refl => rfl
  | step hle ih =>
      rename_i m'
      have : j < cnt A m' := Nat.lt_of_lt_of_le hj (cnt_mono A n m' hle)
      rw [idxN_stable A m' j this, ih]

/-- a rank determines the entry: equal ranks of true entries means equal indices -/
theorem rank_inj (A : Nat → Bool) (a b : Nat) (ha : A a = true) (hb : A b = true)
    (h : cnt A a = cnt A b) : a = b := by
  rcases Nat.lt_trichotomy a b with hlt | heq | hgt
  · have := cnt_lt_of_true A a b hlt ha; omega
  · exact heq
  · have := cnt_lt_of_true A b a hgt hb; omega

/-- strictly increasing -/
theorem idxN_strict (A : Nat → Bool) (n i j : Nat) (hij : i < j) (hj : j < cnt A n) :
    idxN A n i < idxN A n j := by
  have si := idxN_spec A n i (Nat.lt_trans hij hj)
  have sj := idxN_spec A n j hj
  rcases Nat.lt_trichotomy (idxN A n i) (idxN A n j) with hlt | heq | hgt
  · exact hlt
  · rw [heq] at si; omega
  · have := cnt_lt_of_true A (idxN A n j) (idxN A n i) hgt sj.2.1; omega

/-- it reaches every true entry below n -/
theorem idxN_surj (A : Nat → Bool) (n i : Nat) (hi : i < n) (ha : A i = true) :
    cnt A i < cnt A n ∧ idxN A n (cnt A i) = i := by
  have hlt := cnt_lt_of_true A i n hi ha
  refine ⟨hlt, ?_⟩
  have s := idxN_spec A n (cnt A i) hlt
  exact rank_inj A _ _ s.2.1 ha s.2.2
