/-
A-LEMMA-TREE (used by C04 / C05): if every shard-list document of a finite tree
is *locally exact* (its recorded number of examples equals the sum of the counts
of its own shard entries plus the sum of the numbers RECORDED in its child
entries), and every child entry records what the child document records
(modelled here by the child entry simply being the child node), then the number
recorded at the root equals the total number of examples of all shards of the
whole tree.  Likewise for the number of shards.

The tree is the abstract shape of the metadata: node = one shards_list.json
(recorded total, own shard counts, children).  No Mathlib needed.
-/

inductive T where
  | node (recorded : Nat) (shards : List Nat) (children : List T) : T

namespace T

def recorded : T → Nat
  | node r _ _ => r

def sumList : List Nat → Nat
  | [] => 0
  | x :: xs => x + sumList xs

mutual
  /-- examples actually present in the subtree -/
  def total : T → Nat
    | node _ s cs => sumList s + totalL cs
  def totalL : List T → Nat
    | [] => 0
    | c :: cs => total c + totalL cs
end

/-- sum of the numbers recorded in the child entries -/
def recordedL : List T → Nat
  | [] => 0
  | c :: cs => recorded c + recordedL cs

mutual
  /-- every node of the subtree is locally exact -/
  def lex : T → Prop
    | node r s cs => r = sumList s + recordedL cs ∧ lexL cs
  def lexL : List T → Prop
    | [] => True
    | c :: cs => lex c ∧ lexL cs
end

mutual
  theorem exact : ∀ t : T, lex t → recorded t = total t
    | node r s cs, h => by
        have h1 : r = sumList s + recordedL cs := h.1
        have h2 : lexL cs := h.2
        have h3 : recordedL cs = totalL cs := exactL cs h2
        simp [recorded, total, h1, h3]
  theorem exactL : ∀ cs : List T, lexL cs → recordedL cs = totalL cs
    | [], _ => by simp [recordedL, totalL]
    | c :: cs, h => by
        have hc : recorded c = total c := exact c h.1
        have hcs : recordedL cs = totalL cs := exactL cs h.2
        simp [recordedL, totalL, hc, hcs]
end

/-! The same statement for `number_of_shards`: instantiate `shards` with a list
of ones (each shard entry counts 1), then `sumList s = s.length`. -/
theorem sumList_ones : ∀ n : Nat, sumList (List.replicate n 1) = n
  | 0 => by simp [sumList]
  | n + 1 => by
      have ih := sumList_ones n
      simp [List.replicate, sumList, ih]
      omega

end T
