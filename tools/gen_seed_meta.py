#!/usr/bin/env python3
"""Write seeded/<id>/meta.json from notes.md (the sub-agent's description) and
eval.json (tools/eval_seeds.py, run by the maintainer of /verif), and print the
table used in DESIGN.md."""
import json, os, re, sys
ROOT = os.path.dirname(os.path.dirname(os.path.abspath(__file__)))
SD = os.path.join(ROOT, "seeded")
rows = []
for s in sorted(os.listdir(SD)):
    d = os.path.join(SD, s)
    if not os.path.isdir(d):
        continue
    ev = {}
    if os.path.exists(os.path.join(d, "eval.json")):
        ev = json.load(open(os.path.join(d, "eval.json")))
    meta = {}
    mp = os.path.join(d, "meta.json")
    if os.path.exists(mp):
        meta = json.load(open(mp))
    notes = ""
    if os.path.exists(os.path.join(d, "notes.md")):
        notes = open(os.path.join(d, "notes.md")).read()
    title = ""
    m = re.search(r"^#\s*(.+)$", notes, re.M)
    if m:
        title = m.group(1).strip()
    needs = ""
    m = re.search(r"^##[^\n]*need[^\n]*\n(.*?)(?=^## |\Z)", notes, re.M | re.S | re.I)
    if m:
        needs = " ".join(m.group(1).split())[:900]
    why = ""
    m = re.search(r"^##[^\n]*(?:why|break)[^\n]*\n(.*?)(?=^## |\Z)", notes, re.M | re.S | re.I)
    if m:
        why = " ".join(m.group(1).split())[:900]
    files = sorted(set(re.findall(r"^(?:\+\+\+|---) [ab]/(\S+)", open(os.path.join(d, "patch.diff")).read(), re.M)))
    if re.match(r"C\d\d-\d", s):
        meta.update({
            "seed": s, "kind": "seeded change from a fresh sub-agent (given only the property text and a scratch worktree)",
            "breaks": [s.split("-")[0]],
            "what": title or meta.get("what", ""),
            "why_it_breaks": why or meta.get("why_it_breaks", ""),
            "needs_to_manifest": needs or meta.get("needs_to_manifest", ""),
        })
    meta["files_changed"] = files
    if ev:
        meta["confirmed"] = {
            "repo_head": ev.get("repo_head"),
            "ran": "tools/eval_seeds.py %s (scratch worktree of /repo HEAD under /tmp, removed afterwards): demo.py on the unchanged tree, git apply patch.diff, the repository's test suite (pytest -n 8), demo.py again, ./check <P> --repo <worktree> --out <scratch>" % s,
            "patch_applies": ev.get("patch_applies"),
            "suite_with_change": ev.get("suite") or meta.get("confirmed", {}).get("suite_with_change"),
            "demo_exit_unchanged_tree": ev.get("demo_on_unchanged_tree_exit"),
            "demo_exit_changed_tree": ev.get("demo_on_changed_tree_exit"),
        }
        det = []
        for c in ev.get("checks", []):
            kinds = set()
            for x in c.get("detail", []):
                if "obligation" in x:
                    kinds.add("verification condition %s (%s%s)" % (
                        x["obligation"].split(":", 1)[1].split("#")[0],
                        x["solver"], ", discharged on the unchanged tree" if x.get("regressed") else ""))
                else:
                    kinds.add("bounded stand-in: " + (x.get("concrete_check") or "")[:90])
            det.append({"check": "./check %s (%s)" % (c["property"], c["tier"]), "exit": c["exit"],
                        "violations": c["violations"], "caught_by": sorted(kinds)[:6],
                        "undecided": c.get("undecided", [])[:3]})
        meta["checks_run"] = det
        meta["caught"] = ev.get("caught")
    json.dump(meta, open(mp, "w"), indent=1)
    how = []
    for c in meta.get("checks_run", []):
        if c["exit"] == 1:
            vc = [k for k in c["caught_by"] if k.startswith("verification")]
            bs = [k for k in c["caught_by"] if k.startswith("bounded")]
            how.append("%s: %s" % (c["check"].split()[1], " + ".join(
                (["VC " + "; ".join(sorted({v.split(" ")[2].split("/")[0].split(".")[-1] + "/" + v.split(" ")[2].split("/")[1].split("@")[0] for v in vc}))] if vc else []) +
                (["bounded"] if bs else []))))
    if s.startswith("keep-"):
        exits = sorted({c["exit"] for c in meta.get("checks_run", [])})
        verdict = ("no alarm (exit %s on %s)" % ("/".join(map(str, exits)), ", ".join(
            c["check"].split()[1] for c in meta.get("checks_run", [])))) if ev else "not evaluated"
        if 1 in exits:
            verdict = "FALSE ALARM: " + verdict
    else:
        verdict = "; ".join(how) or ("NOT CAUGHT" if ev else "not evaluated")
    rows.append((s, ",".join(meta.get("breaks", [])) or "-", ", ".join(files).replace("src/sedpack/io/", ""), verdict))
print("| seed | breaks | file | caught by |\n|---|---|---|---|")
for r in rows:
    print("| %s | %s | %s | %s |" % r)
