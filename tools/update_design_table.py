#!/usr/bin/env python3
"""Regenerate the seed table and the counts paragraph of DESIGN.md section 9.6 from
seeded/*/eval.json (development aid; run after tools/eval_seeds.py)."""
import os
import re,subprocess
p='/verif/DESIGN.md'
s=open(p).read()
table=subprocess.run(['python3', os.path.join(os.path.dirname(os.path.abspath(__file__)), 'gen_seed_meta.py')], capture_output=True, text=True, check=True).stdout.strip()
i=s.index('| seed | breaks | file | caught by |')
j=s.index('### 9.7 Known weaknesses')
tail='''

__COUNTS__

The bounded stage missed a good part of every new round when it was first run
(third round, last batch: 9 of 18; fourth: 16 of 38; fifth: 17 of 38; sixth:
8 of the first 20 and again about half of the last 18, although most ideas by
then repeated earlier ones) and was strengthened
each time, never by special-casing a seed but by adding the *kind* of input the
seed needed. The kinds, for the record (each is now exercised on every run):

* legal but unusual values: falsy stream elements and `None`-returning
  transformations (C02), metadata values that differ only in their key sets,
  `None` / falsy values, keys popped in place (C11), a constant value per split
  with interleaved writes (C10, C11), `hash_checksum_algorithms=()` and
  non-default algorithm tuples, also with a repeated algorithm (C02, C03, C05,
  C08, C09, C11, C12, C16), non-ASCII metadata whose byte and character counts
  differ (C16), Unicode compatibility dots and slashes, `//` (also for list
  paths) and backslash spellings in paths (C17), `~`, relative and `..`
  spellings of a dataset directory (C08, C20), safely castable narrower dtypes
  and numpy scalars mixed with full-range values in one shard, one 40 MiB
  shard (C01), object-dtype arrays of the declared shape, numbers for a bytes
  attribute (C18), pools of 40, 0 and -1 threads (C13), consecutive examples
  equal under `==` with different bits (signed zeros, NaN payloads) and a
  string with a lone surrogate (C01), equal nested metadata written with
  another key order (C12);
* option combinations: `shard_filter` with `custom_metadata_type_limit` and
  with `shards` (C11, C12), selections under shuffling and selections of
  exactly one shard (C12), `file_parallelism=None` and the default (C02, C14),
  `as_tfdataset` with shuffling over damaged shards, repetition over damaged
  shards (C07), the Rust interface with a transformation (C14);
* second and third operations on one object: a handle that is iterated,
  written to and iterated again - with and without recorded checksums - (C02,
  C03, C08, C11, C12), a later session after a multi-writer call and a
  multi-writer call whose writers fill two splits (C03: order), directories
  deepened session by session (C02, C04), a returned `tf.data.Dataset` iterated
  three times (C19), a consumer or transformation that overwrites the arrays it
  was handed before the next epoch (C01, C19), a rejected write followed by
  accepted ones in the same shard (C01, C10, C18), description amended and
  saved without new shards (C20), deferred `write_config` calls and aborted
  writers (C04, C05, C16), a failing writer in a multi-writer call and a retry
  through the same handle (C09), one predicate object whose answer changes
  between calls (C12), `check()` through the handle that wrote the dataset
  (C05);
* environment: one usable CPU (`sched_setaffinity`, C02), a dataset recorded by
  another release (child process with that `__version__`, C20), thirteen real
  worker processes, also with `os.cpu_count()` patched to 4, and a writer that
  changes its working directory (C09), six
  threads hashing at once (C16), a tamper that restores size, inode and times
  in a process that has hashed the file before (C05), sessions that seed the
  stdlib / numpy random generators identically (C06), validators run from
  several working directories (C17);
* error paths and timing: consumer exceptions inside the pool's context and a
  consumer that pauses for 6 s (12 s in the thorough tier) (C13, C02), a mapped
  function that takes 0.3 s per call and a consumer that takes 30 ms per result
  (C14), a rejection that takes a while with more threads than shards (C07), a
  session whose body raises and is caught (C16), 1500 epochs of a 3-example
  split (C19), npz attribute arrays of unequal
  length, LZ4 garbage (codec errors of type `RuntimeError`) (C07), a session or
  selection that raises on legal input counts as a failed evaluation.

Earlier strengthenings that came out of rounds 1-3: the description-refusal
check tries every spelling of the directory (`C08-3`), the exceptional clauses
that keep the filler invariant carry the C10 tag (`C10-4` is refuted by
`Shard.write/post-exc`), the shape of the pydantic model classes the contracts
rely on is pinned (`C10-3` changes `ShardInfo` itself: reported by the bounded
stage, the proof side says UNDECIDED instead of silently keeping an assumption
that no longer holds), and `model_dump_json(exclude_defaults=True)` is no longer
covered by the blanket assumption "a dumped model parses back to itself": the
class statements reachable from the dumped model are read from the real source
and every field whose default is not a literal (here:
`Metadata.sedpack_version = sedpack.__version__`) yields an obligation
`dump-parse-identity` (writer's default = reader's default), which nothing
entails (`C20-3` is refuted by it; `ShardsList.write_config`, whose classes have
literal defaults only, generates none).

(`tools/update_design_table.py` regenerates the table and the counts above
from `seeded/*/eval.json`; `tools/concrete_on_seed.sh <P> <tier> [seed]` runs
only the bounded stage of one property on `/repo` or on a seed.)

`tools/mutation_sweep.py` (development aid) applies first-order mutants
(comparison flips, integer literals +1, and/or swaps, negated conditions,
removed call statements) to the functions under contract. One full sweep (265
mutants in 15 files): 197 are killed by the repository's own tests; of the 68
that pass them, 30 are reported by a check and 38 are not. All 38 were read:
each is equivalent with respect to the 20 properties (weakened `assert`s,
removed log / `time.sleep(0)` / final `random.shuffle` / `RustIter.__exit__`
calls, `indent=3`, `buffering=1`, `Builder(1)`, message texts, default values
of `file_parallelism` / `prefetch`, `batch_size > 1`, a redundant `elif`).

'''
import json, os, collections
cat=collections.Counter(); n=0; silent=0; und=0; vc=0; vcb=0; nkeep=0; nkeep_und=0; nrev=0; lost=[]
for sd in sorted(os.listdir('/verif/seeded')):
    ep=f'/verif/seeded/{sd}/eval.json'
    if not os.path.exists(ep): continue
    e=json.load(open(ep))
    if sd.startswith('keep-'):
        nkeep+=1
        if any(c['exit']==1 for c in e['checks']): lost.append('FALSE ALARM '+sd)
        if any(c['exit']==2 for c in e['checks']): nkeep_und+=1
        continue
    if sd.startswith('revert-'):
        nrev+=1
        if not e.get('caught_by'): lost.append('LOST '+sd)
        continue
    n+=1
    if not e.get('caught_by'): lost.append('LOST '+sd); continue
    own=[c for c in e['checks'] if c['property']==sd.split('-')[0]][0]
    has_vc=any('obligation' in d for d in own['detail'])
    has_b=any('concrete_check' in d for d in own['detail'])
    if has_vc:
        vc+=1
        if has_b: vcb+=1
    elif own['undecided']: und+=1
    else: silent+=1
assert not lost, lost
counts=(f"All {n} sub-agent changes (six rounds, the third in three batches; two per "
f"property and round) and all {nrev} reverts are reported; the 9 hand-made and the "
f"{nkeep-9} sub-agent-made keep-edits give no VIOLATION line ({nkeep_und} of the {nkeep} end "
f"UNDECIDED in at least one check). How the {n} were caught: {vc} by a refuted (or "
f"regressed) verification condition, {vcb} of those also by the bounded stage; "
f"{n-vc} by the bounded stage only. Of those {n-vc} the proof stage said UNDECIDED for "
f"{und} (the patch adds code outside the verified subset - new comprehensions, "
f"helper classes, caches, library calls - or changes a class statement whose "
f"shape the contracts assume) and was silent for {silent} (the change sits in code "
f"whose contract is assumed at a library boundary: numpy / flatbuffers / tf.data "
f"calls, `expanduser` / `resolve`, the order of a merged list's children). That "
f"ratio is the honest measure of this technique on this code base: contracts "
f"decide a change inside the verified subset, and a patch that leaves the subset "
f"is noticed but not judged; the bounded stage carries the rest.")
import textwrap
tail=tail.replace('__COUNTS__', "\n".join(textwrap.wrap(counts, 79)))
s=s[:i]+table+tail+s[j:]
open(p,'w').write(s)
print('ok')
