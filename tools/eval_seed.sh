#!/bin/bash
# tools/eval_seed.sh <seed_dir> <props comma separated> : confirm a seeded change and run our checks on it
# seed_dir contains patch.diff and demo.py.  Output: one JSON line on stdout (also appended to /tmp/seed_eval.log)
SD=$1; PROPS=$2
W=/tmp/seedwt_$$
git -C /repo worktree add -q --detach $W HEAD || exit 9
cp /repo/src/sedpack/_sedpack_rs*.so $W/src/sedpack/
export TF_CPP_MIN_LOG_LEVEL=3 CUDA_VISIBLE_DEVICES=""
cd $W
demo_clean=$(PYTHONPATH=$W/src timeout 300 /venv/bin/python $SD/demo.py >/tmp/demo_clean_$$.log 2>&1; echo $?)
if git apply $SD/patch.diff 2>/tmp/apply_$$.err; then applied=1; else applied=0; fi
suite="skipped"; demo_mut="na"; declare -A CH
if [ $applied = 1 ]; then
  if [ -z "$SKIP_SUITE" ]; then
    suite=$(PYTHONPATH=$W/src timeout 900 /venv/bin/python -m pytest -q -p no:cacheprovider --timeout=900 -n 8 2>&1 | tail -1)
  fi
  demo_mut=$(PYTHONPATH=$W/src timeout 300 /venv/bin/python $SD/demo.py >/tmp/demo_mut_$$.log 2>&1; echo $?)
  res=""
  for p in ${PROPS//,/ }; do
    out=$(cd /verif && timeout 1500 ./check $p --repo $W 2>&1 | tail -4)
    code=$(cd /verif && echo "$out" | grep -c "^VIOLATION")
    und=$(echo "$out" | grep -c "^UNDECIDED")
    summ=$(echo "$out" | tail -1)
    res="$res {\"prop\":\"$p\",\"violations\":$code,\"undecided\":$und,\"summary\":\"$summ\"},"
  done
fi
cd /; git -C /repo worktree remove --force $W
echo "{\"seed\":\"$SD\",\"applied\":$applied,\"suite\":\"$suite\",\"demo_clean_exit\":$demo_clean,\"demo_mut_exit\":\"$demo_mut\",\"checks\":[${res%,}]}" | tee -a /tmp/seed_eval.log
