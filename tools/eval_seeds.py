#!/usr/bin/env python3
"""Confirm seeded changes and run the checks on them.

  tools/eval_seeds.py [-j N] [--props C04,C05] [--tier quick] <seed-id> ...

For each /verif/seeded/<seed-id>/ (patch.diff, demo.py) this
  1. makes a scratch worktree of /repo HEAD under /tmp (removed afterwards),
  2. runs the demonstration on the unchanged tree (must exit 0),
  3. applies patch.diff, runs the repository's test suite (must pass) and the
     demonstration again (must exit non-zero),
  4. runs ./check <P> --repo <worktree> --out <scratch> for the seed's property
     (and the extra ones given with --props),
and writes seeded/<seed-id>/eval.json; nothing is ever applied to /repo itself.
"""
import argparse
import concurrent.futures as cf
import glob
import json
import os
import re
import shutil
import subprocess
import sys
import time

ROOT = os.path.dirname(os.path.dirname(os.path.abspath(__file__)))
PY = "/venv/bin/python"


def sh(cmd, cwd=None, env=None, timeout=1800):
    try:
        p = subprocess.run(cmd, cwd=cwd, env=env, capture_output=True,
                           text=True, timeout=timeout)
        return p.returncode, (p.stdout or "") + (p.stderr or "")
    except subprocess.TimeoutExpired as e:
        return 124, "timeout " + str(e)


def evaluate(seed, props, tier, skip_suite):
    sd = os.path.join(ROOT, "seeded", seed)
    wt = f"/tmp/seedwt_{seed}_{os.getpid()}"
    out = f"/tmp/seedout_{seed}_{os.getpid()}"
    res = {"seed": seed, "repo_head": sh(["git", "-C", "/repo", "rev-parse",
                                          "--short", "HEAD"])[1].strip()}
    rc, o = sh(["git", "-C", "/repo", "worktree", "add", "-q", "--detach", wt,
                "HEAD"])
    if rc:
        res["error"] = "worktree: " + o
        return res
    try:
        for so in glob.glob("/repo/src/sedpack/_sedpack_rs*.so"):
            shutil.copy(so, os.path.join(wt, "src/sedpack/"))
        env = dict(os.environ, PYTHONPATH=os.path.join(wt, "src"),
                   TF_CPP_MIN_LOG_LEVEL="3", CUDA_VISIBLE_DEVICES="",
                   PYTHONDONTWRITEBYTECODE="1")
        demo = os.path.join(sd, "demo.py")
        has_demo = os.path.exists(demo)
        if has_demo:
            rc, o = sh([PY, demo], cwd=wt, env=env, timeout=600)
            res["demo_on_unchanged_tree_exit"] = rc
            res["demo_on_unchanged_tree_tail"] = o[-400:]
        rc, o = sh(["git", "apply", os.path.join(sd, "patch.diff")], cwd=wt)
        res["patch_applies"] = rc == 0
        if rc:
            res["error"] = "patch does not apply: " + o[-300:]
            return res
        if not skip_suite:
            rc, o = sh([PY, "-m", "pytest", "-q", "-p", "no:cacheprovider",
                        "--timeout=900", "-n", "8"], cwd=wt, env=env,
                       timeout=1800)
            m = re.findall(r"^.*\b\d+ (?:passed|failed|error).*$", o, re.M)
            res["suite"] = m[-1].strip() if m else o.strip()[-200:]
            res["suite_passes"] = rc == 0
        if has_demo:
            rc, o = sh([PY, demo], cwd=wt, env=env, timeout=600)
            res["demo_on_changed_tree_exit"] = rc
            res["demo_on_changed_tree_tail"] = o[-600:]
        res["checks"] = []
        for p in props:
            t0 = time.time()
            rc, o = sh([os.path.join(ROOT, "check"), p, "--repo", wt, "--out",
                        os.path.join(out, p), "--tier", tier], cwd=ROOT,
                       timeout=3000)
            viol = [ln for ln in o.splitlines() if ln.startswith("VIOLATION")]
            und = [ln for ln in o.splitlines() if ln.startswith("UNDECIDED")]
            det = []
            for ln in viol:
                m = re.search(r"replay=(\S+)", ln)
                if m and os.path.exists(m.group(1)):
                    with open(m.group(1)) as f:
                        r = json.load(f)
                    if "obligation" in r:
                        det.append({"obligation": r["obligation"],
                                    "solver": r["solver"]["status"],
                                    "regressed": r["solver"].get("regressed"),
                                    "replayed_input": bool(
                                        r.get("replayed_input"))})
                    else:
                        c = r.get("concrete_check", {})
                        det.append({"concrete_check": c.get("check"),
                                    "witness": json.dumps(
                                        c.get("witness"), default=str)[:300]})
            res["checks"].append({
                "property": p, "tier": tier, "exit": rc,
                "violations": len(viol), "undecided": [u[:240] for u in und][:6],
                "detail": det, "summary": o.strip().splitlines()[-1][:240]
                if o.strip() else "", "wall_s": round(time.time() - t0, 1)})
        res["caught_by"] = [c["property"] for c in res["checks"]
                            if c["exit"] == 1 and c["violations"]]
        res["caught"] = bool(res["caught_by"])
    finally:
        sh(["git", "-C", "/repo", "worktree", "remove", "--force", wt])
        shutil.rmtree(wt, ignore_errors=True)
        shutil.rmtree(out, ignore_errors=True)
    with open(os.path.join(sd, "eval.json"), "w") as f:
        json.dump(res, f, indent=1)
    return res


def main():
    ap = argparse.ArgumentParser()
    ap.add_argument("seeds", nargs="*")
    ap.add_argument("-j", type=int, default=3)
    ap.add_argument("--props", default="")
    ap.add_argument("--tier", default="quick")
    ap.add_argument("--skip-suite", action="store_true")
    a = ap.parse_args()
    seeds = a.seeds or sorted(os.listdir(os.path.join(ROOT, "seeded")))
    seeds = [s for s in seeds
             if os.path.isdir(os.path.join(ROOT, "seeded", s))]
    extra = [p for p in a.props.split(",") if p]
    with cf.ThreadPoolExecutor(a.j) as ex:
        futs = {}
        for s in seeds:
            props = [s.split("-")[0]] if re.match(r"C\d\d-", s) else []
            mp = os.path.join(ROOT, "seeded", s, "meta.json")
            if os.path.exists(mp):
                with open(mp) as f:
                    props = json.load(f).get("check_with", props) or props
            for p in extra:
                if p not in props:
                    props.append(p)
            futs[ex.submit(evaluate, s, props, a.tier, a.skip_suite)] = s
        for fu in cf.as_completed(futs):
            r = fu.result()
            print(json.dumps({k: r.get(k) for k in (
                "seed", "patch_applies", "suite", "demo_on_unchanged_tree_exit",
                "demo_on_changed_tree_exit", "caught_by", "error")}),
                flush=True)
            for c in r.get("checks", []):
                print("    ", c["property"], "exit", c["exit"], c["summary"],
                      flush=True)
                for d in c["detail"][:4]:
                    print("        ", json.dumps(d)[:260], flush=True)
                for u in c["undecided"][:3]:
                    print("        ", u, flush=True)
    subprocess.run(["git", "-C", "/repo", "worktree", "prune"])


if __name__ == "__main__":
    sys.exit(main())
