#!/usr/bin/env python3
"""Regenerate MANIFEST.json from plan.py (run from /verif)."""
import json, os, sys, importlib.util
ROOT = os.path.dirname(os.path.dirname(os.path.abspath(__file__)))
spec = importlib.util.spec_from_file_location("plan", os.path.join(ROOT, "plan.py"))
plan = importlib.util.module_from_spec(spec); spec.loader.exec_module(plan)
props = [json.loads(l)["id"] for l in open(os.path.join(ROOT, "properties.jsonl"))]
checks = []
for pid in props:
    if pid not in plan.PLAN:
        continue
    P = plan.PLAN[pid]
    checks.append({
        "property_id": pid,
        "quick_cmd": f"./check {pid} --tier quick",
        "thorough_cmd": f"./check {pid} --tier thorough",
        "evidence_file": f"/verif/evidence/{pid}.json",
        "replay_cmd_template": f"./check {pid} --replay {{path}}",
        "engine": "pyvc",
        "level_claimed": {"category": P["level"], "text": P["explanation"],
                          "design_ref": P.get("design_ref", f"DESIGN.md section 4 ({pid})")},
        "level_note": "trusted base: " + "; ".join(P.get("trusted_base", [])) +
                      ". Assumptions: " + ", ".join(P.get("assumptions", [])),
        "technique": P.get("technique", "contract-based deductive verification: VCs generated from the real Python AST against sidecar contracts, discharged by z3/cvc5; bounded run-time contract checks as stand-in where stated"),
    })
na = []
for pid in props:
    if pid in plan.PLAN:
        continue
    na.append({"property_id": pid, "reason": getattr(plan, "NOT_APPLICABLE", {}).get(pid, "check not built yet (work in progress)")})
m = {
    "version": 1,
    "setup_cmd": "python3-vt -c 'import z3, cvc5' && /venv/bin/python -c 'import sedpack'",
    "hooks": {"guard": "SEDPACK_VERIF",
              "enable": "no hooks are needed in /repo: contracts are sidecars under /verif/contracts; the harness sets SEDPACK_VERIF=1 only as a marker",
              "baseline_off_cmd": "cd /repo && /venv/bin/python -m pytest -q -p no:cacheprovider --timeout=900",
              "source_commits": [], "add_only": True},
    "engines": [{"name": "pyvc", "path": "/verif/pyvc",
                 "serves_properties": [c["property_id"] for c in checks],
                 "kind_free_text": "verification-condition generator over the Python AST of the real source (symbolic execution with loop invariants, modular calls against sidecar contracts) + z3 / cvc5; concrete run-time contract stage under /venv/bin/python"}],
    "checks": checks,
    "notes": "Exit codes of ./check: 0 held, 1 violation, 2 undecided, 3 checker error. See DESIGN.md.",
    "not_applicable": na,
}
json.dump(m, open(os.path.join(ROOT, "MANIFEST.json"), "w"), indent=1)
print(f"{len(checks)} checks, {len(na)} not applicable")
