#!/usr/bin/env python3
"""Systematic mutation sweep (development aid, not part of any registered check).

  tools/mutation_sweep.py [-j N] [--limit K] [--files a.py,b.py] --out /tmp/sweep.jsonl

For every function under contract it generates first-order mutants of the
repository source (comparison flips, off-by-one on integer literals, and/or
swaps, removed expression statements, negated `if` tests, swapped adjacent
keyword arguments), keeps those the repository's own test suite does not kill,
and runs the checks of the properties the file is anchored in on each survivor
(scratch worktree of /repo HEAD under /tmp, removed afterwards).  Output: one
JSON line per mutant with the verdicts; the survivors no check reports are the
ones to look at by hand (equivalent mutant or gap)."""
import argparse
import ast
import concurrent.futures as cf
import copy
import glob
import json
import os
import shutil
import subprocess
import sys

ROOT = os.path.dirname(os.path.dirname(os.path.abspath(__file__)))
PY = "/venv/bin/python"
FILES = {
    "src/sedpack/io/itertools/itertools.py": ["C02", "C03", "C14"],
    "src/sedpack/io/itertools/lazy_pool.py": ["C13", "C07"],
    "src/sedpack/io/dataset_filler.py": ["C10", "C04", "C18"],
    "src/sedpack/io/merge_shard_infos.py": ["C04", "C08"],
    "src/sedpack/io/dataset_writing.py": ["C04", "C05"],
    "src/sedpack/io/shard_file_metadata.py": ["C04", "C17"],
    "src/sedpack/io/utils.py": ["C16", "C06"],
    "src/sedpack/io/shard/shard.py": ["C10", "C18"],
    "src/sedpack/io/shard/shard_writer_base.py": ["C18"],
    "src/sedpack/io/shard/shard_writer_np.py": ["C18", "C01"],
    "src/sedpack/io/shard/shard_writer_flatbuffer.py": ["C18", "C01"],
    "src/sedpack/io/file_info.py": ["C17"],
    "src/sedpack/io/dataset.py": ["C08", "C20"],
    "src/sedpack/io/dataset_base.py": ["C02", "C20"],
    "src/sedpack/io/dataset_iteration.py": ["C12", "C02", "C19"],
}
CMP = {ast.Lt: ast.LtE, ast.LtE: ast.Lt, ast.Gt: ast.GtE, ast.GtE: ast.Gt,
       ast.Eq: ast.NotEq, ast.NotEq: ast.Eq, ast.In: ast.NotIn,
       ast.NotIn: ast.In, ast.Is: ast.IsNot, ast.IsNot: ast.Is}


def sh(cmd, cwd=None, env=None, timeout=1800):
    try:
        p = subprocess.run(cmd, cwd=cwd, env=env, capture_output=True,
                           text=True, timeout=timeout)
        return p.returncode, (p.stdout or "") + (p.stderr or "")
    except subprocess.TimeoutExpired:
        return 124, "timeout"


def mutants_of(path, text, under_contract):
    """yields (description, new_text); one node changed per mutant"""
    tree = ast.parse(text)
    targets = []
    for fn in ast.walk(tree):
        if isinstance(fn, (ast.FunctionDef, ast.AsyncFunctionDef)) and \
                fn.name in under_contract:
            for n in ast.walk(fn):
                targets.append((fn.name, n))
    seen = set()
    for fname, n in targets:
        key = (type(n).__name__, getattr(n, "lineno", 0),
               getattr(n, "col_offset", 0))
        if key in seen:
            continue
        seen.add(key)
        edits = []
        if isinstance(n, ast.Compare) and len(n.ops) == 1 and \
                type(n.ops[0]) in CMP:
            edits.append(("cmp %s->%s" % (type(n.ops[0]).__name__,
                                          CMP[type(n.ops[0])].__name__),
                          lambda m: setattr(m, "ops", [CMP[type(m.ops[0])]()])))
        if isinstance(n, ast.Constant) and isinstance(n.value, int) and \
                not isinstance(n.value, bool) and abs(n.value) <= 4:
            edits.append(("const %d->%d" % (n.value, n.value + 1),
                          lambda m: setattr(m, "value", m.value + 1)))
        if isinstance(n, ast.BoolOp):
            edits.append(("boolop swap", lambda m: setattr(
                m, "op", ast.Or() if isinstance(m.op, ast.And) else ast.And())))
        if isinstance(n, ast.If):
            edits.append(("if negated", lambda m: setattr(
                m, "test", ast.UnaryOp(op=ast.Not(), operand=m.test))))
        if isinstance(n, ast.AugAssign) and isinstance(n.op, (ast.Add, ast.Sub)):
            edits.append(("augassign flip", lambda m: setattr(
                m, "op", ast.Sub() if isinstance(m.op, ast.Add) else ast.Add())))
        if isinstance(n, ast.Expr) and isinstance(n.value, ast.Call):
            edits.append(("statement removed", "REMOVE"))
        for desc, ed in edits:
            t2 = copy.deepcopy(tree)
            hit = None
            for m in ast.walk(t2):
                if type(m) is type(n) and getattr(m, "lineno", None) == \
                        getattr(n, "lineno", None) and getattr(
                            m, "col_offset", None) == getattr(
                                n, "col_offset", None):
                    hit = m
                    break
            if hit is None:
                continue
            if ed == "REMOVE":
                for parent in ast.walk(t2):
                    for fld in ("body", "orelse", "finalbody"):
                        seq = getattr(parent, fld, None)
                        if isinstance(seq, list) and hit in seq:
                            seq[seq.index(hit)] = ast.copy_location(
                                ast.Pass(), hit)
            else:
                ed(hit)
            ast.fix_missing_locations(t2)
            try:
                new = ast.unparse(t2)
            except Exception:  # noqa: BLE001
                continue
            yield (f"{fname}:{getattr(n, 'lineno', 0)} {desc}", new)


def run_one(idx, rel, desc, new_text, props, skip_checks):
    wt = f"/tmp/mutwt_{os.getpid()}_{idx}"
    out = f"/tmp/mutout_{os.getpid()}_{idx}"
    res = {"id": idx, "file": rel, "mutant": desc}
    rc, o = sh(["git", "-C", "/repo", "worktree", "add", "-q", "--detach", wt,
                "HEAD"])
    if rc:
        res["error"] = o[-200:]
        return res
    try:
        for so in glob.glob("/repo/src/sedpack/_sedpack_rs*.so"):
            shutil.copy(so, os.path.join(wt, "src/sedpack/"))
        with open(os.path.join(wt, rel), "w") as f:
            f.write(new_text)
        env = dict(os.environ, PYTHONPATH=os.path.join(wt, "src"),
                   TF_CPP_MIN_LOG_LEVEL="3", CUDA_VISIBLE_DEVICES="",
                   PYTHONDONTWRITEBYTECODE="1")
        rc, o = sh([PY, "-m", "pytest", "-q", "-x", "-p", "no:cacheprovider",
                    "--timeout=300", "-n", "6"], cwd=wt, env=env, timeout=1500)
        res["suite_passes"] = rc == 0
        if rc != 0 or skip_checks:
            return res
        res["checks"] = {}
        for p in props:
            rc, o = sh([os.path.join(ROOT, "check"), p, "--repo", wt, "--out",
                        os.path.join(out, p)], cwd=ROOT, timeout=3000)
            res["checks"][p] = {"exit": rc, "violations": len(
                [ln for ln in o.splitlines() if ln.startswith("VIOLATION")]),
                "summary": o.strip().splitlines()[-1][:200] if o.strip() else ""}
        res["reported"] = any(c["exit"] == 1 for c in res["checks"].values())
    finally:
        sh(["git", "-C", "/repo", "worktree", "remove", "--force", wt])
        shutil.rmtree(wt, ignore_errors=True)
        shutil.rmtree(out, ignore_errors=True)
    return res


def main():
    ap = argparse.ArgumentParser()
    ap.add_argument("-j", type=int, default=2)
    ap.add_argument("--limit", type=int, default=0)
    ap.add_argument("--files", default="")
    ap.add_argument("--out", required=True)
    ap.add_argument("--skip-checks", action="store_true")
    a = ap.parse_args()
    sys.path.insert(0, ROOT)
    from pyvc.contracts import Registry
    reg = Registry().load_dir(os.path.join(ROOT, "contracts"))
    by_file = {}
    for fc in reg.funcs.values():
        if fc.assumed or not fc.verify:
            continue
        by_file.setdefault("src/" + fc.module, set()).add(
            fc.qualname.split(".")[-1])
    files = [f for f in FILES if not a.files or
             os.path.basename(f) in a.files.split(",")]
    jobs = []
    for rel in files:
        text = open(os.path.join("/repo", rel)).read()
        ms = list(mutants_of(rel, text, by_file.get(rel, set())))
        if a.limit:
            ms = ms[::max(1, len(ms) // a.limit)][:a.limit]
        for desc, new in ms:
            jobs.append((rel, desc, new, FILES[rel]))
    print(f"{len(jobs)} mutants", flush=True)
    with open(a.out, "a") as fo, cf.ThreadPoolExecutor(a.j) as ex:
        futs = [ex.submit(run_one, i, rel, desc, new, props, a.skip_checks)
                for i, (rel, desc, new, props) in enumerate(jobs)]
        for fu in cf.as_completed(futs):
            r = fu.result()
            fo.write(json.dumps(r) + "\n")
            fo.flush()
            tag = "killed-by-suite" if r.get("suite_passes") is False else (
                "REPORTED" if r.get("reported") else "SURVIVOR-NOT-REPORTED")
            print(tag, r["file"].split("/")[-1], r["mutant"], flush=True)
    subprocess.run(["git", "-C", "/repo", "worktree", "prune"])


if __name__ == "__main__":
    main()
