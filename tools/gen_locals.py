#!/usr/bin/env python3
"""Write baseline/locals.json (the spelling and binding skeletons of the locals
of every verified function, see pyvc/source.py restore_local_names) from the
repository's current source.  `./check <ID> --update-baseline` does the same
for the functions of one property."""
import json
import os
import sys
ROOT = os.path.dirname(os.path.dirname(os.path.abspath(__file__)))
sys.path.insert(0, ROOT)
from pyvc.contracts import Registry  # noqa: E402
from pyvc import source as S  # noqa: E402

repo = sys.argv[1] if len(sys.argv) > 1 else "/repo"
reg = Registry().load_dir(os.path.join(ROOT, "contracts"))
out = {}
for key, fc in sorted(reg.funcs.items()):
    if fc.assumed or not fc.verify:
        continue
    try:
        node, _, _ = S.get_function(repo, fc.module, fc.qualname)
    except Exception as e:  # noqa: BLE001
        print("skip", key, e)
        continue
    out[key] = [list(x) for x in S.local_bindings(node)]
with open(os.path.join(ROOT, "baseline", "locals.json"), "w") as f:
    json.dump(out, f, indent=0, sort_keys=True)
print(len(out), "functions")
