#!/bin/bash
# tools/concrete_on_seed.sh <PID> <tier> [seed-id]
# Development aid: run only the bounded stage of one property, on /repo or on a
# scratch worktree of /repo HEAD (under /tmp, removed afterwards) with
# seeded/<seed-id>/patch.diff applied.  VDIR selects another copy of /verif.
pid=$1; tier=$2; seed=$3
here=${VDIR:-$(cd "$(dirname "$0")/.." && pwd)}
if [ -n "$seed" ]; then
  wt=/tmp/concrete_wt_$seed
  git -C /repo worktree remove --force $wt 2>/dev/null; rm -rf $wt
  git -C /repo worktree add -q --detach $wt HEAD || exit 9
  cp /repo/src/sedpack/_sedpack_rs*.so $wt/src/sedpack/
  git -C $wt apply $here/seeded/$seed/patch.diff 2>/dev/null || git -C $wt apply /verif/seeded/$seed/patch.diff || exit 9
  repo=$wt
else
  repo=/repo
fi
out=$(mktemp /tmp/concrete_out_XXXX.json)
cd $here
PYTHONPATH=$repo/src TF_CPP_MIN_LOG_LEVEL=3 CUDA_VISIBLE_DEVICES="" PYTHONDONTWRITEBYTECODE=1 /venv/bin/python -m harness.concrete $pid --repo $repo --tier $tier --out $out
python3 - $out <<'PY'
import json,sys
r=json.load(open(sys.argv[1]))
if r['error']: print('ERROR', r['error'])
for x in r['results']:
    print(('ok  ' if x['ok'] else 'FAIL'), x.get('check'), '| n=', x.get('evaluations'), '|', (json.dumps(x.get('witness'), default=str)[:400] if not x['ok'] or x.get('finding_key') else ''))
PY
rm -f $out $out.progress
if [ -n "$seed" ]; then git -C /repo worktree remove --force $wt; fi
