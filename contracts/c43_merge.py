# merge_shard_infos under contract (development: props=[] keeps it out of the checks)
MM = "sedpack/io/merge_shard_infos.py"
macro("UP", ["u"], "u.shard_list_info_file.file_path")
contract(MM, "merge_shard_infos", props=[],
    params={"updates": "list:ref:ShardListInfo", "dataset_root": "U", "common": "int", "hashes": "list:U"},
    returns="ref:ShardListInfo",
    requires=["len(updates) >= 1", "common >= 1"],
    modifies=["ghost:fs"],
    ensures=["fresh(result)"],
    raises={"ValueError": ["True"]},
    loops={
        1: Loop(inv=["0 <= _k",
                     "forall(lambda j: implies(0 <= j and j < _k, PPREFIX(UP(updates[j]), common) == PPREFIX(UP(updates[0]), common)))"]),
    })
