# merge_shard_infos under contract (C04 exact totals, C05 acceptance, C06 children before parents,
# C08 nothing recreated, C09 / C16 every list re-hashed with the configured algorithms)
MM = "sedpack/io/merge_shard_infos.py"
macro("MD", ["updates", "common"], "PPREFIX(UP(updates[0]), common)")
macro("MP0", ["updates", "common"], "PJOIN(PPREFIX(UP(updates[0]), common), 'shards_list.json')")
# rel lies strictly below the directory D (which has k components)
macro("UNDER", ["D", "k", "rel"], "NPARTS(rel) > k and PPREFIX(rel, k) == D")
# an info that belongs strictly below the directory D at depth `common`
macro("DU_OK", ["x", "D", "common"], "VALID_ShardListInfo(x) and NPARTS(UP(x)) > common + 1 and PPREFIX(UP(x), common) == D")
macro("PLAIN_NAME", ["g"], "NPARTS(g) == 1 and not ISABS(g) and not HASDD(g)")
_G, _M, _RSL = "recursively_update", "_dc1", "root_shard_list"
_D, _P0 = "MD(updates, common)", "MP0(updates, common)"
_FRAME_FS = ("forall(lambda rel: implies(not ISABS(rel) and not UNDER(%s, common, rel),"
             " dstate(PJOIN(dataset_root, rel)) == old(dstate(PJOIN(dataset_root, rel)))"
             " and disk_read(PJOIN(dataset_root, rel)) == old(disk_read(PJOIN(dataset_root, rel)))), rel='U')" % _D)
_FRAME_CERT = ("forall(lambda rel: implies(not UNDER(%s, common, rel) and not ANCREL(rel, %s),"
               " cert(dataset_root, rel) == old(cert(dataset_root, rel))), rel='U')" % (_D, _P0))
_DOCS = ("forall(lambda rel: implies(dstate(PJOIN(dataset_root, rel)) == 2,"
         " (old(dstate(PJOIN(dataset_root, rel))) == 2 and DOC_AT(dataset_root, rel) is old(DOC_AT(dataset_root, rel)))"
         " or DOC_AT(dataset_root, rel) >= old_next_ref()), rel='U')")
_RSL_OK = [
    f"reveal R_DOCS,Q_DISK: forall(lambda rel: implies(LISTFILE(dataset_root, rel), DOC_AT(dataset_root, rel) is not {_RSL}), rel='U')",
    f"{_RSL}.relative_path_self == {_P0}",
    f"{_RSL}.number_of_examples == lsum({_RSL}.shard_files, 'number_of_examples')",
    f"forall(lambda i: implies(0 <= i and i < len({_RSL}.shard_files), VALID_ShardInfo({_RSL}.shard_files[i])))",
    f"forall(lambda i: implies(0 <= i and i < len({_RSL}.shard_files), dstate(PJOIN(dataset_root, {_RSL}.shard_files[i].file_infos[0].file_path)) == 2))",
]
contract(MM, "merge_shard_infos", props=["C04", "C05", "C06", "C08", "C09", "C16"],
    note="termination of the recursion is not verified (partial correctness)",
    at_call={"write_config": [("C16", "callee_hashes == hashes"), ("C17", "callee_dataset_root_path == dataset_root")],
             "load_or_create": [("C17", "callee_dataset_root_path == dataset_root")],
             "merge_shard_infos": [("C16", "callee_hashes == hashes"), ("C04", "callee_common == common + 1 and callee_dataset_root == dataset_root")]},
    params={"updates": "list:ref:ShardListInfo", "dataset_root": "U", "common": "int", "hashes": "list:U"},
    returns="ref:ShardListInfo",
    requires=["len(updates) >= 1", "common >= 1",
              "forall(lambda j: implies(0 <= j and j < len(updates), VALID_ShardListInfo(updates[j]) and NPARTS(UP(updates[j])) >= common + 1))",
              "forall(lambda i, j: implies(0 <= i and i < j and j < len(updates), UP(updates[i]) != UP(updates[j])))",
              "hashes == galgs()",
              "hide Q_DISK: DISK_OK(dataset_root)", "hide Q_GINV: GINV(dataset_root)"],
    # instances of the (audited) path lemmas for the paths of the updates
    defs=["forall(lambda j: use_path(UP(updates[j]), common))",
          "forall(lambda j: use_path(UP(updates[j]), common + 1, common))"],
    modifies=["ghost:fs", "ghost:cert"],
    ensures=[
        f"fresh(result) and UP(result) == {_P0}",
        ("C04", "INFO_EXACT(dataset_root, galgs(), result)"),
        ("C04", f"reveal CERTDEF: cert(dataset_root, {_P0})"),
        ("C04", "reveal DISKKEEP,J_DISK: hide R_DISK: DISK_OK(dataset_root)"),
        ("C04", "reveal GINVKEEP,J_GINV,J_DISK: hide R_GINV: GINV(dataset_root)"),
        "reveal I_FS: hide R_FS: " + _FRAME_FS, "reveal CERTDEF,I_CERT: hide R_CERT: " + _FRAME_CERT,
        # C08 (nothing is dropped at this level): the list written here keeps the shard entries the file had,
        # has a child entry for the sub-directory of every deeper update and for every child entry it had
        ("C08", "implies(old(LISTFILE(dataset_root, MP0(updates, common))), DOC_AT(dataset_root, MP0(updates, common)).shard_files == old(DOC_AT(dataset_root, MP0(updates, common)).shard_files))"),
        ("C08", "forall(lambda j: implies(0 <= j and j < len(updates) and NPARTS(UP(updates[j])) > common + 1,"
                "   exists(lambda i: 0 <= i and i < len(DOC_AT(dataset_root, MP0(updates, common)).children_shard_lists)"
                "        and UP(DOC_AT(dataset_root, MP0(updates, common)).children_shard_lists[i]) == PJOIN(PPREFIX(UP(updates[j]), common + 1), 'shards_list.json'))))"),
        ("C08", "forall(lambda c: implies(old(LISTFILE(dataset_root, MP0(updates, common))) and 0 <= c and c < old(len(DOC_AT(dataset_root, MP0(updates, common)).children_shard_lists)),"
                "   exists(lambda i: 0 <= i and i < len(DOC_AT(dataset_root, MP0(updates, common)).children_shard_lists)"
                "        and UP(DOC_AT(dataset_root, MP0(updates, common)).children_shard_lists[i]) == old(UP(DOC_AT(dataset_root, MP0(updates, common)).children_shard_lists[c])))))"),
        # list documents are the ones parsed before or new ghost objects
        "reveal I_DOCS: hide R_DOCS: " + _DOCS,
    ],
    raises={"ValueError": ["True"]},
    exit_lemmas=[
        # C08: where the child entry of each merged sub-directory sits in the list written here
        ("C08", f"forall(lambda g: implies(g in merged, 0 <= dictidx(merged, g) and dictidx(merged, g) < len(DOC_AT(dataset_root, {_P0}).children_shard_lists)"
                f"   and UP(DOC_AT(dataset_root, {_P0}).children_shard_lists[dictidx(merged, g)]) == PJOIN(PJOIN({_D}, g), 'shards_list.json')), g='U')"),
        ("C08", f"forall(lambda j: implies(0 <= j and j < len(deeper_updates), PART(UP(deeper_updates[j]), common) in merged))"),
        ("C08", f"forall(lambda j: implies(0 <= j and j < len(deeper_updates) and axinst(path_inst(UP(deeper_updates[j]), common)),"
                f"   PJOIN(PPREFIX(UP(deeper_updates[j]), common + 1), 'shards_list.json') == PJOIN(PJOIN({_D}, PART(UP(deeper_updates[j]), common)), 'shards_list.json')))"),
        # a child entry lies directly below D: its path is D / <its directory> / shards_list.json
        ("C08", f"forall(lambda j: implies(0 <= j and j < len(deeper_updates) and NPARTS(UP(deeper_updates[j])) == common + 2"
                f"   and axinst(path_inst(UP(deeper_updates[j]), common + 1, common) and path_inst(UP(deeper_updates[j]), common)),"
                f"   UP(deeper_updates[j]) == PJOIN(PJOIN({_D}, PART(UP(deeper_updates[j]), common)), 'shards_list.json')))"),
    ],
    locals_={"recursively_update": "dict:list:ref:ShardListInfo", "_dc1": "dict:ref:ShardListInfo"},
    loops={
        1: Loop(inv=["0 <= _k",
                     "forall(lambda j: implies(0 <= j and j < _k, PPREFIX(UP(updates[j]), common) == PPREFIX(UP(updates[0]), common)))"]),
        2: Loop(inv=[
            f"0 <= _k and _k <= len({_RSL}.children_shard_lists)",
            f"{_RSL}.number_of_examples == lsum({_RSL}.shard_files, 'number_of_examples')"
            f" + lsum({_RSL}.children_shard_lists, 'number_of_examples') - lsum({_RSL}.children_shard_lists, 'number_of_examples', _k)",
            "len(deeper_updates) >= loop_entry(len(deeper_updates))",
            "forall(lambda j: implies(0 <= j and j < loop_entry(len(deeper_updates)), deeper_updates[j] is loop_entry(deeper_updates)[j]))",
            f"forall(lambda j: implies(0 <= j and j < len(deeper_updates), DU_OK(deeper_updates[j], {_D}, common)))",
            "forall(lambda i, j: implies(0 <= i and i < j and j < len(deeper_updates), UP(deeper_updates[i]) != UP(deeper_updates[j])))",
            f"forall(lambda j, i: implies(loop_entry(len(deeper_updates)) <= j and j < len(deeper_updates) and _k <= i and i < len({_RSL}.children_shard_lists),"
            f"   UP(deeper_updates[j]) != UP({_RSL}.children_shard_lists[i])))",
            # C08: every child entry visited so far is represented among the infos to be merged below
            ("C08", f"forall(lambda c: implies(0 <= c and c < _k, exists(lambda j: 0 <= j and j < len(deeper_updates)"
                    f"   and UP(deeper_updates[j]) == UP({_RSL}.children_shard_lists[c]))))"),
            ("C08", f"implies(old(LISTFILE(dataset_root, {_P0})), len({_RSL}.children_shard_lists) == old(len(DOC_AT(dataset_root, {_P0}).children_shard_lists))"
                    f"   and forall(lambda c: implies(0 <= c and c < len({_RSL}.children_shard_lists),"
                    f"        UP({_RSL}.children_shard_lists[c]) == old(UP(DOC_AT(dataset_root, {_P0}).children_shard_lists[c])))))"),
            # C08: so is every deeper update
            ("C08", "forall(lambda u: implies(0 <= u and u < len(updates) and NPARTS(UP(updates[u])) > common + 1,"
                    "   exists(lambda j: 0 <= j and j < len(deeper_updates) and deeper_updates[j] is updates[u])))"),
        ], frame={"ShardsList.children_shard_lists": [], "ShardsList.shard_files": [], "ShardsList.relative_path_self": [],
                  "ShardsList.number_of_examples": ["root_shard_list"],
                  "ShardInfo.number_of_examples": [], "ShardListInfo.number_of_examples": []},
           end_lemmas=[
               # the child entry just visited is represented among the infos to merge: by the update that
               # supersedes it, or by itself (appended last)
               "implies(UP(child) in updated_paths, exists(lambda j: 0 <= j and j < len(deeper_updates) and UP(deeper_updates[j]) == UP(child)))",
               "implies(not (UP(child) in updated_paths), len(deeper_updates) >= 1 and UP(deeper_updates[len(deeper_updates) - 1]) == UP(child))",
               "exists(lambda j: 0 <= j and j < len(deeper_updates) and UP(deeper_updates[j]) == UP(child))",
               # the list only grows at its end
               "len(deeper_updates) >= iter_start(len(deeper_updates))"
               " and forall(lambda j: implies(0 <= j and j < iter_start(len(deeper_updates)), deeper_updates[j] is iter_start(deeper_updates)[j]))",
               f"_k == iter_start(_k) + 1 and child is {_RSL}.children_shard_lists[iter_start(_k)]",
           ],
           lemmas=[f"use_path({_P0}, common + 1, common)",
                   f"use_path(UP(updates[0]), common)",
                   f"forall(lambda i: use_path(UP({_RSL}.children_shard_lists[i]), common + 1, common))"]),
        3: Loop(inv=[
            "0 <= _k and _k <= len(deeper_updates)",
            # every group is non-empty, holds infos of this subtree whose next directory is the group's key
            f"forall(lambda g: implies(g in {_G}, len({_G}[g]) >= 1 and PLAIN_NAME(g)), g='U')",
            f"forall(lambda g, i: implies(g in {_G} and 0 <= i and i < len({_G}[g]),"
            f"   DU_OK({_G}[g][i], {_D}, common) and PART(UP({_G}[g][i]), common) == g), g='U')",
            f"forall(lambda g, i, j: implies(g in {_G} and 0 <= i and i < j and j < len({_G}[g]),"
            f"   UP({_G}[g][i]) != UP({_G}[g][j])), g='U')",
            f"forall(lambda g, i, j: implies(g in {_G} and 0 <= i and i < len({_G}[g]) and _k <= j and j < len(deeper_updates),"
            f"   UP({_G}[g][i]) != UP(deeper_updates[j])), g='U')",
            ("C08", f"forall(lambda j: implies(0 <= j and j < _k, PART(UP(deeper_updates[j]), common) in {_G}))"),
        ], lemmas=["forall(lambda j: use_path(UP(deeper_updates[j]), common))"]),
        4: Loop(inv=[
            f"0 <= _k and _k <= dictlen({_G})",
            f"forall(lambda g: (g in {_M}) == (g in {_G} and dictidx({_G}, g) < _k), g='U')",
            f"forall(lambda g: implies(g in {_M}, UP({_M}[g]) == PJOIN(PJOIN({_D}, g), 'shards_list.json')), g='U')",
            f"forall(lambda g: implies(g in {_M}, INFO_EXACT(dataset_root, galgs(), {_M}[g])), g='U')",
            f"forall(lambda g: implies(g in {_M}, cert(dataset_root, UP({_M}[g]))), g='U')",
            "reveal Q_DISK: hide I_DISK: DISK_OK(dataset_root)", "reveal Q_GINV,Q_DISK: hide I_GINV: GINV(dataset_root)",
            "reveal R_FS: hide I_FS: " + _FRAME_FS, "reveal R_CERT: hide I_CERT: " + _FRAME_CERT, "reveal R_DOCS: hide I_DOCS: " + _DOCS,
            f"len({_RSL}.children_shard_lists) == 0",
        ] + _RSL_OK,
            end_lemmas=[
                # the directory handled by this step, and where its result lives
                f"PPREFIX(UP(_dc1_1[0]), common + 1) == PJOIN({_D}, _dc1_0)",
                f"UP({_M}[_dc1_0]) == PJOIN(PJOIN({_D}, _dc1_0), 'shards_list.json')",
                f"NPARTS({_D}) == common and NPARTS(PJOIN({_D}, _dc1_0)) == common + 1"
                f" and NPARTS(PJOIN(PJOIN({_D}, _dc1_0), 'shards_list.json')) == common + 2 and NPARTS({_P0}) == common + 1",
                # results of earlier steps live in other directories: their files and certificates are untouched
                f"forall(lambda g: implies(g in {_M} and g != _dc1_0, not UNDER(PJOIN({_D}, _dc1_0), common + 1, UP({_M}[g]))"
                f"   and not ANCREL(UP({_M}[g]), PJOIN(PJOIN({_D}, _dc1_0), 'shards_list.json'))), g='U')",
                f"reveal R_FS,R_CERT: forall(lambda g: implies(g in {_M} and g != _dc1_0,"
                f"   dstate(PJOIN(dataset_root, UP({_M}[g]))) == iter_start(dstate(PJOIN(dataset_root, UP({_M}[g]))))"
                f"   and disk_read(PJOIN(dataset_root, UP({_M}[g]))) == iter_start(disk_read(PJOIN(dataset_root, UP({_M}[g]))))"
                f"   and cert(dataset_root, UP({_M}[g])) == iter_start(cert(dataset_root, UP({_M}[g])))), g='U')",
                f"cert(dataset_root, PJOIN(PJOIN({_D}, _dc1_0), 'shards_list.json'))",
                f"INFO_EXACT(dataset_root, galgs(), {_M}[_dc1_0])",
                # what lies outside D (and is not above it) lies outside D/g (and is not above it)
                f"forall(lambda rel: implies(not UNDER({_D}, common, rel), not UNDER(PJOIN({_D}, _dc1_0), common + 1, rel)), rel='U')",
                # the first `common` components of D/g/shards_list.json and of D/shards_list.json are D
                f"implies(axinst(path_inst(PJOIN({_D}, _dc1_0), common, common - 1, 'shards_list.json')"
                f"     and path_inst({_D}, common, common - 1, _dc1_0) and path_inst({_D}, common, common - 1, 'shards_list.json')),"
                f"  PPREFIX(PJOIN(PJOIN({_D}, _dc1_0), 'shards_list.json'), common) == {_D} and PPREFIX({_P0}, common) == {_D})",
                # ... so their shorter prefixes coincide
                f"forall(lambda rel: implies(NPARTS(rel) >= 1 and NPARTS(rel) <= common"
                f"   and axinst(path_inst(PJOIN(PJOIN({_D}, _dc1_0), 'shards_list.json'), common, NPARTS(rel) - 1) and path_inst({_P0}, common, NPARTS(rel) - 1)),"
                f"   PPREFIX(PJOIN(PJOIN({_D}, _dc1_0), 'shards_list.json'), NPARTS(rel) - 1) == PPREFIX({_P0}, NPARTS(rel) - 1)), rel='U')",
                f"forall(lambda rel: implies(not UNDER({_D}, common, rel) and not ANCREL(rel, {_P0}),"
                f"   not ANCREL(rel, PJOIN(PJOIN({_D}, _dc1_0), 'shards_list.json'))), rel='U')",
            ],
            lemmas=[f"forall(lambda g, i: use_path(UP({_G}[g][i]), common), g='U')",
                    f"use_path(UP(updates[0]), common)",
                    "forall(lambda rel: use_path(rel, common + 1, common), rel='U')",
                    f"forall(lambda g: use_path(PJOIN(PJOIN({_D}, g), 'shards_list.json'), common + 2, common), g='U')",
                    # a list below D/g is not below D/g' (g != g'), prefixes of D/g/x of length <= common are prefixes of D
                    f"forall(lambda g: use_path(PJOIN({_D}, g), common + 1, common, 'shards_list.json'), g='U')",
                    ]),
        5: Loop(inv=[
            f"0 <= _k and _k <= dictlen(merged) and len({_RSL}.children_shard_lists) == _k",
            f"forall(lambda j: implies(0 <= j and j < _k, {_RSL}.children_shard_lists[j] is merged[dictkey(merged, j)]))",
            f"{_RSL}.number_of_examples == lsum({_RSL}.shard_files, 'number_of_examples') + lsum({_RSL}.children_shard_lists, 'number_of_examples')",
            "reveal I_DISK: hide J_DISK: DISK_OK(dataset_root)", "reveal I_GINV,I_DISK: hide J_GINV: GINV(dataset_root)",
            f"forall(lambda rel: implies(LISTFILE(dataset_root, rel), DOC_AT(dataset_root, rel) is not {_RSL}), rel='U')",
            f"forall(lambda g: implies(g in merged, INFO_EXACT(dataset_root, galgs(), merged[g])), g='U')",
            f"forall(lambda g: implies(g in merged, cert(dataset_root, UP(merged[g]))), g='U')",
            f"forall(lambda g: implies(g in merged and axinst(path_inst(PJOIN({_D}, g), common, common - 1, 'shards_list.json')"
            f"      and path_inst({_D}, common, common - 1, g) and path_inst({_D}, common, common - 1, 'shards_list.json')"
            f"      and path_inst(UP(updates[0]), common)),"
            f"   CHILD_PLACED({_P0}, merged[g])), g='U')",
            f"forall(lambda j: implies(0 <= j and j < _k, CHILD_PLACED({_P0}, {_RSL}.children_shard_lists[j])))",
            f"forall(lambda i, j: implies(0 <= i and i < j and j < _k, UP({_RSL}.children_shard_lists[i]) != UP({_RSL}.children_shard_lists[j])))",
        ], frame={"ShardsList.shard_files": [], "ShardsList.relative_path_self": [],
                  "ShardsList.number_of_examples": ["root_shard_list"], "ShardsList.children_shard_lists": ["root_shard_list"],
                  "ShardInfo.number_of_examples": [], "ShardListInfo.number_of_examples": []},
           lemmas=[f"forall(lambda g: implies(g in merged, use_path(UP(merged[g]), common + 1, common)), g='U')",
                   f"use_path({_P0}, common + 1, common)", "use_path(UP(updates[0]), common)"]),
    })
