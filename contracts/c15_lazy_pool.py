# Contracts for src/sedpack/io/itertools/lazy_pool.py
# C13 (per-thread, schedule-independent obligations), C07 (failure forwarded),
# C14 (in-flight bound), C02 (one yield per result dequeued)
ML = "sedpack/io/itertools/lazy_pool.py"

assumption("A-LEMMA-CONC", "the per-thread contracts proved for the consumer (imap_unordered) and the worker (Collector.run) imply the whole-pool property under every interleaving; argument in DESIGN.md section 4 (C13), not machine-checked")

cls("StopSentinel", _value=True)
cls("FailureSentinel", base="StopSentinel", _value=True)
# queue.Queue: ghost counters of what THIS thread did with it
cls("Queue", nput="int", nput_stop="int", nget="int", nget_stop="int")
cls("LazyPool", _threads="int", _to_process="optref:Queue", _results="optref:Queue",
    _active_threads="int")
cls("Thread", started="bool")
cls("Collector", base="Thread", _to_process="ref:Queue", _results="ref:Queue", func="func")

ufunc("ISA_StopSentinel", ["U"], "bool")
ufunc("ISA_FailureSentinel", ["U"], "bool")

# --- assumed stdlib contracts (A-STD) ---------------------------------------
contract("queue", "Queue.__init__", cls="Queue", sig=["self"], assumed=True, verify=False,
    props=["C13", "C07", "C14", "C02"],
    modifies=["Queue.nput@self", "Queue.nput_stop@self", "Queue.nget@self", "Queue.nget_stop@self"],
    ensures=["self.nput == 0 and self.nput_stop == 0 and self.nget == 0 and self.nget_stop == 0"])
contract("queue", "Queue.put", cls="Queue", sig=["self", "item"], params={"item": "U"},
    assumed=True, verify=False, props=["C13", "C07", "C14", "C02"],
    modifies=["Queue.nput@self", "Queue.nput_stop@self"],
    ensures=["self.nput == old(self.nput) + 1",
             "self.nput_stop == old(self.nput_stop) + ite(ISA_StopSentinel(item), 1, 0)"],
    note="unbounded queue: put never blocks or raises")
contract("queue", "Queue.get", cls="Queue", sig=["self"], returns="U",
    assumed=True, verify=False, props=["C13", "C07", "C14", "C02"],
    modifies=["Queue.nget@self", "Queue.nget_stop@self"],
    ensures=["self.nget == old(self.nget) + 1",
             "self.nget_stop == old(self.nget_stop) + ite(ISA_StopSentinel(result), 1, 0)"],
    note="blocking get(): returns an item chosen by the environment (other threads); never raises queue.Empty")
contract("queue", "Queue.empty", cls="Queue", sig=["self"], returns="bool",
    assumed=True, verify=False, props=["C13", "C14"], modifies=[],
    note="snapshot answer decided by the environment (other threads): unconstrained")
contract("queue", "Queue.qsize", cls="Queue", sig=["self"], returns="int",
    assumed=True, verify=False, props=["C13", "C14"], modifies=[], ensures=["result >= 0"],
    note="snapshot answer decided by the environment (other threads)")
contract("threading", "Thread.__init__", cls="Thread", sig=["self"], assumed=True, verify=False, props=["C13"],
    modifies=["Thread.started@self"], ensures=["not self.started"],
    note="threading.Thread.__init__: the thread object exists and is not started (A-STD)")
contract(ML, "Collector.__init__", props=["C13"],
    params={"func": "func", "to_process": "ref:Queue", "results": "ref:Queue"},
    modifies=["Collector._to_process@self", "Collector._results@self", "Collector.func@self", "Thread.started@self"],
    ensures=["self._to_process is to_process and self._results is results and not self.started", "self.func == func"])
contract("threading", "Thread.start", cls="Thread", sig=["self"],
    assumed=True, verify=False, props=["C13"],
    requires=["not self.started"],
    modifies=["Thread.started@self"], ensures=["self.started"])

# --- LazyPool ---------------------------------------------------------------------
_LPF = {'LazyPool._threads': [], 'LazyPool._to_process': [], 'LazyPool._results': [], 'LazyPool._active_threads': ['self']}
macro("lp_idle", ["p"], "p._active_threads <= 0 and p._to_process is None and p._results is None")

contract(ML, "LazyPool.__init__", props=["C13"], params={"threads": "opt:int"},
    modifies=["LazyPool._threads@self", "LazyPool._to_process@self", "LazyPool._results@self", "LazyPool._active_threads@self"],
    ensures=["self._threads >= 1", "lp_idle(self)",
             "implies(not is_none(threads) and threads >= 1, self._threads == threads)"])

contract(ML, "LazyPool.__enter__", props=["C13"], params={}, returns="ref:LazyPool",
    requires=["lp_idle(self)"], modifies=[], ensures=["result is self", "lp_idle(self)"],
    raises={})

contract(ML, "LazyPool.finish_and_reset", props=["C13", "C07"], params={},
    requires=["self._threads >= 1"],
    modifies=["LazyPool._to_process@self", "LazyPool._results@self", "LazyPool._active_threads@self",
              "Queue.nput@self._to_process", "Queue.nput_stop@self._to_process"],
    ensures=[
        ("C13", "lp_idle(self)"),
        # every worker gets a stop sentinel, whatever state the pass was in
        ("C13", "implies(old(self._to_process) is not None, old(self._to_process).nput_stop == old(old(self._to_process).nput_stop) + self._threads)"),
        ("C13", "implies(old(self._to_process) is not None, old(self._to_process).nput == old(old(self._to_process).nput) + self._threads)"),
    ],
    loops={1: Loop(inv=[
        "0 <= _k and _k <= self._threads",
        "self._to_process is not None and self._to_process is loop_entry(self._to_process)",
        "self._to_process.nput_stop == loop_entry(self._to_process.nput_stop) + _k",
        "self._to_process.nput == loop_entry(self._to_process.nput) + _k",
        "self._active_threads == 0 and self._results is None",
        "self._threads == loop_entry(self._threads)",
        "frame_loop('Queue.nput', self._to_process) and frame_loop('Queue.nput_stop', self._to_process)",
    ], variant="self._threads - _k")})

contract(ML, "LazyPool.__exit__", props=["C13", "C07"],
    params={"exc_type": "optU", "exc": "optexc", "exc_tb": "optU"}, returns="bool",
    requires=["self._threads >= 1"],
    modifies=["LazyPool._to_process@self", "LazyPool._results@self", "LazyPool._active_threads@self",
              "Queue.nput@self._to_process", "Queue.nput_stop@self._to_process"],
    ensures=["lp_idle(self)", "result", "is_none(exc)"],
    # an exception in flight is re-raised (never swallowed), pool idle again
    raises={"PASSED": [("C07", "lp_idle(self)")]})

contract(ML, "LazyPool.imap_unordered", props=["C13", "C07", "C14", "C02"],
    summary=dict(exact=True, result="LAZYS(func, stream(iterable), self._threads)",
                 fails_only_if="FAILS(MAPS(func, stream(iterable)))"),
    params={"func": "func", "iterable": "iter"}, generator=True,
    requires=["lp_idle(self)", "self._threads >= 1",
              # inputs are not sentinels
              "forall(lambda j: not ISA_StopSentinel(src(iterable, j)))"],
    modifies=["LazyPool._to_process@self", "LazyPool._results@self", "LazyPool._active_threads@self",
              "Queue.nput", "Queue.nput_stop", "Queue.nget", "Queue.nget_stop",
              "Collector._to_process", "Collector._results", "Collector.func", "Thread.started"],
    ensures=[
        ("C13", "lp_idle(self)"),
        ("C02", "len(out) == g_res.nget - g_res.nget_stop"),                  # one yield per result
        ("C13", "g_res.nget_stop == self._threads"),                            # all workers reported
        ("C13", "g_tp.nput_stop >= self._threads"),                           # every worker is sent a stop
        ("C13", "g_tp.nput >= consumed(iterable) + self._threads"),
    ],
    raises={"Foreign": [("C07", "True")]},
    at_yield=[
        # C14: inputs handed to the workers minus results taken back <= 2T+2
        ("C14", "self._to_process.nput - (self._results.nget - self._results.nget_stop) <= 2 * self._threads + 3"),
        ("C14", "consumed(iterable) <= self._to_process.nput"),
        ("C02", "len(out) + 1 == self._results.nget - self._results.nget_stop"),
    ],
    on_abandon=["True"],
    ghosts={"g_tp": ("optref:Queue", None), "g_res": ("optref:Queue", None)},
    loops={
        1: Loop(inv=[   # for collector in collectors: collector.start()
            "0 <= _k and _k <= len(collectors)",
            "forall(lambda i: implies(0 <= i and i < len(collectors), collectors[i].started == (i < _k)))",
            "self._to_process is not None and self._results is not None and self._to_process is not self._results",
            "self._to_process.nput == 0 and self._to_process.nput_stop == 0 and self._results.nget == 0 and self._results.nget_stop == 0",
            "len(collectors) == self._threads and self._threads >= 1",
            "consumed(iterable) == 0 and len(out) == 0",
            "self._active_threads == loop_entry(self._active_threads)",
        ], frame=_LPF),
        2: Loop(inv=[   # prefill
            "0 <= _k and _k <= 2 * self._threads + 1",
            "self._to_process is not None and self._results is not None and self._to_process is not self._results",
            "self._to_process.nput == _k",
            "self._results.nget == 0 and self._results.nget_stop == 0",
            "self._active_threads == self._threads and self._threads >= 1",
            "consumed(iterable) + self._to_process.nput_stop == _k and self._to_process.nput_stop >= 0 and len(out) == 0",
        ], frame=_LPF),
        3: Loop(ghost_set={"g_tp": "self._to_process", "g_res": "self._results"}, inv=[   # main loop
            "self._to_process is g_tp and self._results is g_res",
            "self._to_process is not None and self._results is not None and self._to_process is not self._results",
            "self._threads >= 1",
            "self._active_threads == self._threads - self._results.nget_stop",
            "self._active_threads >= 0",
            "len(out) == self._results.nget - self._results.nget_stop",
            "self._to_process.nput == 2 * self._threads + 2 + len(out)",
            "consumed(iterable) + self._to_process.nput_stop == self._to_process.nput",
            "self._to_process.nput_stop >= 0",
        ], frame=_LPF),
    })

contract(ML, "Collector.run", props=["C13", "C07"], params={}, foreign_base=True,
    modifies=["Queue.nput", "Queue.nput_stop", "Queue.nget", "Queue.nget_stop"],
    requires=["self._to_process is not self._results",
              # results of the mapped function are not sentinels
              "forall(lambda x: not ISA_StopSentinel(APPLY(self.func, x)), x='U')"],
    ensures=[
        # exactly one terminal item (stop / failure sentinel) forwarded, at most
        # one stop sentinel consumed, one result per other item taken
        ("C13", "self._results.nput_stop == old(self._results.nput_stop) + 1"),
        ("C13", "self._to_process.nget_stop - old(self._to_process.nget_stop) <= 1"),
        ("C13", "(self._results.nput - old(self._results.nput)) == (self._to_process.nget - old(self._to_process.nget))"),
    ],
    # no exceptional exit at all: a failing func must not kill the worker silently (C07/C13)
    raises={},
    loops={1: Loop(inv=[
        "self._to_process is not self._results",
        "self._to_process is loop_entry(self._to_process) and self._results is loop_entry(self._results)",
        "self.func == loop_entry(self.func)",
        "self._results.nput_stop == loop_entry(self._results.nput_stop)",
        "self._to_process.nget_stop == loop_entry(self._to_process.nget_stop)",
        "self._results.nput - loop_entry(self._results.nput) == self._to_process.nget - loop_entry(self._to_process.nget)",
    ])})
