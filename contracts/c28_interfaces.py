# Interface-level contracts: DatasetIteration.as_numpy_* / as_tfdataset / RustGenerator
# C02 exactly-once, C03 order, C07 failures, C12 same selection everywhere, C19 repeat
ufunc("ITERSH", ["U", "int"], "U")      # ITERSH(file type, dataset structure): path -> iterable of examples
ufunc("PALF", ["U", "int", "U"], "U")   # process_and_list of a reader: path -> list of processed examples

# the stream of shard paths handed to the readers
macro("PATHSEQ", ["d", "split", "k", "n", "flt"], "SPD(d, split, k, n, flt)")
macro("COMMON", ["d", "split", "k", "n", "flt", "repeat", "shuffle"],
      "ite_stream(truthy(shuffle),"
      "  SHUF(ite_stream(repeat, CYC(PATHSEQ(d, split, k, n, flt)), OFSEQ(PATHSEQ(d, split, k, n, flt))), LEN(PATHSEQ(d, split, k, n, flt))),"
      "  ite_stream(repeat, CYC(PATHSEQ(d, split, k, n, flt)), OFSEQ(PATHSEQ(d, split, k, n, flt))))")
macro("MAPOPT", ["f", "s"], "ite_stream(truthy(f), MAPS(f, s), s)")

_IT_PARAMS = {"split": "U", "process_record": "optfunc", "shards": "opt:int",
              "custom_metadata_type_limit": "opt:int", "shard_filter": "optfunc",
              "repeat": "bool", "shuffle": "int", "file_parallelism": "int"}
_IT_REQ = ["truthy(split)", "is_none(shards) or optval(shards) >= 0",
           "is_none(custom_metadata_type_limit) or optval(custom_metadata_type_limit) >= 0",
           "shuffle >= 0"]

contract(MI, "DatasetIteration.as_numpy_common", props=["C02", "C03", "C12", "C19", "C14", "C07"],
    params=_IT_PARAMS, returns="anystream", defs=_SEL_DEFS, modifies=[],
    requires=_IT_REQ,
    ensures=[
        # C12: the four selection options reach the selection unchanged;
        # C19/C14: cycle is applied to the path list BEFORE the shard-level shuffle, buffer = number of paths
        (["C12", "C02", "C03", "C19"], "not FAILS(stream(result)) and stream(result) == COMMON(self, split, shards, custom_metadata_type_limit, shard_filter, repeat, shuffle)"),
        ("C12", "LEN(PATHSEQ(self, split, shards, custom_metadata_type_limit, shard_filter)) >= 1"),
    ],
    raises={"ValueError": ["True"], "Foreign": ["True"]})

# canonical stream of a pass: the examples of the selected shards, in list
# order, each processed exactly once
macro("RDOF", ["d"], "RD(d._dataset_info.dataset_structure.shard_file_type, d._dataset_info.dataset_structure)")
macro("CANON", ["d", "split", "pr", "k", "n", "flt"],
      "MAPOPT(pr, FLATS(MAPS(RDOF(d), OFSEQ(SPD(d, split, k, n, flt)))))")
macro("CANONCYC", ["d", "split", "pr", "k", "n", "flt"],
      "MAPOPT(pr, FLATS(MAPS(RDOF(d), CYC(SPD(d, split, k, n, flt)))))")
macro("KNOWN_TYPE", ["d"], "d._dataset_info.dataset_structure.shard_file_type == 'tfrec' or d._dataset_info.dataset_structure.shard_file_type == 'npz' or d._dataset_info.dataset_structure.shard_file_type == 'fb'")

_NI_PARAMS = {k: v for k, v in _IT_PARAMS.items() if k != "file_parallelism"}
contract(MI, "DatasetIteration.as_numpy_iterator", props=["C02", "C03", "C12", "C19", "C07"],
    params=_NI_PARAMS, generator=True, stream_out=True, defs=_SEL_DEFS,
    modifies=["IterateShardBase.dataset_structure", "IterateShardBase.process_record",
              "IterateShardTFRec.from_tfrecord", "IterateShardTFRec.num_parallel_calls"],
    requires=_IT_REQ + ["KNOWN_TYPE(self)"],
    ensures=[
        ("C19", "not repeat"),                 # with repeat the pass never ends
        (["C03", "C12"], "implies(shuffle == 0, outs == CANON(self, split, process_record, shards, custom_metadata_type_limit, shard_filter))"),
        (["C02", "C12"], "MSS(outs) == MSS(CANON(self, split, process_record, shards, custom_metadata_type_limit, shard_filter))"),
        ("C07", "not FAILS(outs)"),
    ],
    at_diverge=[
        ("C19", "repeat and not FIN(outs)"),
        (["C19", "C12"], "implies(shuffle == 0, outs == CANONCYC(self, split, process_record, shards, custom_metadata_type_limit, shard_filter))"),
    ],
    raises={"ValueError": ["True"], "Foreign": ["True"]})

macro("PALOF", ["d", "pr"], "PALF(d._dataset_info.dataset_structure.shard_file_type, d._dataset_info.dataset_structure, pr)")
_CONC_MOD = ["IterateShardBase.dataset_structure", "IterateShardBase.process_record",
             "IterateShardTFRec.from_tfrecord", "IterateShardTFRec.num_parallel_calls",
             "LazyPool._threads", "LazyPool._to_process", "LazyPool._results", "LazyPool._active_threads",
             "Queue.nput", "Queue.nput_stop", "Queue.nget", "Queue.nget_stop"]
contract(MI, "DatasetIteration.as_numpy_iterator_concurrent",
    summary=dict(result=None),
    props=["C02", "C03", "C12", "C19", "C07", "C14", "C13"],
    params=_IT_PARAMS, generator=True, stream_out=True, defs=_SEL_DEFS, modifies=_CONC_MOD,
    requires=_IT_REQ + ["KNOWN_TYPE(self)", "file_parallelism >= 1"],
    ensures=[
        ("C19", "not repeat"),
        (["C03", "C12"], "implies(shuffle == 0, outs == CANON(self, split, process_record, shards, custom_metadata_type_limit, shard_filter))"),
        (["C02", "C12"], "MSS(outs) == MSS(CANON(self, split, process_record, shards, custom_metadata_type_limit, shard_filter))"),
        ("C07", "not FAILS(outs)"),
    ],
    at_diverge=[
        ("C19", "repeat and not FIN(outs)"),
        (["C19", "C12"], "shuffle != 0 and outs == RRS(LAZYS(PALOF(self, process_record), COMMON(self, split, shards, custom_metadata_type_limit, shard_filter, repeat, shuffle), file_parallelism), file_parallelism)"),
    ],
    at_yield=[
        # C14 (unshuffled): at most file_parallelism shard paths pulled beyond those fully yielded
        ("C14", "implies(shuffle == 0, len(batch) <= file_parallelism)"),
    ],
    raises={"ValueError": ["True"], "Foreign": ["True"]},
    loops={1: Loop(inv=[
        "shuffle == 0 and file_parallelism >= 1",
        "0 <= len(batch) and len(batch) <= file_parallelism and len(batch) <= consumed(shard_paths_iterator)",
        # C03 / C19: what has been yielded so far is the canonical stream of the path prefix consumed
        (["C03", "C19", "C12"], "outs == FLATS(MAPS(PALOF(self, process_record), OFSEQ(TAKES(COMMON(self, split, shards, custom_metadata_type_limit, shard_filter, repeat, shuffle), consumed(shard_paths_iterator) - len(batch)))))"),
        "seq(batch) == TAKES(DROPS(COMMON(self, split, shards, custom_metadata_type_limit, shard_filter, repeat, shuffle), consumed(shard_paths_iterator) - len(batch)), len(batch))",
        "implies(len(batch) < file_parallelism, exhausted(shard_paths_iterator))",
        "srcstream(shard_paths_iterator) == COMMON(self, split, shards, custom_metadata_type_limit, shard_filter, repeat, shuffle)",
        "not FAILS(COMMON(self, split, shards, custom_metadata_type_limit, shard_filter, repeat, shuffle))",
        "not failed()", "not FAILS(outs)",
    ])})

_AS_PARAMS = {k: v for k, v in _IT_PARAMS.items() if k != "custom_metadata_type_limit"}
contract(MI, "DatasetIteration.as_numpy_iterator_async",
    props=["C02", "C03", "C12", "C19", "C07", "C14"],
    params=_AS_PARAMS, generator=True, stream_out=True, defs=_SEL_DEFS,
    modifies=["IterateShardBase.dataset_structure", "IterateShardBase.process_record"],
    requires=[r for r in _IT_REQ if "custom_metadata_type_limit" not in r] + ["KNOWN_TYPE(self)", "file_parallelism >= 1"],
    ensures=[
        ("C19", "not repeat"),
        (["C03", "C12"], "implies(shuffle == 0, outs == CANON(self, split, process_record, shards, None, shard_filter))"),
        (["C02", "C12"], "MSS(outs) == MSS(CANON(self, split, process_record, shards, None, shard_filter))"),
        ("C07", "not failed()"),
    ],
    raises={"ValueError": ["True"], "Foreign": ["True"]},
    loops={1: Loop(inv=[
        # everything yielded so far is the prefix of the composed stream (C03; C19 for repeat)
        (["C03", "C19", "C02"], "outs == OFSEQ(TAKES(forstream(), _k))"),
        "_k >= 0", "not failed()",
        "implies(FIN(forstream()), _k <= LEN(SEQOF(forstream())))",
        "FAILAT(forstream()) < 0 or FAILAT(forstream()) >= _k",
        (["C12", "C19"], "implies(shuffle == 0, forstream() == ite_stream(repeat, CANONCYC(self, split, process_record, shards, None, shard_filter), CANON(self, split, process_record, shards, None, shard_filter)))"),
        (["C12", "C02"], "implies(shuffle != 0, forstream() == MAPOPT(process_record, RRS(MAPS(RDOF(self), COMMON(self, split, shards, None, shard_filter, repeat, shuffle)), file_parallelism)))"),
        "implies(repeat, not FIN(forstream()))",
        "implies(not repeat, FIN(forstream()))",
    ])})
