# Sequence / stream algebra available to contracts (see pyvc/streams.py).
# Declared here as ufuncs so that clause texts can use them; the names and
# signatures coincide with the z3 declarations of the stream model.
for _n, _a, _r in [
    ("CAT", ["SEQ", "SEQ"], "SEQ"), ("UNIT", ["U"], "SEQ"), ("LEN", ["SEQ"], "int"),
    ("NTH", ["SEQ", "int"], "U"), ("MAPQ", ["U", "SEQ"], "SEQ"), ("FILT", ["U", "SEQ"], "SEQ"),
    ("TAKE", ["SEQ", "int"], "SEQ"), ("DROP", ["SEQ", "int"], "SEQ"),
    ("CATS", ["STREAM", "STREAM"], "STREAM"), ("OFSEQ", ["SEQ"], "STREAM"), ("CYC", ["SEQ"], "STREAM"),
    ("MAPS", ["U", "STREAM"], "STREAM"), ("FLATS", ["STREAM"], "STREAM"), ("FIN", ["STREAM"], "bool"),
    ("SEQOF", ["STREAM"], "SEQ"), ("FAILS", ["STREAM"], "bool"), ("NTHS", ["STREAM", "int"], "U"),
    ("DROPS", ["STREAM", "int"], "STREAM"), ("TAKES", ["STREAM", "int"], "SEQ"),
    ("STREAMVAL", ["U"], "STREAM"), ("ITER_U", ["STREAM"], "U"), ("BOUND", ["int", "U"], "U"),
    ("PREDFAILS", ["U", "SEQ"], "bool"), ("FAILAT", ["STREAM"], "int"),
    # multiset views
    ("MSOF", ["SEQ"], "MS"), ("MSS", ["STREAM"], "MS"),
]:
    ufunc(_n, _a, _r)

assumption("A-ALG", "laws of the sequence/stream algebra used at interface level (associativity and unit of concatenation, OFSEQ homomorphism, prefix/suffix lemmas): list-theory facts, stated as axioms in contracts/c05_theory.py; not machine-checked here")

# --- list theory (finite sequences) ---
axiom("forall(lambda a: CAT(EMPTY(), a) == a, a='SEQ', pats=['CAT(EMPTY(), a)'])")
axiom("forall(lambda a: CAT(a, EMPTY()) == a, a='SEQ', pats=['CAT(a, EMPTY())'])")
axiom("forall(lambda a, b, c: CAT(CAT(a, b), c) == CAT(a, CAT(b, c)), a='SEQ', b='SEQ', c='SEQ', pats=['CAT(CAT(a, b), c)'])")
axiom("LEN(EMPTY()) == 0")
axiom("forall(lambda a: LEN(a) >= 0, a='SEQ', pats=['LEN(a)'])")
axiom("forall(lambda a, b: LEN(CAT(a, b)) == LEN(a) + LEN(b), a='SEQ', b='SEQ', pats=['LEN(CAT(a, b))'])")
axiom("forall(lambda x: LEN(UNIT(x)) == 1, x='U', pats=['UNIT(x)'])")
axiom("forall(lambda a: TAKE(a, LEN(a)) == a, a='SEQ', pats=['TAKE(a, LEN(a))'])")
axiom("forall(lambda a: implies(LEN(a) == 0, a == EMPTY()), a='SEQ', pats=['LEN(a)'])")
# --- streams ---
axiom("forall(lambda s: CATS(EMPTYS(), s) == s, s='STREAM', pats=['CATS(EMPTYS(), s)'])")
axiom("forall(lambda a, b: CATS(OFSEQ(a), OFSEQ(b)) == OFSEQ(CAT(a, b)), a='SEQ', b='SEQ', pats=['CATS(OFSEQ(a), OFSEQ(b))'])")
axiom("forall(lambda a: FIN(OFSEQ(a)) and SEQOF(OFSEQ(a)) == a and not FAILS(OFSEQ(a)), a='SEQ', pats=['OFSEQ(a)'])")
axiom("forall(lambda a, i: NTHS(OFSEQ(a), i) == NTH(a, i), a='SEQ', pats=['NTHS(OFSEQ(a), i)'])")
axiom("forall(lambda a: implies(LEN(a) >= 1, not FIN(CYC(a))) and not FAILS(CYC(a)), a='SEQ', pats=['CYC(a)'])")

# --- lists as sequences (facts of the (arr, n) representation) ---
ufunc("LSEQR", ["ArrIntInt", "int"], "SEQ")
ufunc("LSEQU", ["ArrIntU", "int"], "SEQ")
ufunc("BOX", ["int"], "U")
ufunc("UNBOX", ["U"], "int")
ufunc("APP", ["U", "U"], "U")
ufunc("WITQ", ["U", "U", "SEQ"], "U")
ufunc("STR", ["U"], "U")
ufunc("JDUMP", ["U"], "U")
axiom("forall(lambda r: UNBOX(BOX(r)) == r, pats=['BOX(r)'])")
axiom("forall(lambda a, n: implies(n >= 0, LEN(LSEQR(a, n)) == n), a='ArrIntInt', pats=['LSEQR(a, n)'])")
axiom("forall(lambda a, n: implies(n >= 0, LEN(LSEQU(a, n)) == n), a='ArrIntU', pats=['LSEQU(a, n)'])")
axiom("forall(lambda a, n, i: implies(0 <= i and i < n, NTH(LSEQR(a, n), i) == BOX(a[i])), a='ArrIntInt', pats=['NTH(LSEQR(a, n), i)'])")
axiom("forall(lambda a, n, i: implies(0 <= i and i < n, NTH(LSEQU(a, n), i) == a[i]), a='ArrIntU', pats=['NTH(LSEQU(a, n), i)'])")
axiom("forall(lambda a: LSEQR(a, 0) == EMPTY(), a='ArrIntInt', pats=['LSEQR(a, 0)'])")
axiom("forall(lambda a: LSEQU(a, 0) == EMPTY(), a='ArrIntU', pats=['LSEQU(a, 0)'])")
# TAKE of at least the whole sequence is the sequence; of nothing is empty
axiom("forall(lambda s, k: implies(k >= LEN(s), TAKE(s, k) == s), s='SEQ', pats=['TAKE(s, k)'])")
axiom("forall(lambda s: TAKE(s, 0) == EMPTY(), s='SEQ', pats=['TAKE(s, 0)'])")
axiom("forall(lambda s, k: implies(0 <= k and k <= LEN(s), LEN(TAKE(s, k)) == k), s='SEQ', pats=['TAKE(s, k)'])")
# mapping: extensionality in the function argument (witness form)
axiom("forall(lambda f, g, s: MAPQ(f, s) == MAPQ(g, s) or APP(f, WITQ(f, g, s)) != APP(g, WITQ(f, g, s)), f='U', g='U', s='SEQ', pats=[['MAPQ(f, s)', 'MAPQ(g, s)']])")
axiom("forall(lambda f, s: LEN(MAPQ(f, s)) == LEN(s), f='U', s='SEQ', pats=['MAPQ(f, s)'])")
axiom("forall(lambda f, s: LEN(FILT(f, s)) <= LEN(s), f='U', s='SEQ', pats=['FILT(f, s)'])")
assumption("A-JSON", "json.dumps(x, sort_keys=True) is a function of the value of x and injective on JSON values (equal canonical text <=> equal value)")
axiom("forall(lambda a, b: implies(JDUMP(a) == JDUMP(b), a == b), a='U', b='U', pats=[['JDUMP(a)', 'JDUMP(b)']])")

# --- stream combinators of sedpack (their laws are the stream-level reading of
#     the contracts proved on the real generators in c10 / c15) ---
ufunc("SHUF", ["STREAM", "int"], "STREAM")       # shuffle_buffer(S, n)
ufunc("RRS", ["STREAM", "int"], "STREAM")        # round_robin(S, n): S is a stream of iterables
ufunc("LAZYS", ["U", "STREAM", "int"], "STREAM") # LazyPool(T).imap_unordered(f, S)
assumption("A-STREAMLAWS", "stream-level laws of SHUF / RRS / LAZYS are the reading, on whole streams, of the postconditions proved for shuffle_buffer, round_robin (C02 token form) and LazyPool.imap_unordered (+ A-LEMMA-CONC): finite input and buffer >= 1 => same multiset; finiteness preserved; a failing input fails the output")
# finiteness
axiom("forall(lambda f, s: FIN(MAPS(f, s)) == FIN(s), f='U', s='STREAM', pats=['MAPS(f, s)'])")
axiom("forall(lambda s: FIN(FLATS(s)) == FIN(s), s='STREAM', pats=['FLATS(s)'])")
axiom("forall(lambda s, n: FIN(SHUF(s, n)) == FIN(s), s='STREAM', pats=['SHUF(s, n)'])")
axiom("forall(lambda s, n: FIN(RRS(s, n)) == FIN(s), s='STREAM', pats=['RRS(s, n)'])")
axiom("forall(lambda f, s, n: FIN(LAZYS(f, s, n)) == FIN(s), f='U', s='STREAM', pats=['LAZYS(f, s, n)'])")
# multisets: shuffling stages preserve the multiset of a finite stream
axiom("forall(lambda s, n: implies(FIN(s) and n >= 1, MSS(SHUF(s, n)) == MSS(s)), s='STREAM', pats=['SHUF(s, n)'])")
axiom("forall(lambda s, n: implies(FIN(s) and n >= 1, MSS(RRS(s, n)) == MSS(FLATS(s))), s='STREAM', pats=['RRS(s, n)'])")
axiom("forall(lambda f, s, n: implies(FIN(s) and n >= 1, MSS(LAZYS(f, s, n)) == MSS(MAPS(f, s))), f='U', s='STREAM', pats=['LAZYS(f, s, n)'])")
# multiset congruence of map / flat-map (the multiset of the result depends only on the multiset of the input)
ufunc("MAPMS", ["U", "MS"], "MS")     # multiset image under a function
ufunc("FLATMS", ["MS"], "MS")         # multiset union of the contents of a multiset of iterables
ufunc("WITM", ["U", "U", "MS"], "U")
axiom("forall(lambda f, s: MSS(MAPS(f, s)) == MAPMS(f, MSS(s)), f='U', s='STREAM', pats=['MSS(MAPS(f, s))'])")
axiom("forall(lambda s: MSS(FLATS(s)) == FLATMS(MSS(s)), s='STREAM', pats=['MSS(FLATS(s))'])")
axiom("forall(lambda f, g, m: MAPMS(f, m) == MAPMS(g, m) or APP(f, WITM(f, g, m)) != APP(g, WITM(f, g, m)), f='U', g='U', m='MS', pats=[['MAPMS(f, m)', 'MAPMS(g, m)']])")
# failures propagate through every stage (C07)
axiom("forall(lambda f, s: implies(FAILS(s), FAILS(MAPS(f, s))), f='U', s='STREAM', pats=['MAPS(f, s)'])")
axiom("forall(lambda s: implies(FAILS(s), FAILS(FLATS(s))), s='STREAM', pats=['FLATS(s)'])")
axiom("forall(lambda s, n: implies(FAILS(s), FAILS(SHUF(s, n))), s='STREAM', pats=['SHUF(s, n)'])")
axiom("forall(lambda s, n: implies(FAILS(s), FAILS(RRS(s, n))), s='STREAM', pats=['RRS(s, n)'])")
axiom("forall(lambda f, s, n: implies(FAILS(s), FAILS(LAZYS(f, s, n))), f='U', s='STREAM', pats=['LAZYS(f, s, n)'])")
# order: map over a finite, non-failing stream is the map of its sequence
axiom("forall(lambda f, s: implies(FIN(s) and not FAILS(MAPS(f, s)), SEQOF(MAPS(f, s)) == MAPQ(f, SEQOF(s))), f='U', s='STREAM', pats=['SEQOF(MAPS(f, s))'])")
ufunc("WITS", ["U", "U", "STREAM"], "U")
axiom("forall(lambda f, g, s: MAPS(f, s) == MAPS(g, s) or APP(f, WITS(f, g, s)) != APP(g, WITS(f, g, s)), f='U', g='U', s='STREAM', pats=[['MAPS(f, s)', 'MAPS(g, s)']])")

# --- prefix / suffix laws used by the batched (unshuffled concurrent) loop ---
axiom("forall(lambda s, c, m: implies(c >= 0 and m >= 0, CAT(TAKES(s, c), TAKES(DROPS(s, c), m)) == TAKES(s, c + m)), s='STREAM', pats=[['TAKES(s, c)', 'TAKES(DROPS(s, c), m)']])")
axiom("forall(lambda s: TAKES(s, 0) == EMPTY(), s='STREAM', pats=['TAKES(s, 0)'])")
axiom("forall(lambda s: implies(FIN(s) and not FAILS(s), TAKES(s, LEN(SEQOF(s))) == SEQOF(s)), s='STREAM', pats=['TAKES(s, LEN(SEQOF(s)))'])")
axiom("forall(lambda s: implies(FIN(s) and not FAILS(s), OFSEQ(SEQOF(s)) == s), s='STREAM', pats=['OFSEQ(SEQOF(s))'])")
axiom("forall(lambda s: DROPS(s, 0) == s, s='STREAM', pats=['DROPS(s, 0)'])")
# flat-map distributes over concatenation
axiom("forall(lambda f, a, b: CATS(FLATS(MAPS(f, OFSEQ(a))), FLATS(MAPS(f, OFSEQ(b)))) == FLATS(MAPS(f, OFSEQ(CAT(a, b)))), f='U', a='SEQ', b='SEQ', pats=['CATS(FLATS(MAPS(f, OFSEQ(a))), FLATS(MAPS(f, OFSEQ(b))))'])")
axiom("forall(lambda f: FLATS(MAPS(f, OFSEQ(EMPTY()))) == EMPTYS(), f='U', pats=['MAPS(f, OFSEQ(EMPTY()))'])")
# (the second stream is reached only after a finite first one that does not fail)
axiom("forall(lambda a, b: FAILS(CATS(a, b)) == (FAILS(a) or (FIN(a) and FAILS(b))), a='STREAM', b='STREAM', pats=['CATS(a, b)'])")
axiom("not FAILS(EMPTYS())")
axiom("forall(lambda a, b: FIN(CATS(a, b)) == (FIN(a) and (FAILS(a) or FIN(b))), a='STREAM', b='STREAM', pats=['CATS(a, b)'])")
axiom("forall(lambda s, k: implies(k >= 0 and (not FIN(s) or k < LEN(SEQOF(s))), CAT(TAKES(s, k), UNIT(NTHS(s, k))) == TAKES(s, k + 1)), s='STREAM', pats=['CAT(TAKES(s, k), UNIT(NTHS(s, k)))'])")
axiom("OFSEQ(EMPTY()) == EMPTYS()")

# --- lexical path model (pyvc/models.py PathModel2) exposed to contracts ---
for _n, _a, _r in [("ISABS", ["U"], "bool"), ("HASDD", ["U"], "bool"), ("INSIDE", ["U", "U"], "bool"),
                   ("PNAME", ["U"], "U"), ("PPARENT", ["U"], "U"), ("NPARTS", ["U"], "int"),
                   ("PART", ["U", "int"], "U"), ("PPREFIX", ["U", "int"], "U"), ("FRESHNAME", ["U"], "bool")]:
    ufunc(_n, _a, _r)
assumption("A-SYMLINK", "no symlinks inside the dataset directory; containment is lexical (Path.resolve is the identity on the paths considered)")
macro("SAFE", ["p"], "not ISABS(p) and not HASDD(p)")
