# Contracts for shard selection: DatasetIteration.shard_paths_dataset (C12, C02, C03, C11)
MI = "sedpack/io/dataset_iteration.py"

ufunc("KEYOF", ["U"], "U")                    # grouping key of a (boxed) shard info
ufunc("CNTK", ["SEQ", "U", "int"], "int")    # CNTK(s, key, k) = #{t < k : KEYOF(NTH(s, t)) == key}
ufunc("LIMP", ["SEQ", "int", "int"], "SEQ")   # LIMP(s, n, k): kept elements among the first k
ufunc("PATHFN", ["U"], "U")                   # PATHFN(root): shard info -> str(root / its first file path)

# declarative selection (taken from the property statement):
#   all shards of the split (depth first)  ->  those accepted by the predicate
#   ->  the first k  ->  at most n per distinct custom-metadata value, order kept
macro("SEL0", ["d", "split"], "TSEQ(d.path, d._dataset_info.splits[split].shard_list_info_file.file_path)")
macro("SEL1", ["d", "split", "flt"], "ite_seq(is_none(flt), SEL0(d, split), FILT(flt, SEL0(d, split)))")
macro("SEL2", ["d", "split", "k", "flt"], "ite_seq(truthy(k), TAKE(SEL1(d, split, flt), optval(k)), SEL1(d, split, flt))")
macro("SEL3", ["d", "split", "k", "n", "flt"],
      "ite_seq(truthy(n), LIMP(SEL2(d, split, k, flt), optval(n), LEN(SEL2(d, split, k, flt))), SEL2(d, split, k, flt))")
# the list of path strings handed to the readers
macro("SPD", ["d", "split", "k", "n", "flt"], "MAPQ(PATHFN(d.path), SEL3(d, split, k, n, flt))")

_SEL_DEFS = _TREE_DEFS + [
    # grouping key = canonical JSON of the shard's custom metadata value
    "forall(lambda x: KEYOF(x) == JDUMP(si_ref(x).custom_metadata.value), x='U')",
    "forall(lambda s, key: CNTK(s, key, 0) == 0, s='SEQ', key='U')",
    "forall(lambda s, n: LIMP(s, n, 0) == EMPTY(), s='SEQ')",
    "forall(lambda x: APP(PATHFN(self.path), x) == STR(PJOIN(self.path, si_ref(x).file_infos[0].file_path)), x='U')",
]
_LIM_STEP = [
    "forall(lambda s, key: CNTK(s, key, _k + 1) == CNTK(s, key, _k) + ite(KEYOF(NTH(s, _k)) == key, 1, 0), s='SEQ', key='U')",
    "forall(lambda s, n: LIMP(s, n, _k + 1) == ite_seq(CNTK(s, KEYOF(NTH(s, _k)), _k) + 1 <= n, CAT(LIMP(s, n, _k), UNIT(NTH(s, _k))), LIMP(s, n, _k)), s='SEQ')",
]

_SPD_PARAMS = {"split": "U", "shards": "opt:int", "custom_metadata_type_limit": "opt:int", "shard_filter": "optfunc"}
contract(MI, "DatasetIteration.shard_paths_dataset", props=["C12", "C02", "C03", "C11", "C07"],
    params=_SPD_PARAMS, returns="list:U", defs=_SEL_DEFS, modifies=[],
    locals_={"counts": "dict:int", "shards_list": "list:ref:ShardInfo"},
    requires=["truthy(split)", "is_none(shards) or optval(shards) >= 0",
              "is_none(custom_metadata_type_limit) or optval(custom_metadata_type_limit) >= 0"],
    ensures=[
        (["C12", "C02", "C03"], "seq(result) == SPD(self, split, shards, custom_metadata_type_limit, shard_filter)"),
        ("C12", "len(result) >= 1"),        # an empty selection is an error, not an empty pass
        ("C12", "LEN(SEL1(self, split, shard_filter)) >= 1"),
        ("C02", "split in self._dataset_info.splits"),
    ],
    raises={"ValueError": [("C12", "LEN(SEL1(self, split, shard_filter)) == 0")],
            "Foreign": ["True"]},
    loops={1: Loop(inv=[
        "0 <= _k and _k <= len(old_shards_list)",
        "seq(shards_list) == LIMP(seq(old_shards_list), optval(custom_metadata_type_limit), _k)",
        "forall(lambda key: ite(key in counts, counts[key], 0) == CNTK(seq(old_shards_list), key, _k), key='U')",
        "len(shards_list) <= _k",
        "implies(_k >= 1, len(shards_list) >= 1)",
    ], lemmas=_LIM_STEP)})
