# Shard readers (src/sedpack/io/{npz,flatbuffer,tfrec}) as far as the iteration
# interfaces need them.  C02: process_record applied exactly once per example, in order.
ufunc("METHV", ["U", "U", "int", "U"], "U")      # bound method of a reader as a value
ufunc("ITERV", ["U", "int", "U"], "U")           # ITERV(kind, ds, path): the iterable of examples of a shard
ufunc("RD", ["U", "int"], "U")                   # RD(kind, ds): path -> ITERV(kind, ds, path)
ufunc("PALF", ["U", "int", "U"], "U")            # PALF(kind, ds, pr): path -> list of processed examples
ufunc("FOI", ["U"], "U")                         # func_or_identity
ufunc("ITEMS", ["U"], "SEQ")                     # content of an iterable value
ufunc("MAPQOPT", ["U", "SEQ"], "SEQ")

assumption("A-READER", "iterate_shard of the three reader classes is a function of (class, dataset structure, path) only: it returns the examples decodable from the file (library code: numpy / flatbuffers / TensorFlow; audited by the C01 round-trip harness)")
axiom("forall(lambda k, ds, x: APP(RD(k, ds), x) == ITERV(k, ds, x), k='U', x='U', pats=['APP(RD(k, ds), x)'])")
def _meth_axiom(cls_, meth, kind):
    lhs = "APP(METHV(%r, %r, ds, pr), x)" % (cls_, meth)
    axiom("forall(lambda ds, pr, x: %s == ITERV(%r, ds, x), pr='U', x='U', pats=[%r])" % (lhs, kind, lhs))
for _cls, _kind in [("IterateShardNP", "npz"), ("IterateShardFlatBuffer", "fb"), ("IterateShardTFRec", "tfrec")]:
    _meth_axiom(_cls, "iterate_shard", _kind)
    # from the contract of process_and_list below
    axiom("forall(lambda ds, pr: METHV(%r, 'process_and_list', ds, pr) == PALF(%r, ds, pr), pr='U', pats=[%r])" % (_cls, _kind, "METHV(%r, 'process_and_list', ds, pr)" % _cls))
MU = "sedpack/io/utils.py"
# `identity` is verified from source; the function object FN_IDENTITY() gets its defining fact
# (forall x. APP(FN_IDENTITY(), x) == x) generated from that contract, and FOI is *defined* from it
# (it used to be an assumed axiom about APP(FOI(f), x)).
contract(MU, "identity", props=["C02"], params={"x": "U"}, returns="U", modifies=[],
    ensures=["result == x"])
funcref(MU, "identity", "FN_IDENTITY")
axiom("forall(lambda f: FOI(f) == ite_u(is_none(f), FN_IDENTITY(), f), f='U', pats=['FOI(f)'])")
contract(MU, "func_or_identity", props=["C02"], params={"f": "optfunc"}, returns="func", modifies=[],
    ensures=["result == FOI(f)"])

contract("sedpack/io/shard/iterate_shard_base.py", "IterateShardBase.__init__", props=["C02", "C12"],
    params={"dataset_structure": "ref:DatasetStructure", "process_record": "optfunc"},
    modifies=["IterateShardBase.dataset_structure@self", "IterateShardBase.process_record@self"],
    ensures=["self.dataset_structure is dataset_structure", "self.process_record == process_record"])
contract("sedpack/io/tfrec/read.py", "IterateShardTFRec.__init__", props=["C02", "C12"],
    params={"dataset_structure": "ref:DatasetStructure", "process_record": "optfunc", "num_parallel_calls": "int"},
    modifies=["IterateShardBase.dataset_structure@self", "IterateShardBase.process_record@self",
              "IterateShardTFRec.from_tfrecord@self", "IterateShardTFRec.num_parallel_calls@self"],
    ensures=["self.dataset_structure is dataset_structure", "self.process_record == process_record"])

for _mod, _cls, _kind in [("sedpack/io/npz/iterate_npz.py", "IterateShardNP", "npz"),
                          ("sedpack/io/flatbuffer/iterate.py", "IterateShardFlatBuffer", "fb"),
                          ("sedpack/io/tfrec/read.py", "IterateShardTFRec", "tfrec")]:
    contract(_mod, _cls + ".iterate_shard", props=["C02", "C01", "C07"], params={"file_path": "U"},
        generator=True, stream_out=True, assumed=True, verify=False, modifies=["IterateShardTFRec.from_tfrecord@self"],
        summary=dict(result="STREAMVAL(ITERV(%r, self.dataset_structure, file_path))" % _kind),
        note="library-heavy decoding; assumed A-READER, audited by the C01 harness")
    contract(_mod, _cls + ".process_and_list", props=["C02", "C03", "C07"],
        params={"shard_file": "U"}, returns="list:U", modifies=["IterateShardTFRec.from_tfrecord@self"],
        ensures=[
            # every example of the shard, in order, with process_record applied exactly once
            ("C02", "seq(result) == MAPQ(FOI(self.process_record), SEQOF(STREAMVAL(ITERV(%r, self.dataset_structure, shard_file))))" % _kind),
        ],
        raises={"Foreign": ["True"]})

# flat-map / map fusion: flattening process_and_list results = mapping
# process_record over the flattened shard contents (reading of the
# process_and_list contract above: ITEMS(PALF(k,ds,pr)(x)) = map(FOI(pr), ITEMS(ITERV(k,ds,x))))
axiom("forall(lambda k, ds, pr, s: FLATS(MAPS(PALF(k, ds, pr), s)) == ite_stream(pr != None_U(), MAPS(pr, FLATS(MAPS(RD(k, ds), s))), FLATS(MAPS(RD(k, ds), s))), k='U', pr='U', s='STREAM', pats=['MAPS(PALF(k, ds, pr), s)'])")
axiom("forall(lambda k, ds, pr, m: FLATMS(MAPMS(PALF(k, ds, pr), m)) == ite_ms(pr != None_U(), MAPMS(pr, FLATMS(MAPMS(RD(k, ds), m))), FLATMS(MAPMS(RD(k, ds), m))), k='U', pr='U', m='MS', pats=['MAPMS(PALF(k, ds, pr), m)'])")
for _cls, _kind in [("IterateShardNP", "npz"), ("IterateShardFlatBuffer", "fb")]:
    _meth_axiom(_cls, "iterate_shard_async", _kind)
