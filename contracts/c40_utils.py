# Contracts for src/sedpack/io/utils.py
# C16: checksums are the standard digests of the exact file bytes, in the configured order
# C06: safe_update_file never exposes a partial file under the target name
MU = "sedpack/io/utils.py"
ufunc("HEX", ["U", "U", "int"], "U")
ufunc("FLEN", ["U"], "int")
ufunc("DIGESTS", ["SEQ", "U"], "U")      # DIGESTS(alg names, content): the tuple of hex digests as a value
ufunc("TUPLEVAL", ["SEQ"], "U")

assumption("A-HASH", "hashlib.new(n) / xxhash.xxhN() compute the standard digest named n of exactly the bytes fed, lowercase hex; digests treated as injective (collision free) for C05; audited against known-answer vectors and coreutils/openssl (bounded)")
assumption("A-IO", "readinto(buf) returns n in [0, len(buf)], n = 0 iff end of file, and fills buf[:n] with the next n file bytes; files opened for reading are not modified meanwhile")

contract(MU, "_get_hash_function", props=["C16", "C05"], params={"name": "U"}, returns="ref:HashObj",
    modifies=[],
    ensures=[
        ("C16", "result.alg == name"),      # each of the 13 names maps to the algorithm of that name
        "result.fed_len == 0 and result.fed_good",
        "fresh(result)",
    ])

contract(MU, "hash_checksums", props=["C16", "C05", "C06"],
    params={"file_path": "U", "hashes": "list:U"}, returns="list:U",
    modifies=[],
    requires=[],
    ensures=[
        ("C16", "len(result) == len(hashes)"),
        # result[j] is the digest, under algorithm hashes[j], of ALL bytes of the file
        ("C16", "forall(lambda j: implies(0 <= j and j < len(hashes), result[j] == HEX(hashes[j], disk_read(file_path), FLEN(disk_read(file_path)))))"),
    ],
    raises={"FileNotFoundError": [("C05", "dstate(file_path) != 2")]},
    loops={
        1: Loop(inv=[     # for i in iter(lambda: readinto, 0)
            "hashed_file.content == disk_read(file_path) and not hashed_file.writing",
            "0 <= hashed_file.pos and hashed_file.pos <= FLEN(hashed_file.content)",
            "len(hash_functions) == len(hashes)",
            # every hash object has been fed exactly the prefix read so far
            ("C16", "forall(lambda j: implies(0 <= j and j < len(hash_functions),"
                    "  hash_functions[j].fed_good and hash_functions[j].fed_len == hashed_file.pos"
                    "  and (hash_functions[j].fed_len == 0 or hash_functions[j].fed_src == hashed_file.content)"
                    "  and hash_functions[j].alg == hashes[j]))"),
            "forall(lambda a, b: implies(0 <= a and a < b and b < len(hash_functions), hash_functions[a] is not hash_functions[b]))",
            "memory_view.size >= 1",
        ], frame={"FileObj.content": [], "FileObj.writing": [], "FileObj.path": [], "MemView.size": [], "HashObj.alg": []}),
        2: Loop(inv=[     # for hash_function in hash_functions
            "0 <= _k and _k <= len(hash_functions) and len(hash_functions) == len(hashes)",
            "hashed_file.content == disk_read(file_path)",
            "i >= 1 and memory_view.n == i and memory_view.src == hashed_file.content and memory_view.off == hashed_file.pos - i",
            "0 <= memory_view.off and hashed_file.pos <= FLEN(hashed_file.content)",
            ("C16", "forall(lambda j: implies(0 <= j and j < len(hash_functions),"
                    "  hash_functions[j].fed_good and hash_functions[j].alg == hashes[j]"
                    "  and hash_functions[j].fed_len == ite(j < _k, hashed_file.pos, hashed_file.pos - i)"
                    "  and (hash_functions[j].fed_len == 0 or hash_functions[j].fed_src == hashed_file.content)))"),
            "forall(lambda a, b: implies(0 <= a and a < b and b < len(hash_functions), hash_functions[a] is not hash_functions[b]))",
            "memory_view.size >= 1",
        ], frame={"FileObj.content": [], "FileObj.writing": [], "FileObj.path": [], "FileObj.pos": [], "MemView.size": [],
                  "MemView.n": [], "MemView.src": [], "MemView.off": [], "HashObj.alg": []}),
    })

# ---- paths: validators (C17) ------------------------------------------------------
MFI = "sedpack/io/file_info.py"
MSM = "sedpack/io/shard_file_metadata.py"
_SAFE_V = "SAFE(v)"
_IS_LIST_NAME = "PNAME(%s) == 'shards_list.json'"
contract(MFI, "FileInfo.no_directory_traversal", props=["C17"], params={"v": "U"}, returns="U", modifies=[],
    ensures=[("C17", "result == v"), ("C17", _SAFE_V)],
    raises={"ValueError": [("C17", "not SAFE(v)")]})
contract(MSM, "ShardsList.check_is_shards_list", props=["C17"], params={"v": "U"}, returns="U", modifies=[],
    ensures=[("C17", "result == v"), ("C17", _SAFE_V), ("C17", _IS_LIST_NAME % "v")],
    raises={"ValueError": [("C17", "not (SAFE(v) and %s)" % (_IS_LIST_NAME % "v"))]})
contract(MSM, "ShardListInfo.check_is_shards_list", props=["C17"], params={"v": "ref:FileInfo"},
    returns="ref:FileInfo", modifies=[],
    ensures=[("C17", "result is v"), ("C17", _IS_LIST_NAME % "v.file_path")],
    raises={"ValueError": [("C17", "not (%s)" % (_IS_LIST_NAME % "v.file_path"))]})

# what pydantic guarantees for every object it validated (A-PYD): the
# postconditions of the validators above, for the object and all nested models
macro("VALID_FileInfo", ["x"], "SAFE(x.file_path)")
macro("VALID_ShardInfo", ["x"], "forall(lambda i: implies(0 <= i and i < len(x.file_infos), VALID_FileInfo(x.file_infos[i])))")
macro("VALID_ShardListInfo", ["x"], "VALID_FileInfo(x.shard_list_info_file) and " + (_IS_LIST_NAME % "x.shard_list_info_file.file_path"))
macro("VALID_ShardsList", ["x"],
      "SAFE(x.relative_path_self) and " + (_IS_LIST_NAME % "x.relative_path_self") +
      " and forall(lambda i: implies(0 <= i and i < len(x.shard_files), VALID_ShardInfo(x.shard_files[i])))"
      " and forall(lambda i: implies(0 <= i and i < len(x.children_shard_lists), VALID_ShardListInfo(x.children_shard_lists[i])))")

# ---- safe_update_file ----------------------------------------------------------------------
contract(MU, "safe_update_file", props=["C06", "C16", "C17", "C05"],
    params={"dataset_root_path": "U", "relative_path": "U", "info": "U", "hashes": "list:U"},
    returns="ref:FileInfo", modifies=["ghost:fs"], fs_root="dataset_root_path",
    # net file-system effect: exactly the target becomes complete with `info`
    fs_effects=[("PJOIN(dataset_root_path, relative_path)", "info")],
    # relative, '..'-free, and naming a file (at least one component: for
    # `.` the parent directory would lie outside the root)
    requires=["SAFE(relative_path)", ("C17", "NPARTS(relative_path) >= 1")],
    ensures=[
        # the target is complete and holds exactly `info`; it never was partial
        ("C06", "dstate(PJOIN(dataset_root_path, relative_path)) == 2"),
        ("C06", "disk_read(PJOIN(dataset_root_path, relative_path)) == info"),
        ("C17", "result.file_path == relative_path"),
        # C16: the recorded checksums are the digests of what is now on disk, in the order of `hashes`
        ("C16", "len(result.hash_checksums) == len(hashes)"),
        ("C16", "forall(lambda j: implies(0 <= j and j < len(hashes), result.hash_checksums[j] == HEX(hashes[j], info, FLEN(info))))"),
        "fresh(result)",
    ],
    raises={"ValueError": ["False"]})
