# as_tfdataset / read_and_decode.  C12: the tf.data interface hands the SAME
# selection options to the selection / to the concurrent iterator behind
# from_generator (call-site obligations); tf.data operators themselves: A-TF.
assumption("A-TF", "TensorFlow record writer/reader and the tf.data operators (from_generator, from_tensor_slices, repeat, interleave, map, shuffle, batch, prefetch) preserve content and, unshuffled, order; audited by the C01/C02/C12 harness (bounded)")
ufunc("DECODEF", ["U"], "U")

contract("sedpack/io/tfrec/tfdata.py", "get_from_tfrecord", props=["C12", "C01"],
    params={"saved_data_description": "U"}, returns="func", modifies=[], assumed=True, verify=False,
    ensures=["result == DECODEF(saved_data_description)"],
    note="builds the tf.io.parse_single_example closure; audited by the C01 harness")

contract(MI, "DatasetIteration.read_and_decode", props=["C12", "C02", "C03"],
    params={"tf_dataset": "stream", "cycle_length": "opt:int", "num_parallel_calls": "opt:int", "parallelism": "opt:int"},
    returns="stream", modifies=[],
    ensures=[
        # records are read with the dataset's own compression and decoded with its own description
        ("C12", "stream(result) == tfop('map', tfop('interleave', tf_dataset, TFRDF(self._dataset_info.dataset_structure.compression),"
                "   block_length=1, cycle_length=cycle_length, deterministic=DETFLAG(cycle_length), num_parallel_calls=num_parallel_calls),"
                " DECODEF(self._dataset_info.dataset_structure.saved_data_description), num_parallel_calls=parallelism)"),
    ])
macro("TFRDF", ["c"], "lam(lambda x: tfcall_u('tf.data.TFRecordDataset', x, compression_type=c))")
# one file at a time => deterministic None; several interleaved => False; no cycle length => True
macro("DETFLAG", ["cl"], "ite_u(is_none(cl), boolu(True), ite_u(optval(cl) > 1, boolu(False), None_U()))")

_TF_PARAMS = dict(_IT_PARAMS)
_TF_PARAMS.update({"batch_size": "int", "prefetch": "int", "file_parallelism": "opt:int", "parallelism": "opt:int"})
_SAME_SEL = ("callee_split == split and callee_shards == shards and callee_custom_metadata_type_limit == custom_metadata_type_limit"
             " and callee_shard_filter == shard_filter")
contract(MI, "DatasetIteration.as_tfdataset", props=["C12", "C02", "C03", "C19"],
    params=_TF_PARAMS, returns="stream", defs=_SEL_DEFS, modifies=[],
    requires=_IT_REQ + ["is_none(file_parallelism) or optval(file_parallelism) >= 1", "KNOWN_TYPE(self)"],
    at_call={
        # C12: every selection option reaches the selection unchanged ...
        "shard_paths_dataset": [("C12", _SAME_SEL)],
        # ... and, for fb / npz, also the concurrent iterator that actually reads (F4)
        "as_numpy_iterator_concurrent": [
            ("C12", _SAME_SEL),
            (["C12", "C19", "C02"], "callee_repeat == repeat and callee_shuffle == shuffle and is_none(callee_process_record)"),
            ("C02", "callee_file_parallelism >= 1"),
        ],
    },
    ensures=[
        ("C12", "LEN(SPD(self, split, shards, custom_metadata_type_limit, shard_filter)) >= 1"),
    ],
    raises={"ValueError": ["True"], "Foreign": ["True"]})
