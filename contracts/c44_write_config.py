# DatasetWriting.write_config under contract: group the updates by split, merge each split
# (merge_shard_infos, c43), write the description.
_UI = "updated_infos"
_G2 = "splits_to_update"
_SPL = "self._dataset_info.splits"
# split s has an update among updated_infos
macro("HAS_UPDATE", ["us", "s"], "not forall(lambda j: implies(0 <= j and j < len(us), PART(UP(us[j]), 0) != s))")
_WC_SPLITS_PRE = ("forall(lambda s: implies(s in %s, KNOWN_SPLIT(s) and (HAS_UPDATE(%s, s) or SPLIT_GOOD(self, s))), s='U')" % (_SPL, _UI))
contract(MW, "DatasetWriting.write_config", props=["C04", "C05", "C06", "C08", "C09", "C20", "C16"],
    params={"updated_infos": "list:ref:ShardListInfo"}, returns="ref:FileInfo",
    requires=[
        "forall(lambda j: implies(0 <= j and j < len(updated_infos), VALID_ShardListInfo(updated_infos[j]) and NPARTS(UP(updated_infos[j])) >= 2))",
        "forall(lambda i, j: implies(0 <= i and i < j and j < len(updated_infos), UP(updated_infos[i]) != UP(updated_infos[j])))",
        ("C16", "ALGS(self) == galgs()"),
        "hide Q_DISK: DISK_OK(self.path)", "hide Q_GINV: GINV(self.path)",
        # every split of the description is either being updated or already exact
        _WC_SPLITS_PRE,
    ],
    defs=["forall(lambda j: use_path(UP(updated_infos[j]), 1, 0, UP(updated_infos[j]), 0))"],
    modifies=["DatasetInfo.splits@self._dataset_info", "ghost:fs", "ghost:cert"],
    locals_={"splits_to_update": "dict:list:ref:ShardListInfo"},
    at_call={"merge_shard_infos": [
        ("C16", "callee_hashes == ALGS(self)"),
        ("C04", "callee_dataset_root == self.path and callee_common == 1")]},
    ensures=[
        # C04 / C05 / C08: every split of the description is exact again (induction step over sessions)
        (["C04", "C05", "C08"], "DS_WF(self)"),
        ("C04", "reveal I_DISK,Q_DISK: hide R_DISK: DISK_OK(self.path)"), ("C04", "reveal I_GINV,I_DISK,Q_GINV,Q_DISK: hide R_GINV: GINV(self.path)"),
        # C08 / C04: no update is dropped: the split of every update is in the description afterwards
        (["C08", "C04"], "forall(lambda j: implies(0 <= j and j < len(updated_infos), PART(UP(updated_infos[j]), 0) in self._dataset_info.splits))"),
        ("C08", "forall(lambda s: implies(old(s in self._dataset_info.splits), s in self._dataset_info.splits), s='U')"),
        # C08: untouched splits keep their entry
        ("C08", "forall(lambda s: implies(not HAS_UPDATE(updated_infos, s),"
                "   (s in self._dataset_info.splits) == old(s in self._dataset_info.splits)"
                "   and implies(s in self._dataset_info.splits, self._dataset_info.splits[s] is old(self._dataset_info.splits[s]))), s='U')"),
        # C20/C04/C06: the description on disk is complete (written last)
        (["C20", "C04", "C06"], "dstate(PJOIN(self.path, 'dataset_info.json')) == 2"),
    ],
    # only an update can be refused (unknown split name, or infos of one split that do not share its directory)
    raises={"ValueError": ["len(updated_infos) >= 1"]},
    exit_lemmas=[
        # the description is not a list file: writing it touches no list
        "forall(lambda rel: implies(PNAME(rel) == 'shards_list.json' and not ISABS(rel), PJOIN(self.path, rel) != PJOIN(self.path, 'dataset_info.json')), rel='U')",
    ],
    loops={
        1: Loop(inv=[
            "0 <= _k and _k <= len(updated_infos)",
            f"forall(lambda g: implies(g in {_G2}, KNOWN_SPLIT(g) and len({_G2}[g]) >= 1), g='U')",
            f"forall(lambda g, i: implies(g in {_G2} and 0 <= i and i < len({_G2}[g]),"
            f"   VALID_ShardListInfo({_G2}[g][i]) and NPARTS(UP({_G2}[g][i])) >= 2 and PART(UP({_G2}[g][i]), 0) == g), g='U')",
            f"forall(lambda g, i, j: implies(g in {_G2} and 0 <= i and i < j and j < len({_G2}[g]), UP({_G2}[g][i]) != UP({_G2}[g][j])), g='U')",
            f"forall(lambda g, i, j: implies(g in {_G2} and 0 <= i and i < len({_G2}[g]) and _k <= j and j < len(updated_infos),"
            f"   UP({_G2}[g][i]) != UP(updated_infos[j])), g='U')",
            # every update seen so far is in the group of its split
            f"forall(lambda j: implies(0 <= j and j < _k, PART(UP(updated_infos[j]), 0) in {_G2}))",
            f"forall(lambda g: implies(g in {_G2}, HAS_UPDATE(updated_infos, g)), g='U')",
        ]),
        2: Loop(inv=[
            f"0 <= _k and _k <= dictlen({_G2})",
            f"forall(lambda s: (s in {_SPL}) == (old(s in {_SPL}) or (s in {_G2} and dictidx({_G2}, s) < _k)), s='U')",
            f"forall(lambda s: implies(s in {_SPL}, KNOWN_SPLIT(s)), s='U')",
            # merged splits are exact; the others still hold the entry they had
            f"forall(lambda s: implies(s in {_G2} and dictidx({_G2}, s) < _k, SPLIT_GOOD(self, s)), s='U')",
            f"forall(lambda s: implies(s in {_SPL} and not (s in {_G2} and dictidx({_G2}, s) < _k), {_SPL}[s] is old({_SPL}[s])), s='U')",
            f"forall(lambda s: implies(s in {_SPL} and not (s in {_G2}), SPLIT_GOOD(self, s)), s='U')",
            "reveal Q_DISK: hide I_DISK: DISK_OK(self.path)", "reveal Q_GINV,Q_DISK: hide I_GINV: GINV(self.path)",
        ], frame={"DatasetBase._dataset_info": [], "DatasetBase.path": [], "DatasetInfo.dataset_structure": [],
                  "DatasetInfo.splits": ["self._dataset_info"]},
           lemmas=[f"forall(lambda g, i: use_path(UP({_G2}[g][i]), 0, 0, UP({_G2}[g][i]), 0), g='U')",
                   ] + [x % sp for sp in ("'train'", "'test'", "'holdout'") for x in (
                       "use_path(PJOIN(%s, 'shards_list.json'), 1, 0, 'shards_list.json', 0)",
                       "use_path(%s, 1, 0, 'shards_list.json', 0)")],
           end_lemmas=[
               "UP(self._dataset_info.splits[split]) == PJOIN(split, 'shards_list.json')",
               "INFO_EXACT(self.path, galgs(), self._dataset_info.splits[split]) and cert(self.path, PJOIN(split, 'shards_list.json'))",
               f"forall(lambda s: implies(s != split and s in {_SPL}, iter_start(s in {_SPL}) and {_SPL}[s] is iter_start({_SPL}[s])), s='U')",
               "reveal R_FS,R_CERT: forall(lambda s: implies(s != split and KNOWN_SPLIT(s),"
               "   dstate(PJOIN(self.path, PJOIN(s, 'shards_list.json'))) == iter_start(dstate(PJOIN(self.path, PJOIN(s, 'shards_list.json'))))"
               "   and disk_read(PJOIN(self.path, PJOIN(s, 'shards_list.json'))) == iter_start(disk_read(PJOIN(self.path, PJOIN(s, 'shards_list.json'))))"
               "   and cert(self.path, PJOIN(s, 'shards_list.json')) == iter_start(cert(self.path, PJOIN(s, 'shards_list.json')))), s='U')",
               f"forall(lambda s: implies(s != split and s in {_SPL} and iter_start(SPLIT_GOOD(self, s)), SPLIT_GOOD(self, s)), s='U')",
               f"split in {_G2} and dictidx({_G2}, split) == iter_start(_k) and _k == iter_start(_k) + 1",
               f"forall(lambda s: implies(s in {_G2} and dictidx({_G2}, s) < _k and s != split, dictidx({_G2}, s) < iter_start(_k)), s='U')",
               "SPLIT_GOOD(self, split)",
               f"forall(lambda s: implies(s in {_G2} and dictidx({_G2}, s) < _k, s in {_SPL}), s='U')",
               f"forall(lambda s: implies(s in {_G2} and dictidx({_G2}, s) == iter_start(_k), s == split), s='U')",
               f"forall(lambda s: implies(s in {_G2} and dictidx({_G2}, s) < iter_start(_k), iter_start(SPLIT_GOOD(self, s))), s='U')",
               f"forall(lambda s: implies(s in {_G2} and dictidx({_G2}, s) < iter_start(_k), SPLIT_GOOD(self, s)), s='U')",
               f"forall(lambda s: implies(s in {_G2} and dictidx({_G2}, s) < _k, SPLIT_GOOD(self, s)), s='U')",
               f"forall(lambda s: implies(s in {_SPL} and not (s in {_G2}), s != split and iter_start(s in {_SPL} and SPLIT_GOOD(self, s))), s='U')",
           ]),
    })
