# Shard writers and codecs: C18 (a rejected write leaves no trace), C01 (what is
# stored is what the reader decodes), C06 (a shard file is complete when close returns)
MWB = "sedpack/io/shard/shard_writer_base.py"
MWF = "sedpack/io/shard/shard_writer_flatbuffer.py"
MCO = "sedpack/io/compress.py"
assumption("A-NP", "numpy array algebra used by the FlatBuffers path: np.copy / flatten keep the C-order element sequence, np.can_cast(safe) => value preserving np.array(x, dtype), byteswap changes byte order not values, tobytes('C'), frombuffer / reshape C order; dtype.byteorder is one of = < > | and sys.byteorder one of little / big; audited by the C01 bit-pattern harness (bounded)")
assumption("A-FB", "flatbuffers.Builder and the generated accessors do not raise on the calls made and round-trip byte vectors; vectors of offsets keep order (audited by the C01 harness)")
assumption("A-CODEC", "for each codec decompress(compress(x)) = x (gzip, bz2, lzma, lz4.frame, zstandard); audited (bounded)")
ufunc("SHAPEOF", ["U"], "U")
ufunc("HASVAR", ["U"], "bool")

# ---- abstract _write (each concrete _write below is proved against the same statement
#      with nrec read as its own representation) --------------------------------------------
contract(MWB, "ShardWriterBase._write", cls="ShardWriterBase", sig=["self", "values"], params={"values": "dict:U"},
    props=["C18", "C10", "C04"], assumed=True, verify=False,
    requires=["not self.closed"], modifies=["Writer.nrec@self"],
    ensures=["self.nrec == old(self.nrec) + 1"],
    raises={"Exception": ["self.nrec == old(self.nrec)"]},
    note="abstract method; the three implementations are under contract below / in c51")

macro("DESC", ["w"], "w.dataset_structure.saved_data_description")
macro("ATTR_K", ["w", "k"], "iseq(DESC(w), k)")
# the shape check of the base class for attribute k of the description
macro("SHAPE_OK", ["w", "values", "k"],
      "truthy(libmeth('has_variable_size', ATTR_K(w, k))) or"
      " attr('shape', libcall('np.array', values[attr('name', ATTR_K(w, k))])) == attr('shape', ATTR_K(w, k))")

contract(MWB, "ShardWriterBase.write", props=["C18", "C10", "C04"],
    params={"values": "dict:U"},
    requires=["not self.closed"], modifies=["Writer.nrec@self"],
    ensures=[
        ("C04", "self.nrec == old(self.nrec) + 1"),
        # C18: every fixed-size attribute matched its declared shape BEFORE anything was stored
        ("C18", "forall(lambda k: implies(0 <= k and k < ilen(DESC(self)), SHAPE_OK(self, values, k)))"),
    ],
    # C18: a rejected write (wrong shape, missing attribute, or refused by the format) stores nothing
    raises={"Exception": [("C18", "self.nrec == old(self.nrec)")]},
    loops={1: Loop(inv=[
        "0 <= _k and _k <= ilen(DESC(self))",
        "self.nrec == loop_entry(self.nrec)",
        ("C18", "forall(lambda k: implies(0 <= k and k < _k, SHAPE_OK(self, values, k)))"),
    ])})

# ---- codecs: both tables pair every compression name with inverse functions (C01) ----
macro("CODEC_C", ["k", "data"],
      "ite_u(k == '', data,"
      " ite_u(k == 'GZIP' or k == 'ZLIB', libcall('gzip.compress', data, compresslevel=9),"
      " ite_u(k == 'BZ2', libcall('bz2.compress', data, compresslevel=9),"
      " ite_u(k == 'LZMA', libcall('lzma.compress', data),"
      " ite_u(k == 'LZ4', libcall('lz4.frame.compress', data),"
      " libcall('zstandard.compress', data))))))")
macro("CODEC_D", ["k", "data"],
      "ite_u(k == '', data,"
      " ite_u(k == 'GZIP' or k == 'ZLIB', libcall('gzip.decompress', data),"
      " ite_u(k == 'BZ2', libcall('bz2.decompress', data),"
      " ite_u(k == 'LZMA', libcall('lzma.decompress', data),"
      " ite_u(k == 'LZ4', libcall('lz4.frame.decompress', data),"
      " libcall('zstandard.decompress', data))))))")
macro("CODEC_KNOWN", ["k"], "k == '' or k == 'GZIP' or k == 'ZLIB' or k == 'BZ2' or k == 'LZMA' or k == 'LZ4' or k == 'ZSTD'")
contract(MCO, "CompressedFile.compress", props=["C01"], params={"data": "U"}, returns="U", modifies=[],
    ensures=[("C01", "CODEC_KNOWN(self.compression_type) and result == CODEC_C(self.compression_type, data)")],
    raises={"NotImplementedError": ["not CODEC_KNOWN(self.compression_type)"]})
contract(MCO, "CompressedFile.decompress", props=["C01", "C07"], params={"data": "U"}, returns="U", modifies=[],
    ensures=[("C01", "CODEC_KNOWN(self.compression_type) and result == CODEC_D(self.compression_type, data)")],
    raises={"NotImplementedError": ["not CODEC_KNOWN(self.compression_type)"]})

# ---- FlatBuffers writer -------------------------------------------------------------------
# A-NP: byte-order flags numpy / the interpreter can report
axiom("forall(lambda x: attr('byteorder', x) == '=' or attr('byteorder', x) == '<' or attr('byteorder', x) == '>' or attr('byteorder', x) == '|', x='U', pats=[\"attr('byteorder', x)\"])")
axiom("sys_byteorder() == 'little' or sys_byteorder() == 'big'")
contract(MWF, "ShardWriterFlatBuffer.save_numpy_vector_as_bytearray", props=["C01", "C18"],
    params={"builder": "U", "attribute": "U", "value": "U"}, returns="U", modifies=[],
    ensures=[
        # C18: only a value that can be cast safely to the declared dtype is stored
        ("C18", "truthy(libcall('np.can_cast', libmeth('flatten', libcall('np.copy', value)), casting='safe', to=attr('dtype', attribute)))"),
        # C01: the bytes handed to the builder are the little-endian C-order bytes of the cast value
        ("C01", "internal: byte_representation == libmeth('tobytes', LE_OF(CAST_OF(value, attribute)), order='C')"),
    ],
    raises={"ValueError": [("C18", "True")]})
macro("CAST_OF", ["value", "attribute"], "libcall('np.array', libmeth('flatten', libcall('np.copy', value)), dtype=attr('dtype', attribute))")
# little-endian presentation of an array: unchanged if already little endian (or single byte), byte-swapped otherwise
macro("LE_OF", ["x"],
      "ite_u(attr('byteorder', attr('dtype', x)) == '>' or (attr('byteorder', attr('dtype', x)) == '=' and sys_byteorder() == 'big'),"
      "      libmeth('byteswap', x, inplace=False), x)")

contract(MWF, "ShardWriterFlatBuffer._write", props=["C18", "C04", "C01"],
    params={"values": "dict:U"},
    requires=["implies(self._builder is not None, truthy(self._builder))"],
    modifies=["ShardWriterFlatBuffer._examples@self", "ShardWriterFlatBuffer._builder@self"],
    ensures=[
        # exactly one more example recorded (nrec = len(_examples)), earlier ones untouched
        ("C04", "len(self._examples) == old(len(self._examples)) + 1"),
        ("C18", "forall(lambda i: implies(0 <= i and i < old(len(self._examples)), self._examples[i] == old(self._examples[i])))"),
        "self._builder is not None and truthy(self._builder)",
    ],
    # C18: a value refused by the safe-cast check (or a missing attribute) leaves the example list untouched
    raises={"Exception": [("C18", "self._examples == old(self._examples)")]},
    loops={
        1: Loop(inv=["0 <= _k and len(saved_attributes) == _k",
                     "self._examples == loop_entry(self._examples)", "self._builder is not None and truthy(self._builder)"],
                frame={"ShardWriterFlatBuffer._examples": [], "ShardWriterFlatBuffer._builder": []}),
        2: Loop(inv=["self._examples == loop_entry(self._examples)", "self._builder is not None and truthy(self._builder)"],
                frame={"ShardWriterFlatBuffer._examples": [], "ShardWriterFlatBuffer._builder": []}),
    })

MFI_ = "sedpack/io/flatbuffer/iterate.py"
contract(MFI_, "IterateShardFlatBuffer.decode_array", props=["C01"],
    params={"np_bytes": "U", "attribute": "U", "batch_size": "int"}, returns="U", modifies=[],
    ensures=[
        # C01: bytes are read as little-endian values of the declared dtype, in C order, in the declared shape
        ("C01", "implies(batch_size == 0, result == libmeth('reshape',"
                "   libcall('np.frombuffer', buffer=np_bytes, dtype=libmeth('newbyteorder', libcall('np.dtype', attr('dtype', attribute)), '<')),"
                "   attr('shape', attribute)))"),
    ])
# decode(save(v)) = cast(v) in the declared shape: the reader's composition is the inverse of the writer's (A-NP)
axiom("forall(lambda x, dt, shp: implies(LE_FLAG(x), libmeth('reshape', libcall('np.frombuffer', buffer=libmeth('tobytes', x, order='C'), dtype=libmeth('newbyteorder', libcall('np.dtype', dt), '<')), shp) == RESHAPED(x, shp)), x='U', dt='U', shp='U')")
ufunc("LE_FLAG", ["U"], "bool")
ufunc("RESHAPED", ["U", "U"], "U")

contract(MCO, "CompressedFile.__init__", props=["C01"], params={"compression_type": "U"},
    modifies=["CompressedFile.compression_type@self"],
    ensures=["self.compression_type == compression_type", "compression_type != 'ZIP'"],
    raises={"NotImplementedError": ["compression_type == 'ZIP'"]})

contract(MWF, "ShardWriterFlatBuffer.close", props=["C06", "C01", "C10"], params={},
    requires=["dstate(self._shard_file) == 0",                        # a fresh file name, nothing written under it yet
              "implies(len(self._examples) >= 1, self._builder is not None and truthy(self._builder))",
              "CODEC_KNOWN(self.dataset_structure.compression)"],
    modifies=["ShardWriterFlatBuffer._builder@self", "CompressedFile.compression_type", "FileObj.path", "FileObj.writing",
              "FileObj.content", "FileObj.pos", "ghost:fs"],
    # C06: the shard file exists, complete, iff there is at least one example; nothing else is touched
    fs_effects=[("self._shard_file", None, "len(self._examples) >= 1")],
    ensures=[
        ("C06", "implies(len(self._examples) >= 1, dstate(self._shard_file) == 2)"),
        ("C06", "implies(len(self._examples) == 0, dstate(self._shard_file) == 0)"),
    ],
    at_call={"compress": [("C01", "True")]},
    raises={},
    loops={1: Loop(inv=["self._builder is not None", "len(self._examples) >= 1", "dstate(self._shard_file) == 0",
                        "forall(lambda p: dstate(p) == loop_entry(dstate(p)) and disk_read(p) == loop_entry(disk_read(p)), p='U')"],
                   frame={"ShardWriterFlatBuffer._builder": [], "ShardWriterFlatBuffer._examples": [], "ShardWriterBase._shard_file": [],
                          "ShardWriterBase.dataset_structure": [], "DatasetStructure.compression": []})})
