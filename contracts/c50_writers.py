# Shard writers and codecs: C18 (a rejected write leaves no trace), C01 (what is
# stored is what the reader decodes), C06 (a shard file is complete when close returns)
MWB = "sedpack/io/shard/shard_writer_base.py"
MWF = "sedpack/io/shard/shard_writer_flatbuffer.py"
MCO = "sedpack/io/compress.py"
assumption("A-NP", "numpy array algebra used by the FlatBuffers path: np.copy / flatten keep the C-order element sequence, np.can_cast(safe) => value preserving np.array(x, dtype), byteswap changes byte order not values, tobytes('C'), frombuffer / reshape C order; dtype.byteorder is one of = < > | and sys.byteorder one of little / big; audited by the C01 bit-pattern harness (bounded)")
assumption("A-FB", "flatbuffers.Builder and the generated accessors do not raise on the calls made and round-trip byte vectors; vectors of offsets keep order (audited by the C01 harness)")
assumption("A-CODEC", "for each codec decompress(compress(x)) = x (gzip, bz2, lzma, lz4.frame, zstandard); audited (bounded)")
ufunc("SHAPEOF", ["U"], "U")
ufunc("HASVAR", ["U"], "bool")

# ---- abstract _write (each concrete _write below is proved against the same statement
#      with nrec read as its own representation) --------------------------------------------
contract(MWB, "ShardWriterBase._write", cls="ShardWriterBase", sig=["self", "values"], params={"values": "dict:U"},
    props=["C18", "C10", "C04"], assumed=True, verify=False,
    requires=["not self.closed"], modifies=["Writer.nrec@self"],
    ensures=["self.nrec == old(self.nrec) + 1"],
    raises={"Exception": ["self.nrec == old(self.nrec)"]},
    note="abstract method; the three implementations are under contract below / in c51")

macro("DESC", ["w"], "w.dataset_structure.saved_data_description")
macro("ATTR_K", ["w", "k"], "iseq(DESC(w), k)")
# the shape check of the base class for attribute k of the description
macro("SHAPE_OK", ["w", "values", "k"],
      "truthy(libmeth('has_variable_size', ATTR_K(w, k))) or"
      " attr('shape', libcall('np.array', values[attr('name', ATTR_K(w, k))])) == attr('shape', ATTR_K(w, k))")

contract(MWB, "ShardWriterBase.write", props=["C18", "C10", "C04"],
    params={"values": "dict:U"},
    requires=["not self.closed"], modifies=["Writer.nrec@self"],
    ensures=[
        ("C04", "self.nrec == old(self.nrec) + 1"),
        # C18: every fixed-size attribute matched its declared shape BEFORE anything was stored
        ("C18", "forall(lambda k: implies(0 <= k and k < ilen(DESC(self)), SHAPE_OK(self, values, k)))"),
    ],
    # C18: a rejected write (wrong shape, missing attribute, or refused by the format) stores nothing
    raises={"Exception": [("C18", "self.nrec == old(self.nrec)")]},
    loops={1: Loop(inv=[
        "0 <= _k and _k <= ilen(DESC(self))",
        "self.nrec == loop_entry(self.nrec)",
        ("C18", "forall(lambda k: implies(0 <= k and k < _k, SHAPE_OK(self, values, k)))"),
    ])})

# ---- codecs: both tables pair every compression name with inverse functions (C01) ----
macro("CODEC_C", ["k", "data"],
      "ite_u(k == '', data,"
      " ite_u(k == 'GZIP' or k == 'ZLIB', libcall('gzip.compress', data, compresslevel=9),"
      " ite_u(k == 'BZ2', libcall('bz2.compress', data, compresslevel=9),"
      " ite_u(k == 'LZMA', libcall('lzma.compress', data),"
      " ite_u(k == 'LZ4', libcall('lz4.frame.compress', data),"
      " libcall('zstandard.compress', data))))))")
macro("CODEC_D", ["k", "data"],
      "ite_u(k == '', data,"
      " ite_u(k == 'GZIP' or k == 'ZLIB', libcall('gzip.decompress', data),"
      " ite_u(k == 'BZ2', libcall('bz2.decompress', data),"
      " ite_u(k == 'LZMA', libcall('lzma.decompress', data),"
      " ite_u(k == 'LZ4', libcall('lz4.frame.decompress', data),"
      " libcall('zstandard.decompress', data))))))")
macro("CODEC_KNOWN", ["k"], "k == '' or k == 'GZIP' or k == 'ZLIB' or k == 'BZ2' or k == 'LZMA' or k == 'LZ4' or k == 'ZSTD'")
contract(MCO, "CompressedFile.compress", props=["C01"], params={"data": "U"}, returns="U", modifies=[],
    ensures=[("C01", "CODEC_KNOWN(self.compression_type) and result == CODEC_C(self.compression_type, data)")],
    raises={"NotImplementedError": ["not CODEC_KNOWN(self.compression_type)"]})
contract(MCO, "CompressedFile.decompress", props=["C01", "C07"], params={"data": "U"}, returns="U", modifies=[],
    ensures=[("C01", "CODEC_KNOWN(self.compression_type) and result == CODEC_D(self.compression_type, data)")],
    raises={"NotImplementedError": ["not CODEC_KNOWN(self.compression_type)"]})

# ---- FlatBuffers writer -------------------------------------------------------------------
contract(MWF, "ShardWriterFlatBuffer.save_numpy_vector_as_bytearray", props=["C01", "C18"],
    params={"builder": "U", "attribute": "U", "value": "U"}, returns="U", modifies=[],
    requires=[
        # A-NP: byte-order flags numpy / the interpreter can report
        "forall(lambda x: attr('byteorder', attr('dtype', x)) == '=' or attr('byteorder', attr('dtype', x)) == '<' or attr('byteorder', attr('dtype', x)) == '>' or attr('byteorder', attr('dtype', x)) == '|', x='U')",
        "sys_byteorder() == 'little' or sys_byteorder() == 'big'",
    ],
    ensures=[
        # C18: only a value that can be cast safely to the declared dtype is stored
        ("C18", "truthy(libcall('np.can_cast', libmeth('flatten', libcall('np.copy', value)), casting='safe', to=attr('dtype', attribute)))"),
        # C01: the bytes handed to the builder are the little-endian C-order bytes of the cast value
        ("C01", "byte_representation == libmeth('tobytes', LE_OF(CAST_OF(value, attribute)), order='C')"),
    ],
    raises={"ValueError": [("C18", "True")]})
macro("CAST_OF", ["value", "attribute"], "libcall('np.array', libmeth('flatten', libcall('np.copy', value)), dtype=attr('dtype', attribute))")
# little-endian presentation of an array: unchanged if already little endian (or single byte), byte-swapped otherwise
macro("LE_OF", ["x"],
      "ite_u(attr('byteorder', attr('dtype', x)) == '>' or (attr('byteorder', attr('dtype', x)) == '=' and sys_byteorder() == 'big'),"
      "      libmeth('byteswap', x, inplace=False), x)")
