# Opening / creating a dataset: DatasetBase.__init__, _load (C20 version gate),
# Dataset.__init__, Dataset.create (C08: creating over an existing dataset is refused without effects)
ufunc("SEMCMP", ["U", "U"], "int")
ufunc("PARSE_DatasetInfo", ["U"], "int")
assumption("A-SEMVER", "semver.Version.parse(a).compare(b) is the sign of the semver-2.0 precedence order (audited against the semver spec examples, bounded)")
macro("CURVER", [], "curver()")
MD = "sedpack/io/dataset.py"

contract(MB, "DatasetBase.__init__", props=["C20", "C08", "C17"],
    params={"path": "U", "dataset_info": "ref:DatasetInfo"},
    modifies=["DatasetBase.path@self", "DatasetBase._dataset_info@self"],
    ensures=["self.path == path", "self._dataset_info is dataset_info"],
    note="expanduser/resolve are lexical identities under A-SYMLINK")

contract(MB, "DatasetBase._load", props=["C20"], params={"path": "U"}, returns="ref:DatasetInfo",
    modifies=[], fs_root="path",
    ensures=[
        # C20: loads iff the recording version is not newer than the running library
        ("C20", "SEMCMP(result.metadata.sedpack_version, curver()) <= 0"),
        ("C20", "fresh(result)"),
        # the description returned is the document on disk (every field)
        ("C20", "result.metadata is di_ref(PARSE_DatasetInfo(disk_read(PJOIN(path, 'dataset_info.json')))).metadata"
                " and result.dataset_structure is di_ref(PARSE_DatasetInfo(disk_read(PJOIN(path, 'dataset_info.json')))).dataset_structure"),
    ],
    raises={"ValueError": [("C20", "True")], "FileNotFoundError": ["dstate(PJOIN(path, 'dataset_info.json')) != 2"]})

contract(MD, "Dataset.__init__", props=["C20", "C08"],
    params={"path": "U", "create_dataset": "bool"},
    modifies=["DatasetBase.path@self", "DatasetBase._dataset_info@self"],
    ensures=[
        "self.path == path and fresh(self._dataset_info)",
        # a dataset being created starts from an empty description (no splits)
        ("C08", "implies(create_dataset, forall(lambda s: not (s in self._dataset_info.splits), s='U'))"),
        ("C20", "implies(not create_dataset, SEMCMP(self._dataset_info.metadata.sedpack_version, curver()) <= 0)"),
    ],
    raises={"ValueError": ["not create_dataset"], "FileNotFoundError": ["not create_dataset"]})

contract(MD, "Dataset.create", props=["C08", "C20", "C06"],
    params={"path": "U", "metadata": "ref:Metadata", "dataset_structure": "ref:DatasetStructure"},
    # base case of the session induction: whatever list documents already lie under the
    # directory are valid (vacuous for a new directory); kept by creation
    requires=["DISK_OK(path)",
              # (ghost) the certified part of the tree under this directory is exact - vacuous for a new directory,
              # where nothing is certified; galgs() names the digest algorithms the invariant is stated for
              "GINV(path)", "dataset_structure.hash_checksum_algorithms == galgs()"],
    returns="ref:Dataset", modifies=["DatasetBase.path", "DatasetBase._dataset_info", "DatasetInfo.metadata",
                                     "DatasetInfo.dataset_structure", "DatasetInfo.splits", "ghost:fs", "ghost:cert"],
    ensures=[
        "fresh(result) and result.path == path",
        ("C08", "old(dstate(PJOIN(path, 'dataset_info.json'))) != 2"),     # only where no dataset exists
        ("C20", "result._dataset_info.metadata is metadata and result._dataset_info.dataset_structure is dataset_structure"),
        (["C04", "C20"], "reveal R_DISK: DISK_OK(path) and dstate(PJOIN(path, 'dataset_info.json')) == 2"),
        ("C04", "reveal R_GINV: GINV(path)"), ("C04", "DS_WF(result)"),
    ],
    raises={
        # C08: refused when a dataset already exists, and then NOTHING on disk was touched
        "DatasetExistsError": [("C08", "old(dstate(PJOIN(path, 'dataset_info.json'))) == 2"),
                               ("C08", "fxn() == old(fxn())"),
                               ("C08", "forall(lambda p: dstate(p) == old(dstate(p)) and disk_read(p) == old(disk_read(p)), p='U')")],
        "ValueError": ["False"]})
