# Record / object classes of sedpack as far as the encoding needs them: field
# name -> shape (sorts only).  Constructor field order and defaults of record
# classes (_order/_defaults) mirror the class bodies; tools/check_classes.py
# compares them with the real source on every run (A-PYD).

# a Python dict object passed around by reference: identity + (immutable) value
cls("DictObj", truthy="value", value="U")

cls("FileInfo", file_path="U", hash_checksums="list:U",
    _order=["file_path", "hash_checksums"], _defaults={"hash_checksums": "EMPTY_LIST_U()"},
    _validate={"file_path": "no_directory_traversal"})
cls("ShardInfo", file_infos="list:ref:FileInfo", number_of_examples="int",
    custom_metadata="ref:DictObj",
    _order=["file_infos", "number_of_examples", "custom_metadata"],
    _defaults={"number_of_examples": "0", "custom_metadata": "NEW_EMPTY_DICT()"})
cls("ShardListInfo", shard_list_info_file="ref:FileInfo", number_of_examples="int",
    number_of_shards="int",
    _order=["shard_list_info_file", "number_of_examples", "number_of_shards"],
    _defaults={"number_of_examples": "0", "number_of_shards": "0"},
    _validate={"shard_list_info_file": "check_is_shards_list"})
cls("ShardsList", relative_path_self="U", number_of_examples="int",
    shard_files="list:ref:ShardInfo", children_shard_lists="list:ref:ShardListInfo",
    _order=["relative_path_self", "number_of_examples", "shard_files", "children_shard_lists"],
    _defaults={"number_of_examples": "0", "shard_files": "EMPTY_LIST_REF('ShardInfo')", "children_shard_lists": "EMPTY_LIST_REF('ShardListInfo')"},
    _validate={"relative_path_self": "check_is_shards_list"})

cls("DatasetStructure", saved_data_description="U", compression="U",
    examples_per_shard="int", shard_file_type="U", hash_checksum_algorithms="list:U")

# abstract shard writer: nrec = number of records handed to the underlying
# library writer and accepted (ghost view of _examples / _buffer / tf writer)
cls("Writer", nrec="int", closed="bool", path="U")
cls("Shard", shard_info="ref:ShardInfo", dataset_structure="ref:DatasetStructure",
    _dataset_path="U", _shard_writer="optref:ShardWriterBase")
cls("ShardProgress", shard="ref:Shard", written_examples="int",
    _order=["shard", "written_examples"], _defaults={"written_examples": "0"})
cls("_DatasetFillerContext", _dataset_root_path="U", _dataset_structure="ref:DatasetStructure",
    _relative_path_from_split="U", _write_updates="bool", _examples_per_shard="int",
    _current_shards_progress="dict:ref:ShardProgress", _shards_lists="dict:ref:ShardsList")

cls("Metadata", description="U", dataset_license="U", dataset_version="U", download_from="U",
    custom_metadata="ref:DictObj", sedpack_version="U")
cls("DatasetInfo", metadata="ref:Metadata", dataset_structure="ref:DatasetStructure",
    splits="dict:ref:ShardListInfo",
    _order=["metadata", "dataset_structure", "splits"],
    _defaults={"metadata": "NEW_OBJ('Metadata')", "dataset_structure": "NEW_OBJ('DatasetStructure')", "splits": "EMPTY_DICT_REF('ShardListInfo')"})
cls("DatasetBase", path="U", _dataset_info="ref:DatasetInfo")
cls("DatasetIteration", base="DatasetBase")
cls("DatasetWriting", base="DatasetBase")
cls("Dataset", base=["DatasetIteration", "DatasetWriting"])

# shard readers: value-like objects, behaviour fixed by class + these two fields
cls("IterateShardBase", dataset_structure="ref:DatasetStructure", process_record="optfunc",
    _methv=["dataset_structure", "process_record"])
cls("IterateShardNP", base="IterateShardBase", _kind="npz")
cls("IterateShardFlatBuffer", base="IterateShardBase", _kind="fb")
cls("IterateShardTFRec", base="IterateShardBase", from_tfrecord="optfunc", num_parallel_calls="int", _kind="tfrec")

cls("RustIter", can_iterate="bool", nenter="int", nexit="int")
cls("RustGenerator", _rust_iter="optref:RustIter", _dataset="ref:DatasetIteration", _split="U",
    _process_record="optfunc", _shards="opt:int", _shard_filter="optfunc", _repeat="bool",
    _file_parallelism="int", _shuffle="int", _to_dict="func")

# file / hash objects of the IO model
cls("FileObj", path="U", content="U", pos="int", writing="bool")
cls("MemView", size="int", src="U", off="int", n="int")
cls("HashObj", alg="U", fed_len="int", fed_src="U", fed_good="bool")

cls("DatasetFiller", _dataset_filler_context="ref:_DatasetFillerContext", _auto_update_dataset="bool",
    _dataset="ref:DatasetWriting", _updated_infos="list:ref:ShardListInfo")

# concrete shard writers (Writer = abstract view used by Shard; nrec is a ghost
# = number of examples accepted: len(_examples) / common length of _buffer's
# lists / records handed to the TFRecordWriter)
cls("ShardWriterBase", base="Writer", dataset_structure="ref:DatasetStructure", _shard_file="U")
cls("ShardWriterFlatBuffer", base="ShardWriterBase", _examples="list:U", _builder="optU")
cls("ShardWriterTFRec", base="ShardWriterBase", _tf_shard_writer="optref:TFWriter")
cls("TFWriter", nwritten="int", tfclosed="bool", tfpath="U")
cls("CompressedFile", compression_type="U")
cls("ShardWriterNP", base="ShardWriterBase", _buffer="dict:list:U")
