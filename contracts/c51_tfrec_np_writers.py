# TFRecord and npz writers (C18: rejected writes store nothing; accepted writes are decodable)
MTF = "sedpack/io/tfrec/tfdata.py"
MWT = "sedpack/io/shard/shard_writer_tfrec.py"
for _fn in ("bytes_feature", "float_feature", "int64_feature"):
    contract(MTF, _fn, props=["C18", "C01"], params={"value": "U"}, returns="U", modifies=[],
             assumed=True, verify=False, raises={"Exception": ["True"]},
             note="thin wrappers around tf.train.Feature; may raise on values TensorFlow cannot convert (before anything is written)")

macro("TF_ATTR", ["desc", "k"], "iseq(desc, k)")
macro("TF_INT_DTYPE", ["a"], "attr('dtype', a) == 'int8' or attr('dtype', a) == 'uint8' or attr('dtype', a) == 'int32' or attr('dtype', a) == 'int64'")
macro("TF_KIND_OK", ["v"], "attr('kind', attr('dtype', v)) == 'i' or attr('kind', attr('dtype', v)) == 'u' or attr('kind', attr('dtype', v)) == 'b'")
# what get_from_tfrecord can parse back: every declared attribute present, declared shape (non-bytes),
# integer attributes hold integer values (F9), only dtypes the reader supports
macro("TF_DECODABLE_K", ["desc", "values", "k"],
      "attr('name', TF_ATTR(desc, k)) in values"
      " and (attr('dtype', TF_ATTR(desc, k)) == 'bytes' or attr('shape', libcall('np.array', values[attr('name', TF_ATTR(desc, k))])) == attr('shape', TF_ATTR(desc, k)))"
      " and implies(TF_INT_DTYPE(TF_ATTR(desc, k)), TF_KIND_OK(libcall('np.array', values[attr('name', TF_ATTR(desc, k))])))"
      " and (TF_INT_DTYPE(TF_ATTR(desc, k)) or attr('dtype', TF_ATTR(desc, k)) == 'float16' or attr('dtype', TF_ATTR(desc, k)) == 'float32'"
      "      or attr('dtype', TF_ATTR(desc, k)) == 'str' or attr('dtype', TF_ATTR(desc, k)) == 'bytes')")

contract(MTF, "to_tfrecord", props=["C18", "C01"],
    params={"saved_data_description": "U", "values": "dict:U"}, returns="U", modifies=[],
    locals_={"feature": "dict:U"},
    ensures=[
        # C18: an accepted example is decodable by the matching reader
        ("C18", "forall(lambda k: implies(0 <= k and k < ilen(saved_data_description), TF_DECODABLE_K(saved_data_description, values, k)))"),
        # no undeclared attribute slipped in
        ("C18", "forall(lambda n: implies(n in values, exists(lambda k: 0 <= k and k < ilen(saved_data_description) and attr('name', TF_ATTR(saved_data_description, k)) == n)), n='U')"),
    ],
    raises={"Exception": ["True"]},
    loops={
        1: Loop(inv=["0 <= _k",
                     "forall(lambda j: implies(0 <= j and j < _k, exists(lambda k: 0 <= k and k < ilen(saved_data_description) and attr('name', TF_ATTR(saved_data_description, k)) == dictkey(values, j))))"]),
        2: Loop(inv=["0 <= _k and _k <= ilen(saved_data_description)",
                     ("C18", "forall(lambda k: implies(0 <= k and k < _k, TF_DECODABLE_K(saved_data_description, values, k)))"),
                     "forall(lambda n: implies(n in values, exists(lambda k: 0 <= k and k < ilen(saved_data_description) and attr('name', TF_ATTR(saved_data_description, k)) == n)), n='U')"]),
    })
