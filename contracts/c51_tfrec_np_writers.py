# TFRecord and npz writers (C18: rejected writes store nothing; accepted writes are decodable)
MTF = "sedpack/io/tfrec/tfdata.py"
MWT = "sedpack/io/shard/shard_writer_tfrec.py"
for _fn in ("bytes_feature", "float_feature", "int64_feature"):
    contract(MTF, _fn, props=["C18", "C01"], params={"value": "U"}, returns="U", modifies=[],
             assumed=True, verify=False, raises={"Exception": ["True"]},
             note="thin wrappers around tf.train.Feature; may raise on values TensorFlow cannot convert (before anything is written)")

macro("TF_ATTR", ["desc", "k"], "iseq(desc, k)")
macro("TF_INT_DTYPE", ["a"], "attr('dtype', a) == 'int8' or attr('dtype', a) == 'uint8' or attr('dtype', a) == 'int32' or attr('dtype', a) == 'int64'")
macro("TF_KIND_OK", ["v"], "attr('kind', attr('dtype', v)) == 'i' or attr('kind', attr('dtype', v)) == 'u' or attr('kind', attr('dtype', v)) == 'b'")
# what get_from_tfrecord can parse back: every declared attribute present, declared shape (non-bytes),
# integer attributes hold integer values (F9), only dtypes the reader supports
macro("TF_DECODABLE_K", ["desc", "values", "k"],
      "attr('name', TF_ATTR(desc, k)) in values"
      " and (attr('dtype', TF_ATTR(desc, k)) == 'bytes' or attr('shape', libcall('np.array', values[attr('name', TF_ATTR(desc, k))])) == attr('shape', TF_ATTR(desc, k)))"
      " and implies(TF_INT_DTYPE(TF_ATTR(desc, k)), TF_KIND_OK(libcall('np.array', values[attr('name', TF_ATTR(desc, k))])))"
      " and (TF_INT_DTYPE(TF_ATTR(desc, k)) or attr('dtype', TF_ATTR(desc, k)) == 'float16' or attr('dtype', TF_ATTR(desc, k)) == 'float32'"
      "      or attr('dtype', TF_ATTR(desc, k)) == 'str' or attr('dtype', TF_ATTR(desc, k)) == 'bytes')")

contract(MTF, "to_tfrecord", props=["C18", "C01"],
    params={"saved_data_description": "U", "values": "dict:U"}, returns="U", modifies=[],
    locals_={"feature": "dict:U"},
    ensures=[
        # C18: an accepted example is decodable by the matching reader
        ("C18", "forall(lambda k: implies(0 <= k and k < ilen(saved_data_description), TF_DECODABLE_K(saved_data_description, values, k)))"),
        # no undeclared attribute slipped in
        ("C18", "forall(lambda n: implies(n in values, exists(lambda k: 0 <= k and k < ilen(saved_data_description) and attr('name', TF_ATTR(saved_data_description, k)) == n)), n='U')"),
    ],
    raises={"Exception": ["True"]},
    loops={
        1: Loop(inv=["0 <= _k",
                     "forall(lambda j: implies(0 <= j and j < _k, exists(lambda k: 0 <= k and k < ilen(saved_data_description) and attr('name', TF_ATTR(saved_data_description, k)) == dictkey(values, j))))"]),
        2: Loop(inv=["0 <= _k and _k <= ilen(saved_data_description)",
                     ("C18", "forall(lambda k: implies(0 <= k and k < _k, TF_DECODABLE_K(saved_data_description, values, k)))"),
                     "forall(lambda n: implies(n in values, exists(lambda k: 0 <= k and k < ilen(saved_data_description) and attr('name', TF_ATTR(saved_data_description, k)) == n)), n='U')"]),
    })

contract("tensorflow", "TFWriter.write", cls="TFWriter", sig=["self", "record"], params={"record": "U"},
    assumed=True, verify=False, props=["C18", "C04"],
    requires=["not self.tfclosed"], modifies=["TFWriter.nwritten@self"],
    ensures=["self.nwritten == old(self.nwritten) + 1"],
    note="A-TF: TFRecordWriter.write appends one record")
contract("tensorflow", "TFWriter.close", cls="TFWriter", sig=["self"], assumed=True, verify=False,
    props=["C06"], requires=["not self.tfclosed"], modifies=["TFWriter.tfclosed@self", "ghost:fs"],
    fs_effects=[("self.tfpath", None)], ensures=["self.tfclosed"],
    note="A-TF / A-FS: the record file is complete when close() returns")

contract(MWT, "ShardWriterTFRec.supported_compressions", props=["C18"], params={}, returns="list:U", modifies=[],
    ensures=["len(result) == 3 and result[0] == 'GZIP' and result[1] == 'ZLIB' and result[2] == ''"])

# nrec of the abstract writer = records handed to the TFRecordWriter
macro("TF_NREC", ["w"], "ite(w._tf_shard_writer is None, 0, w._tf_shard_writer.nwritten)")
contract(MWT, "ShardWriterTFRec._write", props=["C18", "C04"],
    params={"values": "dict:U"},
    requires=["implies(self._tf_shard_writer is not None, not self._tf_shard_writer.tfclosed)"],
    modifies=["ShardWriterTFRec._tf_shard_writer@self", "TFWriter.nwritten", "TFWriter.tfclosed", "TFWriter.tfpath"],
    ensures=[
        ("C04", "TF_NREC(self) == old(TF_NREC(self)) + 1"),
        # C18: what was handed to the record writer is decodable
        ("C18", "forall(lambda k: implies(0 <= k and k < ilen(DESC(self)), TF_DECODABLE_K(DESC(self), values, k)))"),
    ],
    # C18: a rejected example is never handed to the record writer
    raises={"Exception": [("C18", "TF_NREC(self) == old(TF_NREC(self))")]})

contract(MWT, "ShardWriterTFRec.close", props=["C06", "C10"], params={},
    requires=["implies(self._tf_shard_writer is not None, not self._tf_shard_writer.tfclosed)"],
    modifies=["ShardWriterTFRec._tf_shard_writer@self", "TFWriter.tfclosed", "ghost:fs"],
    ensures=[("C06", "self._tf_shard_writer is None"),
             ("C06", "dstate(old(self._tf_shard_writer).tfpath) == 2")],
    raises={"ValueError": [("C10", "old(self._tf_shard_writer) is None")]})

# ---- npz writer --------------------------------------------------------------------------
MWN = "sedpack/io/shard/shard_writer_np.py"
macro("INDESC", ["w", "n"], "exists(lambda k: 0 <= k and k < ilen(DESC(w)) and attr('name', iseq(DESC(w), k)) == n)")
macro("BUFLEN", ["w", "n"], "ite(n in w._buffer, len(w._buffer[n]), 0)")
# representation invariant of the buffer: when non-empty it has exactly the declared attribute names,
# and all per-attribute lists have the same length (= nrec, the number of buffered examples)
macro("NP_INV", ["w"],
      "forall(lambda n: implies(n in w._buffer, INDESC(w, n)), n='U')"
      " and forall(lambda n, m: implies(n in w._buffer and INDESC(w, m), m in w._buffer and len(w._buffer[m]) == len(w._buffer[n]) and len(w._buffer[n]) >= 1), n='U', m='U')")
contract(MWN, "ShardWriterNP._write", props=["C18", "C04", "C01"],
    params={"values": "dict:U"},
    requires=["NP_INV(self)"],
    modifies=["ShardWriterNP._buffer@self"],
    ensures=[
        "NP_INV(self)",
        # C18/C04: every declared attribute got exactly one more value (all lists stay equally long) ...
        (["C04", "C18"], "forall(lambda n: implies(INDESC(self, n), n in self._buffer and len(self._buffer[n]) == old(BUFLEN(self, n)) + 1), n='U')"),
        # ... the accepted example had exactly the declared attribute names and no object-dtype value (loadable without pickle)
        ("C18", "forall(lambda n: (n in values) == INDESC(self, n), n='U')"),
        ("C18", "forall(lambda n: implies(n in values, attr('dtype', libcall('np.copy', values[n])) != OBJECT_T()), n='U')"),
        # C01: what is buffered last is an independent copy of the value passed
        ("C01", "forall(lambda n: implies(INDESC(self, n), self._buffer[n][len(self._buffer[n]) - 1] == libcall('np.copy', values[n])), n='U')"),
    ],
    # C18: a rejected example leaves the buffer exactly as it was
    raises={"Exception": [("C18", "forall(lambda n: (n in self._buffer) == old(n in self._buffer) and BUFLEN(self, n) == old(BUFLEN(self, n)), n='U')")]},
    loops={
        1: Loop(inv=["0 <= _k",
                     ("C18", "forall(lambda j: implies(0 <= j and j < _k, attr('dtype', copies[dictkey(copies, j)]) != OBJECT_T()))"),
                     "forall(lambda n: (n in self._buffer) == loop_entry(n in self._buffer) and BUFLEN(self, n) == loop_entry(BUFLEN(self, n)), n='U')"],
                frame={"ShardWriterNP._buffer": []}),
        2: Loop(inv=["0 <= _k",
                     "forall(lambda n: (n in self._buffer) == loop_entry(n in self._buffer), n='U')",
                     # keys already visited have one more value, the others are untouched
                     ("C18", "forall(lambda n: implies(n in copies, len(self._buffer[n]) == loop_entry(len(self._buffer[n])) + ite(dictidx(copies, n) < _k, 1, 0)), n='U')"),
                     ("C01", "forall(lambda n: implies(n in copies and dictidx(copies, n) < _k, self._buffer[n][len(self._buffer[n]) - 1] == copies[n]), n='U')"),
                     ],
                frame={"ShardWriterNP._buffer": ["self"]}),
    })

contract(MWN, "ShardWriterNP.supported_compressions", props=["C18"], params={}, returns="list:U", modifies=[],
    ensures=["len(result) == 2 and result[0] == 'ZIP' and result[1] == ''"])
contract(MWN, "ShardWriterNP.close", props=["C06", "C10"], params={},
    requires=["dstate(self._shard_file) == 0",
              "self.dataset_structure.compression == 'ZIP' or self.dataset_structure.compression == ''"],
    modifies=["ShardWriterNP._buffer@self", "ghost:fs"],
    # C06: the archive exists, complete, iff at least one example was buffered; nothing else is touched
    fs_effects=[("self._shard_file", None, "exists(lambda n: n in self._buffer, n='U')")],
    ensures=[("C06", "implies(old(exists(lambda n: n in self._buffer, n='U')), dstate(self._shard_file) == 2)"),
             "forall(lambda n: not (n in self._buffer), n='U')"],
    raises={})
