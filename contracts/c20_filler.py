# Contracts for src/sedpack/io/dataset_filler.py and shard/shard.py
# C10 shard size, C11 metadata ownership, C18 all-or-nothing (filler level), C04 counts
MF = "sedpack/io/dataset_filler.py"
MS_ = "sedpack/io/shard/shard.py"
CTX = "_DatasetFillerContext"

# ---- per-split object invariant of the filler context ---------------------
macro("fprog", ["c", "s"], "c._current_shards_progress[s]")
macro("FINV1", ["c", "s"],
      "fprog(c, s).written_examples >= 0"
      " and fprog(c, s).written_examples == fprog(c, s).shard.shard_info.number_of_examples"
      " and fprog(c, s).written_examples <= c._examples_per_shard"
      " and fprog(c, s).shard._shard_writer is not None"
      " and fprog(c, s).shard._shard_writer.nrec == fprog(c, s).written_examples"
      " and not fprog(c, s).shard._shard_writer.closed"
      " and SHARD_OK(fprog(c, s).shard) and fprog(c, s).shard._dataset_path == c._dataset_root_path"
      " and not isdisk(fprog(c, s).shard.shard_info)"
      " and SHARD_IN(fprog(c, s).shard, s, c._relative_path_from_split) and PLAIN(s)"
      " and NOT_ON_DISK(c._dataset_root_path, fprog(c, s).shard.shard_info)"
      # an open shard is not listed anywhere yet (its count still changes)
      " and forall(lambda t, i: implies(t in c._shards_lists and 0 <= i and i < len(c._shards_lists[t].shard_files),"
      "       c._shards_lists[t].shard_files[i] is not fprog(c, s).shard.shard_info), t='U')"
      # an empty open shard carries no label (so a label change never closes an empty shard)
      " and implies(fprog(c, s).written_examples == 0, not truthy(fprog(c, s).shard.shard_info.custom_metadata))")
macro("FINV", ["c"],
      "c._examples_per_shard >= 1 and SAFE(c._relative_path_from_split) and CTX_LISTS_OK(c) and DISK_OK(c._dataset_root_path)"
      " and forall(lambda s: implies(s in c._current_shards_progress, FINV1(c, s)), s='U')"
      # distinct splits use distinct progress / shard / info / writer objects
      " and forall(lambda s, t: implies(s in c._current_shards_progress and t in c._current_shards_progress and s != t,"
      "   fprog(c, s) is not fprog(c, t) and fprog(c, s).shard is not fprog(c, t).shard"
      "   and fprog(c, s).shard.shard_info is not fprog(c, t).shard.shard_info"
      "   and fprog(c, s).shard._shard_writer is not fprog(c, t).shard._shard_writer), s='U', t='U')")

# FINV(c) as separate clauses (same conjunction; one verification condition per
# clause keeps every solver query small and its verdict stable under load)
def FINV1_PARTS():
    """the conjuncts of FINV1(C_, s) (C_ = the context expression)"""
    return [
        "fprog(C_, s).written_examples >= 0 and fprog(C_, s).written_examples == fprog(C_, s).shard.shard_info.number_of_examples"
        " and fprog(C_, s).written_examples <= C_._examples_per_shard",
        "fprog(C_, s).shard._shard_writer is not None and fprog(C_, s).shard._shard_writer.nrec == fprog(C_, s).written_examples"
        " and not fprog(C_, s).shard._shard_writer.closed",
        "SHARD_OK(fprog(C_, s).shard) and fprog(C_, s).shard._dataset_path == C_._dataset_root_path and not isdisk(fprog(C_, s).shard.shard_info)"
        " and SHARD_IN(fprog(C_, s).shard, s, C_._relative_path_from_split) and PLAIN(s)",
        "NOT_ON_DISK(C_._dataset_root_path, fprog(C_, s).shard.shard_info)",
        "forall(lambda t, i: implies(t in C_._shards_lists and 0 <= i and i < len(C_._shards_lists[t].shard_files),"
        " C_._shards_lists[t].shard_files[i] is not fprog(C_, s).shard.shard_info), t='U')",
        "implies(fprog(C_, s).written_examples == 0, not truthy(fprog(C_, s).shard.shard_info.custom_metadata))",
    ]


def FINV_PARTS(c):
    P = lambda body: "forall(lambda s: implies(s in %s._current_shards_progress, %s), s='U')" % (c, body.replace("C_", c))
    return [
        "%s._examples_per_shard >= 1 and SAFE(%s._relative_path_from_split)" % (c, c),
        "CTX_LISTS_OK(%s)" % c,
        "DISK_OK(%s._dataset_root_path)" % c,
        P("fprog(C_, s).written_examples >= 0 and fprog(C_, s).written_examples == fprog(C_, s).shard.shard_info.number_of_examples"
          " and fprog(C_, s).written_examples <= C_._examples_per_shard"),
        P("fprog(C_, s).shard._shard_writer is not None and fprog(C_, s).shard._shard_writer.nrec == fprog(C_, s).written_examples"
          " and not fprog(C_, s).shard._shard_writer.closed"),
        P("SHARD_OK(fprog(C_, s).shard) and fprog(C_, s).shard._dataset_path == C_._dataset_root_path and not isdisk(fprog(C_, s).shard.shard_info)"),
        P("NOT_ON_DISK(C_._dataset_root_path, fprog(C_, s).shard.shard_info)"),
        P("forall(lambda t, i: implies(t in C_._shards_lists and 0 <= i and i < len(C_._shards_lists[t].shard_files),"
          " C_._shards_lists[t].shard_files[i] is not fprog(C_, s).shard.shard_info), t='U')"),
        P("implies(fprog(C_, s).written_examples == 0, not truthy(fprog(C_, s).shard.shard_info.custom_metadata))"),
        "forall(lambda s, t: implies(s in %s._current_shards_progress and t in %s._current_shards_progress and s != t,"
        "   fprog(%s, s) is not fprog(%s, t) and fprog(%s, s).shard is not fprog(%s, t).shard"
        "   and fprog(%s, s).shard.shard_info is not fprog(%s, t).shard.shard_info"
        "   and fprog(%s, s).shard._shard_writer is not fprog(%s, t).shard._shard_writer), s='U', t='U')" % ((c,) * 10),
    ]

# ---- Shard ------------------------------------------------------------------
contract(MS_, "Shard.write", props=["C10", "C18", "C04"],
    params={"values": "U"},
    requires=["implies(self._shard_writer is not None, not self._shard_writer.closed)"],
    modifies=["ShardInfo.number_of_examples@self.shard_info", "Writer.nrec@self._shard_writer"],
    ensures=[
        "self._shard_writer is not None",
        ("C04", "self.shard_info.number_of_examples == old(self.shard_info.number_of_examples) + 1"),
        ("C04", "self._shard_writer.nrec == old(self._shard_writer.nrec) + 1"),
    ],
    raises={"Exception": [
        # a rejected write changes nothing (C18): count and record store as before
        # (also C10 / C04: the recorded count stays the number of records the writer accepted)
        (["C18", "C10", "C04"], "self.shard_info.number_of_examples == old(self.shard_info.number_of_examples)"),
        (["C18", "C10", "C04"], "implies(self._shard_writer is not None, self._shard_writer.nrec == old(self._shard_writer.nrec))"),
    ]})

contract("sedpack/io/shard/get_shard_writer.py", "get_shard_writer", props=["C10", "C18", "C04"],
    params={"dataset_structure": "ref:DatasetStructure", "shard_file": "U"}, returns="ref:ShardWriterBase",
    modifies=["ghost:fs"], fs_effects=[],      # may create the directory; no file is touched
    ensures=["fresh(result)", "result.path == shard_file", "result.nrec == 0 and not result.closed"],
    verify=False, assumed=True,
    note="dispatch table from shard_file_type to the three writer classes and their constructors (mkdir, "
         "compression check); the writers' _write / close are verified against the abstract Writer view")
contract(MS_, "Shard.__init__", props=["C10", "C18", "C04"],
    params={"shard_info": "ref:ShardInfo", "dataset_structure": "ref:DatasetStructure", "dataset_root_path": "U"},
    requires=["len(shard_info.file_infos) >= 1"],
    modifies=["Shard.shard_info@self", "Shard.dataset_structure@self", "Shard._dataset_path@self", "Shard._shard_writer@self", "ghost:fs"],
    fs_effects=[],
    ensures=["self.shard_info is shard_info and self.dataset_structure is dataset_structure and self._dataset_path == dataset_root_path",
             "self._shard_writer is not None and fresh(self._shard_writer)",
             "self._shard_writer.path == SHARD_PATH(self) and self._shard_writer.nrec == 0 and not self._shard_writer.closed"])

# ---- filler context -----------------------------------------------------------
contract(MF, CTX + "._get_new_shard", props=["C10", "C11", "C18", "C17"],
    params={"split": "U"}, returns="ref:Shard",
    requires=[("C17", "SAFE(split) and SAFE(self._relative_path_from_split)")],
    modifies=["ghost:fs"], fs_effects=[],      # creates the directory only; no file is touched
    ensures=[
        "result >= old_next_ref()",                       # a fresh object
        "result.shard_info >= old_next_ref()",
        "result._shard_writer is not None and result._shard_writer >= old_next_ref()",
        "result.shard_info.custom_metadata >= old_next_ref()",
        "result.shard_info.number_of_examples == 0",
        "result._shard_writer.nrec == 0 and not result._shard_writer.closed",
        "not truthy(result.shard_info.custom_metadata)",
        "SHARD_OK(result) and result._dataset_path == self._dataset_root_path",
        # A-PYD (sharing model of dump / parse): an info object constructed here has not been written to a list
        # document, so it is not (yet) an entry of a parsed document
        "assumed: not isdisk(result.shard_info)",
        "SHARD_IN(result, split, self._relative_path_from_split)",
    ])

_WE_MOD = ["ShardProgress.shard", "ShardProgress.written_examples",
           "ShardInfo.number_of_examples", "ShardInfo.custom_metadata", "Writer.nrec",
           "Shard._shard_writer", "Writer.closed", "FileInfo.hash_checksums",
           "_DatasetFillerContext._current_shards_progress@self",
           "_DatasetFillerContext._shards_lists@self", "ShardsList.shard_files",
           "ShardsList.number_of_examples", "ghost:fs", "ghost:cert"]

contract(MF, CTX + ".write_example", props=["C10", "C11", "C18", "C04"],
    params={"values": "U", "split": "U", "custom_metadata": "optref:DictObj"},
    exit_lemmas=[
        # the progress records of the other splits are the same objects as before
        "forall(lambda s: implies(s != split and s in self._current_shards_progress,"
        "   old(s in self._current_shards_progress) and fprog(self, s) is old(fprog(self, s)) and fprog(self, s).shard is old(fprog(self, s).shard)"
        "   and fprog(self, s).shard.shard_info is old(fprog(self, s).shard.shard_info)), s='U')",
        # their open shards are still in no list document ...
        "forall(lambda s: implies(s != split and s in self._current_shards_progress,"
        "   NOT_ON_DISK(self._dataset_root_path, fprog(self, s).shard.shard_info)), s='U')",
        # ... and neither is the open shard of this split
        "NOT_ON_DISK(self._dataset_root_path, fprog(self, split).shard.shard_info)",
    ],
    requires=["FINV(self)", "SAFE(split)", "PLAIN(split)"],
    modifies=_WE_MOD,
    at_call={"close_shard": [
        # C10: a shard closed by a write is full unless the label changed
        ("C10", "shard.shard_info.number_of_examples == self._examples_per_shard"
                " or (truthy(custom_metadata) and truthy(shard.shard_info.custom_metadata)"
                "     and custom_metadata != shard.shard_info.custom_metadata)"),
        ("C10", "shard.shard_info.number_of_examples <= self._examples_per_shard"),
    ]},
    ensures=FINV_PARTS("self") + [
        "split in self._current_shards_progress",
        ("C10", "fprog(self, split).written_examples >= 1"),
        # C04/C18: exactly one more record in the open shard of `split`
        ("C04", "fprog(self, split).shard._shard_writer.nrec == fprog(self, split).written_examples"),
        # C11 value: the shard holding this example is labelled with the value passed
        ("C11", "implies(truthy(custom_metadata), fprog(self, split).shard.shard_info.custom_metadata == custom_metadata)"),
        # C11 ownership: the stored dict object is not the caller's object: it is
        # either the object stored before this call or one allocated by this call
        ("C11", "implies(truthy(custom_metadata), fprog(self, split).shard.shard_info.custom_metadata is not custom_metadata)"),
        ("C11", "fprog(self, split).shard.shard_info.custom_metadata >= old_next_ref()"
                " or (old(split in self._current_shards_progress)"
                "     and fprog(self, split).shard.shard_info.custom_metadata is old(fprog(self, split).shard.shard_info.custom_metadata))"),
        # C11 label stability: the label of a shard that stays open never changes once set
        ("C11", "implies(old(split in self._current_shards_progress) and fprog(self, split).shard is old(fprog(self, split).shard)"
                "        and truthy(old(fprog(self, split).shard.shard_info.custom_metadata)),"
                "   fprog(self, split).shard.shard_info.custom_metadata == old(fprog(self, split).shard.shard_info.custom_metadata))"),
        # other splits untouched
        ("C10", "forall(lambda t: implies(t != split, (t in self._current_shards_progress) == old(t in self._current_shards_progress)), t='U')"),
        ("C04", "forall(lambda t: implies(t != split, (t in self._shards_lists) == old(t in self._shards_lists)), t='U')"),
        ("C04", "implies(old(split in self._shards_lists), split in self._shards_lists)"),
        # C04: the certified part of the tree stays an exact tree; only this split's directory is touched
        ("C04", "reveal CS_GINV: hide WE_GINV: implies(old(GINV(self._dataset_root_path)), GINV(self._dataset_root_path))"),
        ("C04", "reveal CS_FR: hide WE_FR: OTHER_SPLITS_KEPT(self._dataset_root_path, split)"),
    ],
    raises={"Exception": [
        # C18: a rejected write (the shard of `split` is still open) leaves the context consistent, counts unchanged
    ] + [(["C18", "C10"], "implies(split in self._current_shards_progress and fprog(self, split).shard._shard_writer is not None, %s)" % q)
         for q in FINV_PARTS("self")] + [
        ("C18", "implies(old(split in self._current_shards_progress) and fprog(self, split).shard is old(fprog(self, split).shard)"
                "        and fprog(self, split).shard._shard_writer is not None,"
                "   fprog(self, split).written_examples == old(fprog(self, split).written_examples)"
                "   and fprog(self, split).shard._shard_writer.nrec == old(fprog(self, split).shard._shard_writer.nrec))"),
        # ... and the label of a non-empty shard is not changed by a rejected write
        ("C18", "implies(old(split in self._current_shards_progress) and fprog(self, split).shard is old(fprog(self, split).shard)"
                "        and truthy(old(fprog(self, split).shard.shard_info.custom_metadata)),"
                "   fprog(self, split).shard.shard_info.custom_metadata == old(fprog(self, split).shard.shard_info.custom_metadata))"),
    ]})
