# Python side of the native reader: RustGenerator / as_numpy_iterator_rust.
# The native iterator itself is assumption A-RUST (audited, bounded).
assumption("A-RUST", "the in-repo native reader RustIter(files, repeat=False, threads=T>=1, compression) yields exactly the examples of `files`, file by file in list order, attribute bytes unchanged, or raises (audited by harness; fails for damaged shards: known finding F6)")
ufunc("RUSTS", ["SEQ", "int", "U"], "STREAM")     # what iter(RustIter(files, threads, compression)) yields
ufunc("RITER_STREAM", ["int"], "STREAM")
ufunc("TODICT", ["int"], "U")                     # the to_dict closure of a RustGenerator (per dataset structure)
# A-RUST + decode_array (same decoder as the Python reader, C01)
axiom("forall(lambda ds, p, t, c: implies(t >= 1, MAPS(TODICT(ds), RUSTS(p, t, c)) == FLATS(MAPS(RD('fb', ds), OFSEQ(p)))), p='SEQ', c='U')")

contract("sedpack/_sedpack_rs", "RustIter.__init__", cls="RustIter", sig=["self", "files", "repeat", "threads", "compression"],
    params={"files": "list:U", "repeat": "bool", "threads": "int", "compression": "U"},
    assumed=True, verify=False, props=["C02", "C03", "C19", "C07"],
    modifies=["RustIter.can_iterate@self", "RustIter.nenter@self", "RustIter.nexit@self"],
    ensures=["RITER_STREAM(self) == RUSTS(seq(files), threads, compression)", "not self.can_iterate",
             "self.nenter == 0 and self.nexit == 0", "not repeat"])
contract("sedpack/_sedpack_rs", "RustIter.__enter__", cls="RustIter", sig=["self"], assumed=True, verify=False,
    props=["C02", "C19"], modifies=["RustIter.can_iterate@self", "RustIter.nenter@self"],
    ensures=["self.can_iterate", "self.nenter == old(self.nenter) + 1"])
contract("sedpack/_sedpack_rs", "RustIter.__exit__", cls="RustIter", sig=["self", "exc_type", "exc_value", "exc_tb"],
    params={"exc_type": "optU", "exc_value": "optU", "exc_tb": "optU"},
    assumed=True, verify=False, props=["C02", "C19"],
    modifies=["RustIter.can_iterate@self", "RustIter.nexit@self"],
    ensures=["not self.can_iterate", "self.nexit == old(self.nexit) + 1"])
contract("sedpack/_sedpack_rs", "RustIter.supported_compressions", cls="RustIter", sig=[], returns="list:U",
    assumed=True, verify=False, props=["C02"], modifies=[])

_RG_FIELDS = ["RustGenerator._rust_iter", "RustGenerator._dataset", "RustGenerator._split", "RustGenerator._process_record",
              "RustGenerator._shards", "RustGenerator._shard_filter", "RustGenerator._repeat",
              "RustGenerator._file_parallelism", "RustGenerator._shuffle", "RustGenerator._to_dict"]
contract(MI, "RustGenerator.__init__", props=["C02", "C03", "C12", "C19"],
    params={"dataset": "ref:DatasetIteration", "split": "U", "process_record": "optfunc", "shards": "opt:int",
            "shard_filter": "optfunc", "repeat": "bool", "file_parallelism": "int", "shuffle": "int"},
    modifies=[f + "@self" for f in _RG_FIELDS], assumed=True, verify=False,
    ensures=["self._rust_iter is None", "self._dataset is dataset", "self._split == split",
             "self._process_record == process_record", "self._shards == shards", "self._shard_filter == shard_filter",
             "self._repeat == repeat", "self._file_parallelism == file_parallelism", "self._shuffle == shuffle",
             "self._to_dict == TODICT(dataset._dataset_info.dataset_structure)"],
    note="plain field assignments plus the nested to_dict closure (nested def is outside the subset); checked by harness")
contract(MI, "RustGenerator.__enter__", props=["C02"], params={}, returns="ref:RustGenerator", modifies=[],
    ensures=["result is self"])
contract(MI, "RustGenerator.__exit__", props=["C02", "C19"],
    params={"exc_type": "optU", "exc_value": "optexc", "exc_tb": "optU"},
    modifies=["RustIter.can_iterate", "RustIter.nexit"], ensures=["True"])

macro("RG_CANON", ["g"], "CANON(g._dataset, g._split, g._process_record, g._shards, None, g._shard_filter)")
_RG_REQ = ["self._rust_iter is None", "self._file_parallelism >= 1", "self._shuffle >= 0", "truthy(self._split)",
           "is_none(self._shards) or optval(self._shards) >= 0",
           "self._dataset._dataset_info.dataset_structure.shard_file_type == 'fb'",
           "self._to_dict == TODICT(self._dataset._dataset_info.dataset_structure)"]
_RG_SI_MOD = ["RustGenerator._rust_iter@self", "RustIter.can_iterate", "RustIter.nenter", "RustIter.nexit"]
contract(MI, "RustGenerator._single_iter", props=["C02", "C03", "C12", "C19", "C07"],
    params={}, generator=True, stream_out=True, defs=[d.replace("self.path", "self._dataset.path") for d in _SEL_DEFS],
    requires=_RG_REQ, modifies=_RG_SI_MOD,
    ensures=[
        ("C19", "self._rust_iter is None"),            # a fresh native iterator per epoch
        (["C03", "C12"], "implies(self._shuffle == 0, outs == RG_CANON(self))"),
        (["C02", "C12", "C19"], "MSS(outs) == MSS(RG_CANON(self)) and FIN(outs)"),   # one epoch = a complete pass
    ],
    raises={"ValueError": ["True"], "Foreign": ["True"]},
    summary=dict(result="EPOCH(self, old_next_ref())",
                 normal=["implies(self._shuffle == 0, EPOCH(self, old_next_ref()) == RG_CANON(self))",
                         "MSS(EPOCH(self, old_next_ref())) == MSS(RG_CANON(self))", "FIN(EPOCH(self, old_next_ref()))"]))
ufunc("EPOCH", ["int", "int"], "STREAM")
ufunc("ALLEPOCHS", ["STREAM", "MS"], "bool")     # a concatenation of finite streams each with the given multiset
axiom("forall(lambda m: ALLEPOCHS(EMPTYS(), m), m='MS')")
axiom("forall(lambda s, e, m: implies(ALLEPOCHS(s, m) and FIN(e) and MSS(e) == m, ALLEPOCHS(CATS(s, e), m)), s='STREAM', e='STREAM', m='MS')")

contract(MI, "RustGenerator.__call__", props=["C02", "C03", "C19", "C12"],
    params={}, generator=True, stream_out=True, defs=[d.replace("self.path", "self._dataset.path") for d in _SEL_DEFS],
    requires=_RG_REQ, modifies=_RG_SI_MOD,
    ensures=[
        ("C19", "not self._repeat"),      # with repeat the stream never ends
        (["C03", "C12"], "implies(self._shuffle == 0, outs == RG_CANON(self))"),
        (["C02", "C12"], "MSS(outs) == MSS(RG_CANON(self))"),
    ],
    raises={"ValueError": ["True"], "Foreign": ["True"]},
    summary=dict(result="RGCALL(self)",
                 normal=["not self._repeat", "implies(self._shuffle == 0, RGCALL(self) == RG_CANON(self))",
                         "MSS(RGCALL(self)) == MSS(RG_CANON(self))"]),
    loops={1: Loop(inv=[
        # C19: every successive epoch is a complete permutation of the split
        ("C19", "ALLEPOCHS(outs, MSS(RG_CANON(self)))"),
        "self._rust_iter is None", "not FAILS(outs)",
        "implies(not self._repeat, outs == loop_entry(outs))",
    ] + [r for r in _RG_REQ if "_rust_iter" not in r],
    frame={k: ["self"] for k in _RG_FIELDS})})
ufunc("RGCALL", ["int"], "STREAM")

_RI_PARAMS = {k: v for k, v in _IT_PARAMS.items() if k != "custom_metadata_type_limit"}
contract(MI, "DatasetIteration.as_numpy_iterator_rust", props=["C02", "C03", "C12", "C19", "C07"],
    params=_RI_PARAMS, generator=True, stream_out=True, defs=_SEL_DEFS,
    modifies=[f for f in _RG_FIELDS] + ["RustIter.can_iterate", "RustIter.nenter", "RustIter.nexit"],
    requires=[r for r in _IT_REQ if "custom_metadata_type_limit" not in r] + ["file_parallelism >= 1"],
    ensures=[
        ("C19", "not repeat"),
        (["C03", "C12"], "implies(shuffle == 0, outs == CANON(self, split, process_record, shards, None, shard_filter))"),
        (["C02", "C12"], "MSS(outs) == MSS(CANON(self, split, process_record, shards, None, shard_filter))"),
    ],
    raises={"ValueError": ["True"], "Foreign": ["True"]})
