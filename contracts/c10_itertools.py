# Contracts for src/sedpack/io/itertools/itertools.py
# Properties: C02 exactly-once, C03 (n/a here), C07 errors propagate, C14 laziness, C19
M = "sedpack/io/itertools/itertools.py"

assumption("A-LCG", "the shuffle state r is an arbitrary integer; nothing proved depends on its value")

contract(M, "initial_random_state", props=["C02"], params={"seed": "opt:int"},
         returns="int", modifies=[], verify=False, assumed=True,
         note="returns np.uint32; treated as arbitrary integer (A-LCG)")
contract(M, "next_random_state", props=["C02"], params={"r": "int"},
         returns="int", modifies=[], verify=False, assumed=True,
         note="np.uint32 LCG step; treated as arbitrary integer (A-LCG)")

_SB = dict(
    props=["C02", "C07", "C14", "C19"],
    params={"iterable": "iter", "buffer_size": "int"},
    generator=True,
    requires=["buffer_size >= 1"],
    ensures=[
        # normal termination => finite source fully consumed, no failure, and
        # the output is a permutation (multiset) of the input
        ("C02", "ms_eq(mset(out), pmset(iterable, srclen(iterable)))"),
        ("C02", "consumed(iterable) == srclen(iterable)"),
        ("C02", "len(out) == srclen(iterable)"),
        ("C19", "not infinite(iterable)"),
        ("C07", "not failed()"),
    ],
    raises={"Foreign": [("C07", "failed()")]},
    at_yield=[
        ("C14", "consumed(iterable) - len(out) <= buffer_size + 1"),
        ("C19", "count(pmset(iterable), yielding) >= 1"),
    ],
    on_abandon=["True"],
    loops={
        1: Loop(inv=[
            "_k == len(buffer)", "_k == consumed(iterable)", "_k <= buffer_size",
            "len(out) == 0", "buffer_size >= 1",
            "ms_eq(mset(buffer), pmset(iterable))",
            "not failed()",
            "implies(exhausted(iterable), consumed(iterable) < buffer_size)",
        ], variant="buffer_size - _k"),
        2: Loop(inv=[
            "ms_sum_eq(mset(out), mset(buffer), pmset(iterable))",
            "len(out) + len(buffer) == consumed(iterable)",
            "len(buffer) <= buffer_size", "buffer_size >= 1",
            "implies(consumed(iterable) >= 1, len(buffer) >= 1)",
            "implies(not exhausted(iterable), consumed(iterable) >= len(buffer))",
            "implies(len(buffer) < buffer_size, infinite(iterable) == False and consumed(iterable) == srclen(iterable))",
            "not failed()",
        ]),
    },
)
# stream-level reading of the contract: fails only if its source fails (raises clause)
_SB["summary"] = dict(exact=True, result="SHUF(stream(iterable), buffer_size)", fails_only_if="FAILS(stream(iterable))")
contract(M, "shuffle_buffer", **_SB)

# ---------------------------------------------------------------------------
# round_robin: token form.  Inner iterable u = src(iterables, IDX(u)); token
# (u, p) = p-th element of u.  ycount(u, p) = number of times it was yielded.
ufunc("IDX", ["U"], "int")
macro("rr_opened", ["its", "u"],
      "0 <= IDX(u) and IDX(u) < consumed(its) and src(its, IDX(u)) == u")
macro("rr_exh", ["u"], "ipos(u) >= ilen(u) and not iinf(u)")
_RR_PRE = [
    "buffer_size >= 1",
    # inner iterables are pairwise distinct objects (IDX is their index)
    "forall(lambda j: implies(0 <= j and (infinite(iterables) or j < srclen(iterables)), IDX(src(iterables, j)) == j))",
]
_RR_INV2 = [
    "buffer_size >= 1",
    "forall(lambda u: iopen(u) == rr_opened(iterables, u), u='U')",
    "forall(lambda u: implies(count(mset(buffer), u) >= 1, rr_opened(iterables, u)), u='U')",
    "forall(lambda u: count(mset(buffer), u) <= 1, u='U')",
    "forall(lambda u: implies(rr_opened(iterables, u) and count(mset(buffer), u) == 0, rr_exh(u)), u='U')",
    "forall(lambda u, p: ycount(u, p) == ite(rr_opened(iterables, u) and 0 <= p and p < ipos(u), 1, 0), u='U')",
    "forall(lambda u: implies(not rr_opened(iterables, u), ipos(u) == 0), u='U')",
    "forall(lambda u: ipos(u) >= 0 and (iinf(u) or ipos(u) <= ilen(u)), u='U')",
    "len(buffer) <= buffer_size",
    "implies(len(buffer) < buffer_size, exhausted(iterables))",
    "len(out) == ntok",
    "not failed()",
]
contract(M, "round_robin",
    summary=dict(exact=True, result="RRS(stream(iterables), buffer_size)", fails_only_if="FAILS(stream(iterables))"),
    props=["C02", "C07", "C14", "C19"],
    params={"iterables": "iter", "buffer_size": "int"},
    generator=True,
    requires=_RR_PRE,
    ensures=[
        ("C02", "exhausted(iterables) and consumed(iterables) == srclen(iterables)"),
        # every token of every inner iterable exactly once, nothing else
        ("C02", "forall(lambda u, p: ycount(u, p) == ite(0 <= IDX(u) and IDX(u) < srclen(iterables) and src(iterables, IDX(u)) == u and 0 <= p and p < ilen(u), 1, 0), u='U')"),
        ("C02", "len(out) == ntok"),
        ("C07", "not failed()"),
        ("C19", "not infinite(iterables)"),
    ],
    raises={"Foreign": [("C07", "failed()")]},
    at_yield=[
        # inner iterators opened and not yet exhausted = those in the buffer
        ("C14", "len(buffer) <= buffer_size"),
        ("C14", "forall(lambda u: implies(rr_opened(iterables, u) and count(mset(buffer), u) == 0, rr_exh(u)), u='U')"),
    ],
    on_abandon=["True"],
    loops={
        1: Loop(inv=[
            "_k == len(buffer)", "_k == consumed(iterables)", "_k <= buffer_size", "buffer_size >= 1",
            "forall(lambda u: iopen(u) == rr_opened(iterables, u), u='U')",
            "forall(lambda u: implies(count(mset(buffer), u) >= 1, rr_opened(iterables, u)), u='U')",
            "forall(lambda u: count(mset(buffer), u) == ite(rr_opened(iterables, u), 1, 0), u='U')",
            "forall(lambda u: ipos(u) == 0, u='U')",
            "forall(lambda u, p: ycount(u, p) == 0, u='U')",
            "len(out) == 0", "ntok == 0", "not failed()",
            "implies(exhausted(iterables), consumed(iterables) < buffer_size)",
        ], variant="buffer_size - _k"),
        2: Loop(inv=_RR_INV2),
    })

# ---------------------------------------------------------------------------
# async variants: read as their synchronous counterparts (assumption A-ASYNC)
assumption("A-ASYNC", "async generators are read as their synchronous counterparts: one task, cooperative scheduling, inner async iterators do not interfere; the asyncio event loop is not modelled")
import copy as _copy
_SBA = dict(_SB)
_SBA["loops"] = dict(_SB["loops"])
_SBA["loops"][1] = Loop(inv=[
    "_k == len(buffer)", "_k == consumed(iterable)", "_k <= buffer_size",
    "len(out) == 0", "buffer_size >= 1",
    "ms_eq(mset(buffer), pmset(iterable))",
    "not failed()", "not exhausted(iterable)",
], variant="buffer_size - _k")
# third loop: `for element in buffer: yield element` (instead of yield from)
_SBA["loops"][3] = Loop(inv=[
    "0 <= _k and _k <= len(buffer)",
    "len(out) == loop_entry(len(out)) + _k",
    "ms_sum_eq(loop_entry(mset(out)), lpmset(buffer, _k), mset(out))",
    "ms_sum_eq(loop_entry(mset(out)), mset(buffer), pmset(iterable))",
    "loop_entry(len(out)) + len(buffer) == consumed(iterable)",
    "consumed(iterable) == srclen(iterable) and not infinite(iterable)",
    "buffer_size >= 1", "len(buffer) <= buffer_size",
    "not failed()",
])
_SBA["ghosts"] = {}
_SBA["summary"] = None
contract(M, "shuffle_buffer_async", **_SBA)

contract(M, "round_robin_async",
    summary=dict(exact=True, result="RRS(stream(iterables), buffer_size)", fails_only_if="FAILS(stream(iterables))"),
    props=["C02", "C07", "C14", "C19"],
    params={"iterables": "iter", "buffer_size": "int"},
    generator=True,
    requires=_RR_PRE,
    ensures=[
        ("C02", "exhausted(iterables) and consumed(iterables) == srclen(iterables)"),
        ("C02", "forall(lambda u, p: ycount(u, p) == ite(0 <= IDX(u) and IDX(u) < srclen(iterables) and src(iterables, IDX(u)) == u and 0 <= p and p < ilen(u), 1, 0), u='U')"),
        ("C02", "len(out) == ntok"),
        ("C07", "not failed()"),
        ("C19", "not infinite(iterables)"),
    ],
    raises={"Foreign": [("C07", "failed()")]},
    at_yield=[
        ("C14", "len(buffer) <= buffer_size"),
        ("C14", "forall(lambda u: implies(rr_opened(iterables, u) and count(mset(buffer), u) == 0, rr_exh(u)), u='U')"),
    ],
    on_abandon=["True"],
    loops={
        1: Loop(inv=[
            "_k == len(buffer)", "_k == consumed(iterables)", "_k <= buffer_size", "buffer_size >= 1",
            "forall(lambda u: iopen(u) == rr_opened(iterables, u), u='U')",
            "forall(lambda u: implies(count(mset(buffer), u) >= 1, rr_opened(iterables, u)), u='U')",
            "forall(lambda u: count(mset(buffer), u) == ite(rr_opened(iterables, u), 1, 0), u='U')",
            "forall(lambda u: ipos(u) == 0, u='U')",
            "forall(lambda u, p: ycount(u, p) == 0, u='U')",
            "len(out) == 0", "ntok == 0", "not failed()",
            "not exhausted(iterables)",
        ], variant="buffer_size - _k"),
        2: Loop(inv=_RR_INV2),
    })
