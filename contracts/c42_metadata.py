# Shard-list metadata: ShardsList.write_config / load_or_create, Shard.close,
# _DatasetFillerContext.close_shard, DatasetFiller (C04, C06, C08, C10, C16, C17, C20)
macro("SL_SAME", ["a", "b"],
      "a.relative_path_self == b.relative_path_self and a.number_of_examples == b.number_of_examples"
      " and a.shard_files == b.shard_files and a.children_shard_lists == b.children_shard_lists")
# C06: everything a list names is completely written before the list is
macro("LISTED_COMPLETE", ["root", "l"],
      "forall(lambda i: implies(0 <= i and i < len(l.shard_files), dstate(PJOIN(root, l.shard_files[i].file_infos[0].file_path)) == 2))"
      " and forall(lambda i: implies(0 <= i and i < len(l.children_shard_lists), dstate(PJOIN(root, l.children_shard_lists[i].shard_list_info_file.file_path)) == 2))")
# C04: local exactness of one list
macro("LEX", ["l"], "l.number_of_examples == lsum(l.shard_files, 'number_of_examples') + lsum(l.children_shard_lists, 'number_of_examples')")
macro("DOC_AT", ["root", "rel"], "sl_ref(PARSE_ShardsList(disk_read(PJOIN(root, rel))))")
# The representation / crash invariant of the metadata on disk (C04, C06):
# every completely written shard-list document is valid, locally exact, knows
# its own location, and names only completely written files
# shape of the tree: a child list lives exactly one directory below its parent's directory,
# and a list names each child list once
macro("UP", ["u"], "u.shard_list_info_file.file_path")
macro("DIROF", ["rel"], "PPREFIX(rel, NPARTS(rel) - 1)")
macro("CHILD_PLACED", ["rel", "c"],
      "NPARTS(UP(c)) == NPARTS(rel) + 1 and PPREFIX(UP(c), NPARTS(rel) - 1) == DIROF(rel)")
macro("LIST_SHAPE", ["l"],
      "forall(lambda i: implies(0 <= i and i < len(l.children_shard_lists), CHILD_PLACED(l.relative_path_self, l.children_shard_lists[i])))"
      " and forall(lambda i, j: implies(0 <= i and i < j and j < len(l.children_shard_lists),"
      "       UP(l.children_shard_lists[i]) != UP(l.children_shard_lists[j])))")
macro("LISTFILE", ["root", "rel"], "dstate(PJOIN(root, rel)) == 2 and PNAME(rel) == 'shards_list.json' and SAFE(rel)")
macro("DOC_OK", ["root", "rel", "d"],
      "VALID_ShardsList(d) and LEX(d) and LISTED_COMPLETE(root, d) and d.relative_path_self == rel and LIST_SHAPE(d)")
macro("DISK_OK", ["root"],
      "forall(lambda rel: implies(dstate(PJOIN(root, rel)) == 2 and PNAME(rel) == 'shards_list.json' and SAFE(rel),"
      "    DOC_OK(root, rel, DOC_AT(root, rel)) and allocated(DOC_AT(root, rel))), rel='U')")
# an object (an open shard's info) is not an entry of any list document on disk
macro("NOT_ON_DISK", ["root", "x"],
      "forall(lambda rel, i: implies(dstate(PJOIN(root, rel)) == 2 and PNAME(rel) == 'shards_list.json' and SAFE(rel)"
      "    and 0 <= i and i < len(DOC_AT(root, rel).shard_files), DOC_AT(root, rel).shard_files[i] is not x), rel='U')")
_OTHERS_KEPT = ("forall(lambda p: implies(p != %s and old(dstate(p)) == 2, dstate(p) == 2 and disk_read(p) == old(disk_read(p))), p='U')")

_R, _L = "dataset_root_path", "self.relative_path_self"
contract(MSM, "ShardsList.write_config", props=["C04", "C06", "C08", "C16", "C17", "C20", "C05"],
    params={"dataset_root_path": "U", "hashes": "list:U"}, returns="ref:ShardListInfo",
    exit_lemmas=[
        # every other (relative) path still names the same file content
        ("C04", "forall(lambda rel: implies(rel != self.relative_path_self and not ISABS(rel), PJOIN(dataset_root_path, rel) != PJOIN(dataset_root_path, self.relative_path_self)), rel='U')"),
        ("C04", "forall(lambda rel: implies(rel != self.relative_path_self and not ISABS(rel), dstate(PJOIN(dataset_root_path, rel)) == old(dstate(PJOIN(dataset_root_path, rel)))"
                "   and disk_read(PJOIN(dataset_root_path, rel)) == old(disk_read(PJOIN(dataset_root_path, rel)))), rel='U')"),
        # what the invariant said about the certified lists before the write (PRE = GINV and DISK_OK on entry;
        # only these steps see its definition)
        ("C04", "reveal PRE: implies(hidden('PRE', old(GINV(dataset_root_path)) and old(DISK_OK(dataset_root_path))), forall(lambda rel: implies(old(cert(dataset_root_path, rel)), old(LISTFILE(dataset_root_path, rel))), rel='U'))"),
        ("C04", "reveal PRE: implies(hidden('PRE', old(GINV(dataset_root_path)) and old(DISK_OK(dataset_root_path))), forall(lambda rel: implies(old(cert(dataset_root_path, rel)),"
                "   old(LIST_SHAPE(DOC_AT(dataset_root_path, rel))) and old(DOC_AT(dataset_root_path, rel).relative_path_self == rel) and old(allocated(DOC_AT(dataset_root_path, rel)))), rel='U'))"),
        ("C04", "reveal PRE: implies(hidden('PRE', old(GINV(dataset_root_path)) and old(DISK_OK(dataset_root_path))), forall(lambda rel, k: implies(old(cert(dataset_root_path, rel)) and 0 <= k and k < old(len(DOC_AT(dataset_root_path, rel).children_shard_lists)),"
                "   old(ENTRY_GOOD(dataset_root_path, DOC_AT(dataset_root_path, rel).children_shard_lists[k]))), rel='U'))"),
        # an untouched certified list still parses to the same document, with the same entries
        ("C04", "implies(hidden('PRE', old(GINV(dataset_root_path)) and old(DISK_OK(dataset_root_path))), forall(lambda rel: implies(old(cert(dataset_root_path, rel)) and rel != self.relative_path_self,"
                "   DOC_AT(dataset_root_path, rel) is old(DOC_AT(dataset_root_path, rel)) and len(DOC_AT(dataset_root_path, rel).children_shard_lists) == old(len(DOC_AT(dataset_root_path, rel).children_shard_lists))), rel='U'))"),
        ("C04", "implies(hidden('PRE', old(GINV(dataset_root_path)) and old(DISK_OK(dataset_root_path))), forall(lambda rel, k: implies(old(cert(dataset_root_path, rel)) and rel != self.relative_path_self and 0 <= k and k < len(DOC_AT(dataset_root_path, rel).children_shard_lists),"
                "   DOC_AT(dataset_root_path, rel).children_shard_lists[k] is old(DOC_AT(dataset_root_path, rel).children_shard_lists[k]) and UP(DOC_AT(dataset_root_path, rel).children_shard_lists[k]) == old(UP(DOC_AT(dataset_root_path, rel).children_shard_lists[k]))), rel='U'))"),
        ("C04", "implies(hidden('PRE', old(GINV(dataset_root_path)) and old(DISK_OK(dataset_root_path))), forall(lambda rel, k: implies(old(cert(dataset_root_path, rel)) and rel != self.relative_path_self and 0 <= k and k < len(DOC_AT(dataset_root_path, rel).children_shard_lists),"
                "   CHILD_PLACED(rel, DOC_AT(dataset_root_path, rel).children_shard_lists[k])), rel='U'))"),
        # a list that keeps its certificate has no entry for the written list or for a list above it
        ("C04", "implies(hidden('PRE', old(GINV(dataset_root_path)) and old(DISK_OK(dataset_root_path))), forall(lambda rel, k: implies(old(cert(dataset_root_path, rel)) and rel != self.relative_path_self and not ANCREL(rel, self.relative_path_self)"
                "     and 0 <= k and k < len(DOC_AT(dataset_root_path, rel).children_shard_lists), UP(DOC_AT(dataset_root_path, rel).children_shard_lists[k]) != self.relative_path_self), rel='U'))"),
        ("C04", "implies(hidden('PRE', old(GINV(dataset_root_path)) and old(DISK_OK(dataset_root_path))), forall(lambda rel, k: implies(old(cert(dataset_root_path, rel)) and rel != self.relative_path_self and not ANCREL(rel, self.relative_path_self)"
                "     and 0 <= k and k < len(DOC_AT(dataset_root_path, rel).children_shard_lists)"
                "     and axinst(path_inst(self.relative_path_self, NPARTS(rel), NPARTS(rel) - 1) and path_inst(UP(DOC_AT(dataset_root_path, rel).children_shard_lists[k]), NPARTS(rel), NPARTS(rel) - 1)),"
                "   not ANCREL(UP(DOC_AT(dataset_root_path, rel).children_shard_lists[k]), self.relative_path_self)), rel='U'))"),
        # which lists are certified now (GD0: the others; GD1: the written one)
        ("C04", "reveal GD0: forall(lambda rel: implies(rel != self.relative_path_self, cert(dataset_root_path, rel) == (old(cert(dataset_root_path, rel)) and not ANCREL(rel, self.relative_path_self))), rel='U')"),
        # ... so the entries of an untouched certified list are as good as before
        ("C04", "implies(hidden('PRE', old(GINV(dataset_root_path)) and old(DISK_OK(dataset_root_path))), forall(lambda rel, k: implies(cert(dataset_root_path, rel) and rel != self.relative_path_self and 0 <= k and k < len(DOC_AT(dataset_root_path, rel).children_shard_lists),"
                "   INFO_EXACT(dataset_root_path, galgs(), DOC_AT(dataset_root_path, rel).children_shard_lists[k])), rel='U'))"),
        ("C04", "implies(hidden('PRE', old(GINV(dataset_root_path)) and old(DISK_OK(dataset_root_path))), forall(lambda rel, k: implies(cert(dataset_root_path, rel) and rel != self.relative_path_self and 0 <= k and k < len(DOC_AT(dataset_root_path, rel).children_shard_lists),"
                "   cert(dataset_root_path, UP(DOC_AT(dataset_root_path, rel).children_shard_lists[k]))), rel='U'))"),
        ("C04", "implies(hidden('PRE', old(GINV(dataset_root_path)) and old(DISK_OK(dataset_root_path))), forall(lambda rel: implies(cert(dataset_root_path, rel) and rel != self.relative_path_self, LISTFILE(dataset_root_path, rel)), rel='U'))"),
        # the written list: certified only if all its entries are good, and then its document has exactly these entries
        ("C04", "reveal GD1: implies(cert(dataset_root_path, self.relative_path_self), forall(lambda k: implies(0 <= k and k < len(self.children_shard_lists),"
                "   ENTRY_GOOD(dataset_root_path, self.children_shard_lists[k]))))"),
        ("C04", "implies(cert(dataset_root_path, self.relative_path_self), LISTFILE(dataset_root_path, self.relative_path_self) and forall(lambda k: implies(0 <= k and k < len(DOC_AT(dataset_root_path, self.relative_path_self).children_shard_lists),"
                "   ENTRY_GOOD(dataset_root_path, DOC_AT(dataset_root_path, self.relative_path_self).children_shard_lists[k]))))"),
        ("C04", "implies(hidden('PRE', old(GINV(dataset_root_path)) and old(DISK_OK(dataset_root_path))), GINV(dataset_root_path))"),
    ],
    modifies=["ghost:fs", "ghost:cert"], fs_root="dataset_root_path",
    fs_effects=[("PJOIN(dataset_root_path, self.relative_path_self)", None)],
    requires=["VALID_ShardsList(self)",
              ("C06", "LISTED_COMPLETE(dataset_root_path, self)"),
              ("C04", "LIST_SHAPE(self)")],
    ensures=[
        ("C04", "result.number_of_examples == self.number_of_examples"),
        ("C04", "result.number_of_shards == len(self.shard_files) + lsum(self.children_shard_lists, 'number_of_shards')"),
        ("C17", "result.shard_list_info_file.file_path == self.relative_path_self"),
        ("C06", "dstate(PJOIN(dataset_root_path, self.relative_path_self)) == 2"),
        # C04/C20: what is on disk is this list as it is now
        (["C04", "C20"], "SL_SAME(DOC_AT(dataset_root_path, self.relative_path_self), self)"),
        ("C16", "len(result.shard_list_info_file.hash_checksums) == len(hashes)"),
        ("C16", "forall(lambda j: implies(0 <= j and j < len(hashes), result.shard_list_info_file.hash_checksums[j] =="
                " HEX(hashes[j], disk_read(PJOIN(dataset_root_path, self.relative_path_self)), FLEN(disk_read(PJOIN(dataset_root_path, self.relative_path_self))))))"),
        "fresh(result) and fresh(result.shard_list_info_file)",
        # A-PYD: the document now on disk parses to a (ghost) object of its own: not any object that existed before
        "fresh(DOC_AT(dataset_root_path, self.relative_path_self))",
        # ghost label update (definition): lists above the written one lose their certificate,
        # the written one is certified iff every child entry is exact and certified
        "hide CERTDEF: ghostdef: forall(lambda q: implies(q != self.relative_path_self,"
        "   cert(dataset_root_path, q) == (old(cert(dataset_root_path, q)) and not ANCREL(q, self.relative_path_self))), q='U')",
        "hide CERTDEF: ghostdef: cert(dataset_root_path, self.relative_path_self) == forall(lambda k: implies(0 <= k and k < len(self.children_shard_lists),"
        "   ENTRY_GOOD(dataset_root_path, self.children_shard_lists[k])))",
        "hide CERTDEF: ghostdef: forall(lambda r, q: implies(r != dataset_root_path, cert(r, q) == old(cert(r, q))), r='U', q='U')",
        # C04: the representation invariant of the certified part survives the write
        ("C04", "reveal PRE: hide GINVKEEP: implies(old(GINV(dataset_root_path)) and old(DISK_OK(dataset_root_path)), GINV(dataset_root_path))"),
        # C04 / C06: the disk invariant survives the write of a locally exact list
        (["C04", "C06"], "hide DISKKEEP: implies(old(DISK_OK(dataset_root_path)) and LEX(self), DISK_OK(dataset_root_path))"),
    ])

contract(MSM, "ShardsList.load_or_create", props=["C04", "C08", "C17", "C06", "C20"],
    params={"dataset_root_path": "U", "relative_path_self": "U"}, returns="ref:ShardsList",
    modifies=[], fs_root="dataset_root_path",
    requires=["SAFE(relative_path_self)", "PNAME(relative_path_self) == 'shards_list.json'",
              "DISK_OK(dataset_root_path)"],
    ensures=[
        "fresh(result)",
        # the disk invariant carries over to the loaded copy
        (["C04", "C06"], "VALID_ShardsList(result) and LEX(result) and LISTED_COMPLETE(dataset_root_path, result) and result.relative_path_self == relative_path_self"),
        ("C04", "LIST_SHAPE(result)"),
        # C08: an existing list is loaded (extended later), never recreated
        (["C08", "C04"], "implies(dstate(PJOIN(dataset_root_path, relative_path_self)) == 2, SL_SAME(result, DOC_AT(dataset_root_path, relative_path_self)))"),
        ("C08", "implies(dstate(PJOIN(dataset_root_path, relative_path_self)) != 2,"
                " result.relative_path_self == relative_path_self and result.number_of_examples == 0"
                " and len(result.shard_files) == 0 and len(result.children_shard_lists) == 0)"),
        ("C17", "implies(dstate(PJOIN(dataset_root_path, relative_path_self)) == 2, VALID_ShardsList(result))"),
        # A-PYD: the loaded list's entries are objects of the parsed document, not live program objects
        "forall(lambda i: implies(0 <= i and i < len(result.shard_files), isdisk(result.shard_files[i])))",
    ],
    raises={"ValueError": ["dstate(PJOIN(dataset_root_path, relative_path_self)) == 2"]})

# ---- Shard -------------------------------------------------------------------------
macro("FP", ["s"], "s.shard_info.file_infos[0].file_path")
# the shard file lives in <split>/<relative path of the filler>/
macro("SHARD_IN", ["s", "split", "rel"], "FP(s) == PJOIN(PJOIN(split, rel), PNAME(FP(s)))")
macro("PLAIN", ["g"], "PART(g, 0) == g and NPARTS(g) == 1 and not ISABS(g) and not HASDD(g)")
# what a writing step in split `split` leaves alone: every list file outside that split's directory
macro("OTHER_SPLITS_KEPT", ["root", "split"],
      "forall(lambda rel: implies(NPARTS(rel) >= 2 and not ISABS(rel) and PART(rel, 0) != split,"
      "   cert(root, rel) == old(cert(root, rel)) and dstate(PJOIN(root, rel)) == old(dstate(PJOIN(root, rel)))"
      "   and disk_read(PJOIN(root, rel)) == old(disk_read(PJOIN(root, rel)))), rel='U')")
macro("SHARD_PATH", ["s"], "PJOIN(s._dataset_path, s.shard_info.file_infos[0].file_path)")
macro("SHARD_OK", ["s"], "len(s.shard_info.file_infos) >= 1 and VALID_ShardInfo(s.shard_info)"
      " and PNAME(s.shard_info.file_infos[0].file_path) != 'shards_list.json'"
      " and implies(s._shard_writer is not None, s._shard_writer.path == SHARD_PATH(s))")
macro("IS_DIGESTS", ["lst", "algs", "content"],
      "len(lst) == len(algs) and forall(lambda j: implies(0 <= j and j < len(algs), lst[j] == HEX(algs[j], content, FLEN(content))))")

contract("sedpack/io/shard/shard_writer_base.py", "ShardWriterBase.close", cls="ShardWriterBase", sig=["self"],
    props=["C06", "C04", "C10"], assumed=True, verify=False,
    requires=["not self.closed"],
    modifies=["Writer.closed@self", "ghost:fs"],
    # A-FS per writer: the shard file is complete when close() returns (if there is a record); nothing else changes
    fs_effects=[("self.path", None, "self.nrec >= 1")],
    ensures=["self.closed"],
    note="abstract view of the three writers' close(); concrete close functions are under contract in c50_writers.py")

contract(MS_, "Shard._get_full_path", props=["C17", "C16"], params={}, returns="U", modifies=[],
    requires=["len(self.shard_info.file_infos) >= 1"],
    ensures=["result == SHARD_PATH(self)"])
contract(MS_, "Shard._compute_file_hash_checksums", props=["C16", "C05"], params={}, returns="list:U", modifies=[],
    requires=["len(self.shard_info.file_infos) >= 1"],
    at_call={"hash_checksums": [
        ("C16", "callee_file_path == SHARD_PATH(self)"),
        # C16: digests are computed with the dataset's configured algorithms, in their order
        ("C16", "callee_hashes == self.dataset_structure.hash_checksum_algorithms")]},
    ensures=[("C16", "IS_DIGESTS(result, self.dataset_structure.hash_checksum_algorithms, disk_read(SHARD_PATH(self)))")],
    raises={"FileNotFoundError": ["dstate(SHARD_PATH(self)) != 2"]})

contract(MS_, "Shard.close", props=["C10", "C04", "C16", "C06", "C05"],
    params={}, returns="ref:ShardInfo",
    requires=["SHARD_OK(self)",
              "implies(self._shard_writer is not None, not self._shard_writer.closed)",
              # C10: only a shard that holds at least one record is closed (its file exists)
              ("C10", "implies(self._shard_writer is not None, self._shard_writer.nrec >= 1)")],
    modifies=["Shard._shard_writer@self", "Writer.closed@self._shard_writer",
              "FileInfo.hash_checksums@self.shard_info.file_infos[0]", "ghost:fs"],
    fs_effects=[("SHARD_PATH(self)", None, "self._shard_writer is not None")],
    ensures=[
        "result is self.shard_info",
        "self._shard_writer is None",
        "old(self._shard_writer) is not None",
        # C06: the file is complete (writer closed) before it is hashed and recorded
        ("C06", "dstate(SHARD_PATH(self)) == 2"),
        ("C16", "IS_DIGESTS(result.file_infos[0].hash_checksums, self.dataset_structure.hash_checksum_algorithms, disk_read(SHARD_PATH(self)))"),
        # C04: completing a shard file changes no list file: the certified part of the tree stays as it is
        ("C04", "hide SC_GINV: implies(old(GINV(self._dataset_path)) and old(DISK_OK(self._dataset_path)), GINV(self._dataset_path))"),
        (["C04", "C06"], "hide SC_DISK: implies(old(DISK_OK(self._dataset_path)), DISK_OK(self._dataset_path))"),
    ],
    raises={"ValueError": ["old(self._shard_writer) is None"]})

# ---- filler context: close_shard ----------------------------------------------------
# one list of the filler context is well formed: valid paths, locally exact
# (C04), everything it names is completely written (C06), and it is the list
# of its own directory
macro("LIST_OK", ["c", "s"],
      "VALID_ShardsList(c._shards_lists[s]) and LEX(c._shards_lists[s]) and LISTED_COMPLETE(c._dataset_root_path, c._shards_lists[s])"
      " and LIST_SHAPE(c._shards_lists[s])"
      # the in-memory list is not one of the (ghost) documents parsed from disk
      " and forall(lambda rel: implies(LISTFILE(c._dataset_root_path, rel), DOC_AT(c._dataset_root_path, rel) is not c._shards_lists[s]), rel='U')"
      " and c._shards_lists[s].relative_path_self == PJOIN(PJOIN(s, c._relative_path_from_split), 'shards_list.json')")
macro("CTX_LISTS_OK", ["c"],
      "forall(lambda s: implies(s in c._shards_lists, LIST_OK(c, s)), s='U')"
      " and forall(lambda s, t: implies(s in c._shards_lists and t in c._shards_lists and s != t, c._shards_lists[s] is not c._shards_lists[t]), s='U', t='U')")

contract(MF, CTX + ".close_shard", props=["C10", "C04", "C06", "C08", "C18", "C16"],
    params={"shard": "ref:Shard", "split": "U"},
    exit_lemmas=[
        # both files written here lie in the directory of `split`
        ("C04", "PART(PJOIN(PJOIN(split, self._relative_path_from_split), 'shards_list.json'), 0) == split and PART(FP(shard), 0) == split and NPARTS(PJOIN(PJOIN(split, self._relative_path_from_split), 'shards_list.json')) >= 2"),
        ("C04", "forall(lambda rel: implies(NPARTS(rel) >= 2 and not ISABS(rel) and PART(rel, 0) != split"
                "   and axinst(path_inst(PJOIN(PJOIN(split, self._relative_path_from_split), 'shards_list.json'), NPARTS(rel) - 1, 0, rel, 0) and path_inst(rel, NPARTS(rel) - 1, 0, rel, 0)),"
                "   rel != PJOIN(PJOIN(split, self._relative_path_from_split), 'shards_list.json') and rel != FP(shard) and not ANCREL(rel, PJOIN(PJOIN(split, self._relative_path_from_split), 'shards_list.json'))), rel='U')"),
    ],
    requires=[
        ("C10", "shard.shard_info.number_of_examples >= 1"),     # never close an empty shard
        "shard._shard_writer is not None and not shard._shard_writer.closed",
        "shard._shard_writer.nrec == shard.shard_info.number_of_examples",
        "SHARD_OK(shard) and shard._dataset_path == self._dataset_root_path",
        "implies(split in self._shards_lists, LIST_OK(self, split))",
        "SAFE(self._relative_path_from_split)", "SAFE(split)",
        "DISK_OK(self._dataset_root_path)",
        "PLAIN(split) and SHARD_IN(shard, split, self._relative_path_from_split)",
    ],
    modifies=["Shard._shard_writer@shard", "Writer.closed@shard._shard_writer",
              "FileInfo.hash_checksums@shard.shard_info.file_infos[0]",
              "_DatasetFillerContext._shards_lists@self",
              # only the list of this split (if it is already in use; otherwise a new object) changes
              "ShardsList.shard_files@ite(split in self._shards_lists, self._shards_lists[split], nullref('ShardsList'))",
              "ShardsList.number_of_examples@ite(split in self._shards_lists, self._shards_lists[split], nullref('ShardsList'))",
              "ghost:fs", "ghost:cert"],
    # file-system effect: the shard file, then (if progress is saved) the list file of this directory
    fs_effects=[("SHARD_PATH(shard)", None),
                ("PJOIN(self._dataset_root_path, PJOIN(PJOIN(split, self._relative_path_from_split), 'shards_list.json'))", None, "self._write_updates")],
    ensures=[
        "shard._shard_writer is None",
        "split in self._shards_lists",
        "LIST_OK(self, split)",
        # C06 / C04: the disk invariant holds again after the two file-system effects
        (["C06", "C04"], "DISK_OK(self._dataset_root_path)"),
        # the list document written is the in-memory list
        ("C04", "implies(self._write_updates, SL_SAME(DOC_AT(self._dataset_root_path, self._shards_lists[split].relative_path_self), self._shards_lists[split]))"),
        # a list used for the first time is a new object (loaded or created), an already used one stays the same object
        "implies(old(split in self._shards_lists), self._shards_lists[split] is old(self._shards_lists[split]))",
        "implies(not old(split in self._shards_lists), fresh(self._shards_lists[split])"
        "   and forall(lambda i: implies(0 <= i and i < len(self._shards_lists[split].shard_files) - 1, isdisk(self._shards_lists[split].shard_files[i]))))",
        "implies(old(split in self._shards_lists), forall(lambda i: implies(0 <= i and i < len(self._shards_lists[split].shard_files) - 1,"
        "   self._shards_lists[split].shard_files[i] is old(self._shards_lists[split].shard_files[i]))))",
        "forall(lambda t: implies(t != split and old(t in self._shards_lists), self._shards_lists[t] is old(self._shards_lists[t])), t='U')",
        # C04: the list of this split = what it was (loaded from disk if first use) ++ [this shard], total increased by its count
        ("C04", "implies(old(split in self._shards_lists),"
                "  len(self._shards_lists[split].shard_files) == old(len(self._shards_lists[split].shard_files)) + 1"
                "  and self._shards_lists[split].number_of_examples == old(self._shards_lists[split].number_of_examples) + shard.shard_info.number_of_examples)"),
        ("C04", "self._shards_lists[split].shard_files[len(self._shards_lists[split].shard_files) - 1] is shard.shard_info"),
        ("C06", "dstate(SHARD_PATH(shard)) == 2"),
        # an info that was in no list document before and is not in this split's list is in no list document now
        # (stated once here so that callers need not redo the case analysis over the files written)
        ("C04", "forall(lambda y: implies(old(NOT_ON_DISK(self._dataset_root_path, si_ref(y)))"
                "   and si_ref(y) is not shard.shard_info and not isdisk(si_ref(y))"
                "   and implies(old(split in self._shards_lists), old(forall(lambda i: implies(0 <= i and i < len(self._shards_lists[split].shard_files),"
                "          self._shards_lists[split].shard_files[i] is not si_ref(y))))),"
                "  NOT_ON_DISK(self._dataset_root_path, si_ref(y))))"),
        # other splits' lists untouched
        "forall(lambda t: implies(t != split, (t in self._shards_lists) == old(t in self._shards_lists)), t='U')",
        # the lists of the other splits stay well formed (their files are complete, no new document is one of them)
        ("C04", "forall(lambda t: implies(t != split and old(t in self._shards_lists and LIST_OK(self, t)), LIST_OK(self, t)), t='U')"),
        # an (in-memory, not parsed) info that was in none of the context's lists and is not the closed shard's is in none now
        ("C04", "forall(lambda y: implies(si_ref(y) is not shard.shard_info and not isdisk(si_ref(y))"
                "   and old(forall(lambda t, i: implies(t in self._shards_lists and 0 <= i and i < len(self._shards_lists[t].shard_files),"
                "          self._shards_lists[t].shard_files[i] is not si_ref(y)), t='U')),"
                "  forall(lambda t, i: implies(t in self._shards_lists and 0 <= i and i < len(self._shards_lists[t].shard_files),"
                "          self._shards_lists[t].shard_files[i] is not si_ref(y)), t='U')))"),
        # C04: the certified part of the tree stays an exact tree; only this split's directory is touched
        ("C04", "reveal SC_GINV,SC_DISK,GINVKEEP: hide CS_GINV: implies(old(GINV(self._dataset_root_path)) and old(DISK_OK(self._dataset_root_path)), GINV(self._dataset_root_path))"),
        ("C04", "reveal CERTDEF: hide CS_FR: OTHER_SPLITS_KEPT(self._dataset_root_path, split)"),
    ],
    # an existing list file of this directory that cannot be loaded (corrupt / escaping) is an error
    raises={"ValueError": ["not old(split in self._shards_lists)", "shard._shard_writer is None"]})

# ---- integrity check (C05) ----------------------------------------------------------
MW = "sedpack/io/dataset_writing.py"
macro("ALGS", ["d"], "d._dataset_info.dataset_structure.hash_checksum_algorithms")
macro("LIST_MATCHES", ["d", "info"],
      "IS_DIGESTS(info.shard_list_info_file.hash_checksums, ALGS(d), disk_read(PJOIN(d.path, info.shard_list_info_file.file_path)))")
macro("FILE_MATCHES", ["d", "fi"], "IS_DIGESTS(fi.hash_checksums, ALGS(d), disk_read(PJOIN(d.path, fi.file_path)))")
macro("SHARD_MATCHES", ["d", "si"], "forall(lambda m: implies(0 <= m and m < len(si.file_infos), FILE_MATCHES(d, si.file_infos[m])))")
# SUBOK(d, info): the list file named by info has the recorded digests, and so
# has every list below it (definition by recursion over the finite tree, A-TREE)
ufunc("SUBOK", ["int", "int"], "bool")
_CHK_DEFS = _TREE_DEFS + [
    "forall(lambda info: SUBOK(self, info) == (LIST_MATCHES(self, sli_ref(info))"
    "   and forall(lambda i: implies(0 <= i and i < len(docref(self.path, sli_ref(info).shard_list_info_file.file_path).children_shard_lists),"
    "        SUBOK(self, docref(self.path, sli_ref(info).shard_list_info_file.file_path).children_shard_lists[i])))))",
    # A-PYD: every document parsed from disk satisfies the validators
    "forall(lambda rel: VALID_ShardsList(docref(self.path, rel)), rel='U')",
]

contract(MB, "DatasetBase._get_config_path", props=["C05", "C20", "C08"],
    params={"path": "U", "relative": "bool"}, returns="U", modifies=[],
    ensures=["result == ite_u(relative, 'dataset_info.json', PJOIN(path, 'dataset_info.json'))"])

contract(MW, "DatasetWriting.current_metadata_checksums", props=["C05", "C16"], params={}, returns="list:U",
    modifies=[], fs_root="self.path",
    at_call={"hash_checksums": [("C16", "callee_hashes == ALGS(self)"),
                                ("C05", "callee_file_path == PJOIN(self.path, 'dataset_info.json')")]},
    ensures=[("C05", "IS_DIGESTS(result, ALGS(self), disk_read(PJOIN(self.path, 'dataset_info.json')))")],
    raises={"FileNotFoundError": ["True"]})

contract(MW, "DatasetWriting._check_shard_list_info", props=["C05", "C17"],
    params={"shard_list_info": "ref:ShardListInfo"}, modifies=[], defs=_CHK_DEFS, fs_root="self.path",
    decreases="DEPTH(self.path, shard_list_info.shard_list_info_file.file_path)",
    requires=["VALID_ShardListInfo(shard_list_info)"],
    at_call={"hash_checksums": [
        ("C05", "callee_file_path == PJOIN(self.path, shard_list_info.shard_list_info_file.file_path)"),
        ("C16", "callee_hashes == ALGS(self)")]},
    ensures=[("C05", "SUBOK(self, shard_list_info)")],
    raises={"ValueError": ["True"], "FileNotFoundError": ["True"]},
    loops={1: Loop(inv=[
        "0 <= _k and _k <= len(shard_list.children_shard_lists)",
        "shard_list.children_shard_lists == docref(self.path, shard_list_info.shard_list_info_file.file_path).children_shard_lists",
        ("C05", "LIST_MATCHES(self, shard_list_info)"),
        # every child visited so far is checked, recursively: no child is skipped
        ("C05", "forall(lambda i: implies(0 <= i and i < _k, SUBOK(self, shard_list.children_shard_lists[i])))"),
    ])})

macro("SPLIT_REL", ["d", "s"], "d._dataset_info.splits[s].shard_list_info_file.file_path")
# every shard of the split's tree (depth first) has, for EVERY file info, the recorded digests
macro("SHARDS_MATCH", ["d", "s"],
      "forall(lambda i: implies(0 <= i and i < LEN(TSEQ(d.path, SPLIT_REL(d, s))), SHARD_MATCHES(d, si_ref(NTH(TSEQ(d.path, SPLIT_REL(d, s)), i)))))")
macro("KEYSEQ", ["dct", "j"], "dictkey(dct, j)")

contract(MW, "DatasetWriting.check", props=["C05", "C16", "C17"],
    params={"show_progressbar": "bool", "hash_checksums_values": "list:U"},
    modifies=[], defs=_CHK_DEFS, fs_root="self.path",
    requires=["forall(lambda s: implies(s in self._dataset_info.splits, truthy(s) and VALID_ShardListInfo(self._dataset_info.splits[s])), s='U')"],
    at_call={"hash_checksums": [
        ("C16", "callee_hashes == ALGS(self)"),
        ("C05", "callee_file_path == PJOIN(self.path, file_info.file_path)")]},
    ensures=[
        # (i) expected checksums of the description, when supplied
        ("C05", "implies(len(hash_checksums_values) > 0, hash_checksums_values == digests_list(ALGS(self), disk_read(PJOIN(self.path, 'dataset_info.json'))))"),
        # (ii) every list file of every split, recursively
        ("C05", "forall(lambda s: implies(s in self._dataset_info.splits, SUBOK(self, self._dataset_info.splits[s])), s='U')"),
        # (iii) every file of every shard of every split
        ("C05", "forall(lambda s: implies(s in self._dataset_info.splits, SHARDS_MATCH(self, s)), s='U')"),
    ],
    raises={"ValueError": ["True"], "FileNotFoundError": ["True"], "Foreign": ["True"]},
    loops={
        1: Loop(inv=[
            "0 <= _k",
            ("C05", "forall(lambda j: implies(0 <= j and j < _k, SUBOK(self, self._dataset_info.splits[dictkey(self._dataset_info.splits, j)])))"),
        ]),
        2: Loop(inv=[
            "0 <= _k",
            ("C05", "forall(lambda s: implies(s in self._dataset_info.splits, SUBOK(self, self._dataset_info.splits[s])), s='U')"),
            ("C05", "forall(lambda j: implies(0 <= j and j < _k, SHARDS_MATCH(self, dictkey(self._dataset_info.splits, j))))"),
        ]),
        3: Loop(inv=[
            "0 <= _k", "split in self._dataset_info.splits",
            ("C05", "forall(lambda i: implies(0 <= i and i < _k, SHARD_MATCHES(self, si_ref(NTH(TSEQ(self.path, SPLIT_REL(self, split)), i)))))"),
        ]),
        4: Loop(inv=[
            "0 <= _k and _k <= len(shard_info.file_infos)",
            ("C05", "forall(lambda m: implies(0 <= m and m < _k, FILE_MATCHES(self, shard_info.file_infos[m])))"),
        ]),
    })

# ---- DatasetFiller ------------------------------------------------------------------
# what a ShardListInfo must say about the list file it names (C04, C05, C16)
macro("INFO_EXACT", ["root", "algs", "info"],
      "VALID_ShardListInfo(info) and dstate(PJOIN(root, info.shard_list_info_file.file_path)) == 2"
      " and DOC_AT(root, info.shard_list_info_file.file_path).relative_path_self == info.shard_list_info_file.file_path"
      " and info.number_of_examples == DOC_AT(root, info.shard_list_info_file.file_path).number_of_examples"
      " and info.number_of_shards == len(DOC_AT(root, info.shard_list_info_file.file_path).shard_files)"
      "       + lsum(DOC_AT(root, info.shard_list_info_file.file_path).children_shard_lists, 'number_of_shards')"
      " and IS_DIGESTS(info.shard_list_info_file.hash_checksums, algs, disk_read(PJOIN(root, info.shard_list_info_file.file_path)))"
      " and LEX(DOC_AT(root, info.shard_list_info_file.file_path))"
      " and LISTED_COMPLETE(root, DOC_AT(root, info.shard_list_info_file.file_path))")

# ---- the certified part of the tree (ghost label CERT, flat representation invariant) ----
# cert(root, rel) is a ghost label on list files.  GINV: every certified list file is complete
# and every child entry of its document is exact for the child file (galgs() = the dataset's
# digest algorithms) and names a certified list.  Writing a list file un-certifies the lists
# in the directories above it (their entry for it is stale now) and certifies the written
# list iff all ITS entries are good.  With LIST_SHAPE (children one level below) the
# certified lists reachable from a certified root form an exact tree (A-LEMMA-TREE).
macro("ANCREL", ["rel", "l"], "PNAME(rel) == 'shards_list.json' and NPARTS(rel) < NPARTS(l) and PPREFIX(l, NPARTS(rel) - 1) == DIROF(rel)")
macro("ENTRY_GOOD", ["root", "c"], "INFO_EXACT(root, galgs(), c) and cert(root, UP(c))")
macro("GINV", ["root"],
      "forall(lambda rel: implies(cert(root, rel), LISTFILE(root, rel)"
      "   and forall(lambda k: implies(0 <= k and k < len(DOC_AT(root, rel).children_shard_lists),"
      "        ENTRY_GOOD(root, DOC_AT(root, rel).children_shard_lists[k])))), rel='U')")

contract(MF, CTX + ".shard_lists", props=["C04", "C09"], params={}, returns="dict:ref:ShardsList",
    modifies=[], property=True, ensures=["result is self._shards_lists"])

contract(MF, CTX + ".__init__", props=["C17", "C10", "C09"],
    params={"dataset_root_path": "U", "dataset_structure": "ref:DatasetStructure",
            "relative_path_from_split": "U", "write_updates": "bool"},
    modifies=["_DatasetFillerContext._dataset_root_path@self", "_DatasetFillerContext._dataset_structure@self",
              "_DatasetFillerContext._relative_path_from_split@self", "_DatasetFillerContext._write_updates@self",
              "_DatasetFillerContext._examples_per_shard@self", "_DatasetFillerContext._current_shards_progress@self",
              "_DatasetFillerContext._shards_lists@self"],
    ensures=[
        # C17: the sub-directory option cannot leave the root
        ("C17", "SAFE(relative_path_from_split)"),
        "self._dataset_root_path == dataset_root_path and self._relative_path_from_split == relative_path_from_split",
        "self._examples_per_shard == dataset_structure.examples_per_shard",
        "forall(lambda s: not (s in self._current_shards_progress) and not (s in self._shards_lists), s='U')",
    ],
    raises={"ValueError": [("C17", "not SAFE(relative_path_from_split)")]})

MFD = "DatasetFiller"
contract(MF, MFD + ".__init__", props=["C17", "C09", "C10"],
    params={"dataset": "ref:DatasetWriting", "relative_path_from_split": "U", "auto_update_dataset": "bool"},
    modifies=["DatasetFiller._dataset_filler_context@self", "DatasetFiller._auto_update_dataset@self",
              "DatasetFiller._dataset@self", "DatasetFiller._updated_infos@self"],
    ensures=[
        ("C17", "SAFE(relative_path_from_split)"),
        "self._dataset is dataset and self._auto_update_dataset == auto_update_dataset and len(self._updated_infos) == 0",
        "fresh(self._dataset_filler_context)",
        "self._dataset_filler_context._dataset_root_path == dataset.path",
        "self._dataset_filler_context._relative_path_from_split == relative_path_from_split",
        "self._dataset_filler_context._examples_per_shard == dataset._dataset_info.dataset_structure.examples_per_shard",
        "forall(lambda s: not (s in self._dataset_filler_context._current_shards_progress) and not (s in self._dataset_filler_context._shards_lists), s='U')",
    ],
    raises={"ValueError": [("C17", "not SAFE(relative_path_from_split)")]})

contract(MF, MFD + ".__enter__", props=["C09", "C10"], params={}, returns="ref:_DatasetFillerContext",
    modifies=[], requires=["len(self._updated_infos) == 0"],
    ensures=["result is self._dataset_filler_context"])

contract(MF, MFD + ".get_updated_infos", props=["C09"], params={}, returns="list:ref:ShardListInfo",
    modifies=[], ensures=["result == self._updated_infos"])

macro("FCTX", ["f"], "f._dataset_filler_context")
contract(MF, MFD + "._update_infos", props=["C04", "C06", "C09", "C16", "C05"], params={},
    requires=["len(self._updated_infos) == 0", "CTX_LISTS_OK(FCTX(self))",
              "FCTX(self)._dataset_root_path == self._dataset.path", "DISK_OK(self._dataset.path)",
              "forall(lambda s: implies(s in FCTX(self)._shards_lists, PLAIN(s)), s='U')"],
    modifies=["DatasetFiller._updated_infos@self", "ghost:fs", "ghost:cert"],
    at_call={"write_config": [
        # C16: list files are hashed with the dataset's configured algorithms
        ("C16", "callee_hashes == ALGS(self._dataset)"),
        ("C09", "callee_dataset_root_path == self._dataset.path")]},
    ensures=[
        (["C06", "C04"], "DISK_OK(self._dataset.path)"),
        # C04: the certified part stays an exact tree; only the directories of this filler's splits are touched
        "CTX_LISTS_OK(FCTX(self))",
        # the j-th info is the one of the j-th split of this filler: it lies in that split's directory
        ("C04", "forall(lambda j: implies(0 <= j and j < len(self._updated_infos),"
                "   PART(UP(self._updated_infos[j]), 0) == dictkey(%s, j) and NPARTS(UP(self._updated_infos[j])) >= 2"
                "   and VALID_ShardListInfo(self._updated_infos[j])))" % "FCTX(self)._shards_lists"),
        ("C04", "hide UI_GINV: implies(old(GINV(self._dataset.path)), GINV(self._dataset.path))"),
        ("C04", "hide UI_FR: forall(lambda rel: implies(NPARTS(rel) >= 2 and not ISABS(rel) and not (PART(rel, 0) in FCTX(self)._shards_lists), cert(self._dataset.path, rel) == old(cert(self._dataset.path, rel)) and dstate(PJOIN(self._dataset.path, rel)) == old(dstate(PJOIN(self._dataset.path, rel))) and disk_read(PJOIN(self._dataset.path, rel)) == old(disk_read(PJOIN(self._dataset.path, rel)))), rel='U')"),
        # one info per list written by this filler, each exact for its file
        ("C04", "len(self._updated_infos) == dictlen(FCTX(self)._shards_lists)"),
        ("C04", "forall(lambda j: implies(0 <= j and j < len(self._updated_infos), INFO_EXACT(self._dataset.path, ALGS(self._dataset), self._updated_infos[j])"
                "  and self._updated_infos[j].shard_list_info_file.file_path == FCTX(self)._shards_lists[dictkey(FCTX(self)._shards_lists, j)].relative_path_self))"),
    ],
    loops={1: Loop(inv=[
        "0 <= _k and len(self._updated_infos) == _k and _k <= dictlen(FCTX(self)._shards_lists)",
        "CTX_LISTS_OK(FCTX(self))", "FCTX(self)._dataset_root_path == self._dataset.path", "DISK_OK(self._dataset.path)",
        ("C04", "reveal GINVKEEP: implies(old(GINV(self._dataset.path)), GINV(self._dataset.path))"),
        ("C04", "reveal CERTDEF: forall(lambda rel: implies(NPARTS(rel) >= 2 and not ISABS(rel) and not (PART(rel, 0) in FCTX(self)._shards_lists), cert(self._dataset.path, rel) == old(cert(self._dataset.path, rel)) and dstate(PJOIN(self._dataset.path, rel)) == old(dstate(PJOIN(self._dataset.path, rel))) and disk_read(PJOIN(self._dataset.path, rel)) == old(disk_read(PJOIN(self._dataset.path, rel)))), rel='U')"),
        "forall(lambda s: implies(s in FCTX(self)._shards_lists, PLAIN(s)), s='U')",
        ("C04", "forall(lambda j: implies(0 <= j and j < _k, INFO_EXACT(self._dataset.path, ALGS(self._dataset), self._updated_infos[j])"
                "  and self._updated_infos[j].shard_list_info_file.file_path == FCTX(self)._shards_lists[dictkey(FCTX(self)._shards_lists, j)].relative_path_self))"),
    ], frame={"DatasetFiller._updated_infos": ["self"], "DatasetFiller._dataset": [], "DatasetFiller._dataset_filler_context": [],
              "ShardsList.shard_files": [], "ShardsList.number_of_examples": [], "DatasetInfo.splits": []},
       end_lemmas=[
        # the list written in this step lies in the directory of one of the filler's splits
        "PART(shards_list.relative_path_self, 0) in FCTX(self)._shards_lists and NPARTS(shards_list.relative_path_self) >= 2",
        "forall(lambda rel: implies(NPARTS(rel) >= 2 and not ISABS(rel) and not (PART(rel, 0) in FCTX(self)._shards_lists)"
        "   and axinst(path_inst(shards_list.relative_path_self, NPARTS(rel) - 1, 0, rel, 0) and path_inst(rel, NPARTS(rel) - 1, 0, rel, 0)),"
        "   rel != shards_list.relative_path_self and not ANCREL(rel, shards_list.relative_path_self)), rel='U')",
       ])})

# ---- whole-tree well-formedness (the representation invariant of C04/C05/C06/C08) -----
# A split is GOOD when the entry the description holds for it is exact for the split's root list
# file and that file is certified: by GINV + LIST_SHAPE every list reachable from it has exact
# child entries, by DISK_OK every list is locally exact, hence (A-LEMMA-TREE, Lean) the recorded
# totals of the split are the actual totals.
assumption("A-LEMMA-TREE", "every list locally exact and every child entry exact for the child file implies that the recorded total of the root is the actual total of the tree (structural induction over the finite tree: lemmas/TreeExact.lean, machine-checked)")
macro("KNOWN_SPLIT", ["s"], "s == 'train' or s == 'test' or s == 'holdout'")
macro("SPLIT_GOOD", ["d", "s"],
      "UP(d._dataset_info.splits[s]) == PJOIN(s, 'shards_list.json')"
      " and INFO_EXACT(d.path, galgs(), d._dataset_info.splits[s]) and cert(d.path, UP(d._dataset_info.splits[s]))")
macro("DS_WF", ["d"],
      "forall(lambda s: implies(s in d._dataset_info.splits, KNOWN_SPLIT(s) and SPLIT_GOOD(d, s)), s='U')")

contract(MW, "DatasetWriting.write_multiprocessing", props=["C09", "C04"], params={}, verify=False, assumed=True,
    note="bounded stand-in (real worker processes in harness/c_metadata.py check_parallel_writers); Pool plumbing is outside the subset")

# ---- DatasetFiller.__exit__ -----------------------------------------------------------
macro("FINV_OPEN1", ["c", "s"], "FINV1(c, s)")
contract(MF, MFD + ".__exit__", props=["C10", "C04", "C06", "C09", "C08"],
    params={"exc_type": "optU", "exc_value": "optU", "exc_tb": "optU"},
    requires=["FINV(FCTX(self))", "FCTX(self)._dataset_root_path == self._dataset.path",
              "len(self._updated_infos) == 0",
              # C04: the certified part of the tree is exact; every split of the description that this filler has
              # not written into is exact (those it has written into are re-merged below)
              "hide Q_GINV: GINV(self._dataset.path)", "ALGS(self._dataset) == galgs()",
              "forall(lambda s: implies(s in self._dataset._dataset_info.splits, KNOWN_SPLIT(s) and (s in FCTX(self)._shards_lists or SPLIT_GOOD(self._dataset, s))), s='U')",
              "forall(lambda s: implies(s in FCTX(self)._current_shards_progress, PLAIN(s)), s='U')",
              "forall(lambda s: implies(s in FCTX(self)._shards_lists, PLAIN(s)), s='U')"],
    modifies=["Shard._shard_writer", "Writer.closed", "FileInfo.hash_checksums",
              "_DatasetFillerContext._shards_lists", "ShardsList.shard_files", "ShardsList.number_of_examples",
              "DatasetFiller._updated_infos@self", "DatasetInfo.splits", "ghost:fs", "ghost:cert"],
    call_reveal={"write_config": ["I_GINV", "UI_GINV", "UI_FR"]},
    at_call={
        # C10: __exit__ closes exactly the open shards that hold at least one example
        "close_shard": [("C10", "callee_shard.shard_info.number_of_examples >= 1")],
        # C09: with auto_update_dataset=False the dataset description is not touched by the filler
        "write_config": [("C09", "self._auto_update_dataset")],
    },
    ensures=[
        # without auto update the caller gets exact infos to merge later (multi-writer call) ...
        (["C04", "C09"], "implies(not self._auto_update_dataset, forall(lambda j: implies(0 <= j and j < len(self._updated_infos), INFO_EXACT(self._dataset.path, ALGS(self._dataset), self._updated_infos[j]))))"),
        ("C09", "implies(not self._auto_update_dataset, frame_old('DatasetInfo.splits'))"),
        # ... with it the dataset's tree is well formed again (induction step over sessions)
        (["C04", "C08"], "implies(self._auto_update_dataset, DS_WF(self._dataset))"),
        (["C06", "C04"], "reveal R_DISK: DISK_OK(self._dataset.path)"),
        ("C04", "reveal R_GINV,UI_GINV,I_GINV: GINV(self._dataset.path)"),
    ],
    raises={"ValueError": ["True"]},
    loops={1: Loop(inv=[
        "0 <= _k",
        "FCTX(self)._dataset_root_path == self._dataset.path and len(self._updated_infos) == 0",
        "FCTX(self)._examples_per_shard >= 1 and SAFE(FCTX(self)._relative_path_from_split) and CTX_LISTS_OK(FCTX(self))",
        "DISK_OK(self._dataset.path)",
        "forall(lambda s: implies(s in FCTX(self)._shards_lists, PLAIN(s)), s='U')",
        "reveal Q_GINV,CS_GINV: hide I_GINV: GINV(self._dataset.path)",
        "reveal CS_FR: forall(lambda s: implies(s in self._dataset._dataset_info.splits, KNOWN_SPLIT(s) and (s in FCTX(self)._shards_lists or SPLIT_GOOD(self._dataset, s))), s='U')",
        # splits not yet visited are still in the open state; visited ones with examples are closed
    ] + ["forall(lambda s: implies(s in FCTX(self)._current_shards_progress and dictidx(FCTX(self)._current_shards_progress, s) >= _k, %s), s='U')"
         % q.replace("C_", "FCTX(self)") for q in FINV1_PARTS()] + [
        "forall(lambda s, t: implies(s in FCTX(self)._current_shards_progress and t in FCTX(self)._current_shards_progress and s != t,"
        "   fprog(FCTX(self), s) is not fprog(FCTX(self), t) and fprog(FCTX(self), s).shard is not fprog(FCTX(self), t).shard"
        "   and fprog(FCTX(self), s).shard.shard_info is not fprog(FCTX(self), t).shard.shard_info"
        "   and implies(dictidx(FCTX(self)._current_shards_progress, s) >= _k and dictidx(FCTX(self)._current_shards_progress, t) >= _k,"
        "       fprog(FCTX(self), s).shard._shard_writer is not fprog(FCTX(self), t).shard._shard_writer)), s='U', t='U')",
    ], frame={"DatasetFiller._updated_infos": [], "DatasetFiller._dataset": [], "DatasetFiller._dataset_filler_context": [],
              "DatasetFiller._auto_update_dataset": [], "_DatasetFillerContext._current_shards_progress": [],
              "_DatasetFillerContext._dataset_root_path": [], "_DatasetFillerContext._relative_path_from_split": [],
              "_DatasetFillerContext._examples_per_shard": [], "DatasetInfo.splits": [], "DatasetBase.path": [], "DatasetBase._dataset_info": []})})
