# Contracts for src/sedpack/io/dataset_base.py
# C02/C03: the shard infos of a split = depth-first walk of its shard-list tree
# C07: unreadable metadata raises; C17 is in c40_paths.py; C20 version gate in c45
MB = "sedpack/io/dataset_base.py"

# --- ghost view of the metadata tree on disk (fixed during read-only calls) ---
ufunc("PARSE_ShardsList", ["U"], "int")
ufunc("TSEQ", ["U", "U"], "SEQ")          # TSEQ(root, rel): shard infos (boxed) of the list at root/rel, depth first
ufunc("CHSEQ", ["U", "ArrIntInt", "int"], "SEQ")   # flat-map of TSEQ over the first k children
ufunc("DEPTH", ["U", "U"], "int")          # height of the list at root/rel in the tree
ufunc("PJOIN", ["U", "U"], "U")

# the list document stored at root/rel
macro("docref", ["root", "rel"], "sl_ref(PARSE_ShardsList(disk_read(PJOIN(root, rel))))")
# definitional facts of TSEQ / CHSEQ / DEPTH (tree on disk is finite: A-TREE)
assumption("A-TREE", "the shard-list documents reachable from a split form a finite tree (DEPTH decreases along child links); TSEQ/CHSEQ are its depth-first shard sequence by definition")
_TREE_DEFS = [
    "forall(lambda rel: TSEQ(self.path, rel) == CAT(seq(docref(self.path, rel).shard_files), CHSEQ(self.path, arr(docref(self.path, rel).children_shard_lists), len(docref(self.path, rel).children_shard_lists))), rel='U')",
    "forall(lambda a: CHSEQ(self.path, a, 0) == EMPTY(), a='ArrIntInt')",
    "forall(lambda rel: DEPTH(self.path, rel) >= 0, rel='U')",
    "forall(lambda rel, i: implies(0 <= i and i < len(docref(self.path, rel).children_shard_lists),"
    "   DEPTH(self.path, docref(self.path, rel).children_shard_lists[i].shard_list_info_file.file_path) < DEPTH(self.path, rel)), rel='U')",
]
_CH_STEP = "forall(lambda a: CHSEQ(self.path, a, _k + 1) == CAT(CHSEQ(self.path, a, _k), TSEQ(self.path, sli_ref(a[_k]).shard_list_info_file.file_path)), a='ArrIntInt')"

contract(MB, "DatasetBase.dataset_structure", props=["C02", "C12", "C16", "C05"], params={},
    returns="ref:DatasetStructure", modifies=[], property=True,
    ensures=["result is self._dataset_info.dataset_structure"])
contract(MB, "DatasetBase.metadata", props=["C20"], params={},
    returns="ref:Metadata", modifies=[], property=True,
    ensures=["result is self._dataset_info.metadata"])

contract(MB, "DatasetBase._shard_info_iterator", props=["C02", "C03", "C07", "C05", "C17"],
    params={"shard_list_info": "ref:ShardListInfo"},
    generator=True, stream_out=True, yields="ref:ShardInfo",
    defs=_TREE_DEFS,
    decreases="DEPTH(self.path, shard_list_info.shard_list_info_file.file_path)",
    modifies=[],
    ensures=[
        # C02/C03: exactly the depth-first sequence: own shards first, then each child in order
        (["C02", "C03"], "outs == OFSEQ(TSEQ(self.path, shard_list_info.shard_list_info_file.file_path))"),
    ],
    # a missing / unparsable list file is an error, never an empty result (C07)
    raises={"FileNotFoundError": ["True"], "ValueError": ["True"], "Foreign": ["True"]},
    summary=dict(result="OFSEQ(TSEQ(self.path, shard_list_info.shard_list_info_file.file_path))", elem="ref:ShardInfo"),
    loops={1: Loop(inv=[
        "outs == OFSEQ(CAT(seq(shard_list.shard_files), CHSEQ(self.path, arr(shard_list.children_shard_lists), _k)))",
        "0 <= _k and _k <= len(shard_list.children_shard_lists)",
    ], lemmas=[_CH_STEP])})

contract(MB, "DatasetBase.shard_info_iterator", props=["C02", "C03", "C07", "C12"],
    params={"split": "optU"},
    generator=True, stream_out=True, yields="ref:ShardInfo",
    defs=_TREE_DEFS, modifies=[],
    ensures=[
        (["C02", "C03"], "implies(truthy(split), outs == OFSEQ(TSEQ(self.path, self._dataset_info.splits[split].shard_list_info_file.file_path)))"),
        ("C02", "implies(truthy(split), split in self._dataset_info.splits)"),
    ],
    raises={"FileNotFoundError": ["True"], "Foreign": ["True"],
            "ValueError": ["True"]},
    summary=dict(result="OFSEQ(TSEQ(self.path, self._dataset_info.splits[split].shard_list_info_file.file_path))",
                 requires=["truthy(split)"], elem="ref:ShardInfo",
                 raises={"ValueError": ["True"], "FileNotFoundError": ["True"]},
                 normal=["split in self._dataset_info.splits"]),
    loops={1: Loop(inv=["not truthy(split)"])})
