"""Per-property plan: claimed level, explanation, trusted base.  Read by
pyvc/check.py (evidence) and tools/gen_manifest.py (MANIFEST.json)."""

ASSUMPTIONS = {
    "A-ENC": "the encoding of the Python subset (DESIGN 2.3) is faithful to CPython 3.12; audited by harness/encoder_audit.py (bounded)",
    "A-SMT": "z3 / cvc5 are sound",
    "A-ASYNC": "async generators behave as their synchronous reading; single task",
    "A-STD": "stdlib specs: queue.Queue FIFO/blocking get, ThreadPoolExecutor.map ordered and re-raising, Pool.imap ordered, itertools/zip/map laziness and order, random.shuffle permutes in place, dict insertion order, uuid4 hex values pairwise distinct and fresh",
    "A-LCG": "the shuffle state r is an arbitrary integer; nothing proved depends on its value",
    "A-PYD": "pydantic: model_validate_json runs field validators and restores omitted fields with declared defaults; plain attribute assignment neither copies nor validates",
    "A-FS": "POSIX: rename within a directory is atomic; a file opened for writing is Partial until close returns; process crash only (no power loss)",
    "A-SYMLINK": "no symlinks inside the dataset directory; containment is lexical",
    "A-HASH": "hashlib.new(n)/xxhash.xxhN() compute the standard digest named n of exactly the bytes fed, lowercase hex; digests treated as injective",
    "A-IO": "readinto(buf) returns n in [0,len(buf)], 0 iff EOF, fills buf[:n] with the next n file bytes",
    "A-NP": "numpy array algebra used by the FlatBuffers path (copy, flatten C order, can_cast safe => value preserving, byteswap, tobytes C, frombuffer, reshape)",
    "A-NPZ": "np.savez/np.load return per key the stacked list of arrays in append order (S/U dtypes lose trailing NULs: F10)",
    "A-TF": "TensorFlow record writer/reader and tf.data ops preserve content and unshuffled order (float32 sNaN payloads quieted: F11)",
    "A-CODEC": "decompress(compress(x)) = x for gzip, bz2, lzma, lz4.frame, zstandard",
    "A-FB": "flatbuffers Builder / generated accessors round-trip byte vectors and keep vector order",
    "A-RUST": "the in-repo native reader yields exactly the examples of its file list, file by file in list order, or raises (audited; fails for damaged shards: F6)",
    "A-SEMVER": "semver.Version.parse(a).compare(b) is the sign of semver-2.0 precedence",
    "A-LEMMA-CONC": "per-thread contracts imply the whole-pool property under every interleaving (argument in DESIGN.md, not machine-checked)",
}

_IT = ["A-ENC", "A-SMT", "A-STD", "A-LCG", "A-ASYNC"]

_ALG = ["A-ALG", "A-STREAMLAWS", "A-READER", "A-TREE", "A-JSON"]
_TB_IT = ["pyvc encoder (A-ENC, audited)", "z3 / cvc5 (A-SMT)", "stdlib specs (A-STD)",
          "sequence/stream algebra laws (A-ALG, A-STREAMLAWS: list theory + reading of proved generator contracts)",
          "reader / pydantic / tf.data library behaviour (A-READER, A-PYD, A-TF; audited, bounded)",
          "native reader (A-RUST; audited, bounded)", "thread composition lemma (A-LEMMA-CONC, not machine-checked)"]

PLAN = {
    "C02": dict(level="proof", assumptions=_IT + _ALG + ["A-RUST", "A-TF", "A-LEMMA-CONC", "A-PYD"],
        explanation="exactly-once: inductive invariants over the real generator bodies (multisets / position tokens) for shuffle_buffer, round_robin and the lazy pool consumer; the shard-list tree walk and every iteration interface are proved equal (as multisets) to the canonical stream of the selected shards in a sequence/stream algebra; process_record applied once per example in process_and_list",
        trusted_base=_TB_IT),
    "C03": dict(level="proof", assumptions=_IT + _ALG + ["A-RUST", "A-TF", "A-PYD"],
        explanation="unshuffled iteration: every interface is proved EQUAL (as a sequence) to the canonical stream = depth-first walk of the shard-list tree, shards in list order; the contract depends only on arguments and disk (determinism); batch loop invariant covers every file_parallelism",
        trusted_base=_TB_IT),
    "C07": dict(level="other", assumptions=_IT + _ALG + ["A-RUST", "A-TF", "A-LEMMA-CONC"],
        explanation="proof part: exceptional postconditions: a failing source / mapped function propagates through every generator under contract (no handler other than StopIteration), the lazy-pool worker forwards a failure as its terminal item on every exit path, the consumer re-raises it, a missing or unparsable shard list raises; FAILS propagates through the stream algebra of every interface. Not proved: bounded time under real threads (A-LEMMA-CONC), library decoders actually rejecting damaged files (audited: bounded damage matrix), native reader (known finding F6)",
        trusted_base=_TB_IT),
    "C12": dict(level="proof", assumptions=_IT + _ALG + ["A-TF", "A-PYD"],
        explanation="shard_paths_dataset is proved against a declarative selection (filter, first k, at most n per metadata value, order kept; empty selection raises) with loop invariants for the limit loop; every interface is proved to hand its own selection options unchanged to that selection (stream equalities / call-site obligations), so all interfaces select identically",
        trusted_base=_TB_IT),
    "C13": dict(level="other", assumptions=_IT + ["A-LEMMA-CONC"],
        explanation="per-thread, schedule-independent contracts proved on the real code: consumer (prefill 2T+2, one put per result, one yield per result, T sentinels counted, idle state restored on every exit incl. failure), worker (exactly one terminal item on every exit path, failure forwarded), reset. The quantifier over interleavings is NOT decided by this technique (composition argument A-LEMMA-CONC is written, not machine-checked); bounded stress runs with real threads as stand-in",
        trusted_base=_TB_IT),
    "C14": dict(level="proof", assumptions=_IT + _ALG,
        explanation="at-yield read-ahead bounds asserted at every yield of every stage (shuffle buffer <= b+1, round robin <= b open inner iterators, lazy pool <= 2T+3 in flight, unshuffled concurrent <= file_parallelism paths), with sources that may be infinite, so no bound mentions the stream length",
        trusted_base=_TB_IT),
    "C19": dict(level="proof", assumptions=_IT + _ALG + ["A-RUST", "A-TF"],
        explanation="with repeat the normal exit of every interface is proved unreachable (the generator diverges yielding a stream proved not finite); unshuffled the yielded stream is proved equal to the canonical stream over the cycled path list (cycle applied before any shuffle); RustGenerator: every epoch is a complete pass with a fresh native iterator (loop invariant ALLEPOCHS)",
        trusted_base=_TB_IT),
}

_TB_MD = ["pyvc encoder (A-ENC)", "z3 / cvc5 (A-SMT)", "pydantic parse/dump and validators (A-PYD)",
          "POSIX file semantics (A-FS), lexical paths (A-SYMLINK, A-PATHTOKEN; path axioms audited against pathlib every run)",
          "hash libraries (A-HASH), file reads (A-IO)",
          "tree summation and counting lemmas: machine-checked in Lean (lemmas/TreeExact.lean, lemmas/Count.lean), not trusted",
          "DatasetWriting.write_multiprocessing (Pool / pickle plumbing): bounded stand-in with real worker processes, not proved",
          "get_shard_writer (dispatch to the three writer constructors): assumed contract, audited at run time, source pinned by hash",
          "termination of the recursion in merge_shard_infos: not verified (partial correctness)"]
_MD = ["A-ENC", "A-SMT", "A-PYD", "A-FS", "A-SYMLINK", "A-HASH", "A-IO", "A-STD", "A-LEMMA-TREE", "A-LEMMA-COUNT", "A-PATHTOKEN"]
PLAN.update({
    "C01": dict(level="other", assumptions=["A-ENC", "A-SMT", "A-NP", "A-NPZ", "A-TF", "A-CODEC", "A-FB", "A-RUST", "A-READER"],
        explanation="proof part: sedpack's glue around the libraries: the codec tables pair every compression name with inverse functions; the FlatBuffers writer stores the little-endian C-order bytes of the safely cast value (byte-order branch table proved against an LE specification) and the reader decodes with the inverse composition; the npz writer buffers an independent copy per declared attribute; the TFRecord encoder checks names / shapes / dtype kinds. Not proved: the numeric behaviour of numpy / flatbuffers / TensorFlow / codecs (assumed algebra, audited by a bounded bit-pattern round-trip matrix over formats x compressions x dtypes x ranks x layouts x readers)",
        trusted_base=["pyvc encoder", "z3/cvc5", "numpy / flatbuffers / TensorFlow / codec behaviour (A-NP, A-NPZ, A-TF, A-CODEC, A-FB; audited, bounded)", "native reader (A-RUST)"]),
    "C04": dict(level="other", assumptions=_MD,
        explanation="proof part: representation invariant = (i) DISK_OK: every complete list document is valid, locally exact, names only complete files, children one directory below and named once; (ii) GINV: a ghost set of certified list files, each with every child entry exact for the child file (count, shard count, digests under the dataset's algorithms) and certified itself; (iii) every split entry of the description exact and certified. Proved for arbitrary prior state (induction step over sessions): preserved by Shard.write / Shard.close / close_shard / write_example / _update_infos, re-established by DatasetFiller.__exit__ -> DatasetWriting.write_config -> merge_shard_infos (grouping, recursion, children before parents; ~200 + 79 obligations, incl. 'nothing is dropped at any level': every deeper update and every previous child entry has a child entry in the list written, shard entries kept) and by Dataset.create; the recorded totals then equal the actual totals by the Lean lemma. Bounded stand-in (NOT proved): write_multiprocessing (worker processes), plus fixed + random session histories (incl. deferred / stale updates) with an independent audit of the whole tree",
        trusted_base=_TB_MD),
    "C05": dict(level="other", assumptions=_MD,
        explanation="proof part (detection): check() returning normally implies: supplied description checksums match; for every split the list file and, recursively, EVERY child list has the recorded digests (SUBOK); EVERY file info of EVERY shard of every split matches, with the dataset's configured algorithms; hash_checksums proved to feed each hash exactly the file prefix read. Proof part (acceptance): after every session ending in DatasetFiller.__exit__ / DatasetWriting.write_config every split entry is exact for its list file and so is every child entry below it, with the dataset's algorithms (C04's invariant, merge_shard_infos proved). Not proved: that check()'s traversal accepts exactly when this invariant holds (detection and acceptance are stated over the same digests but the equivalence is not a VC); write_multiprocessing. Bounded: tamper matrix over all reachable files, histories",
        trusted_base=_TB_MD),
    "C06": dict(level="other", assumptions=_MD,
        explanation="proof part: effect-order obligations on a ghost file system: safe_update_file opens only a fresh sibling name for writing, renames only a closed (complete) file into place, net effect = target complete with the new content; a list document is written only when every shard / child list it names is complete (LISTED_COMPLETE precondition of ShardsList.write_config, established by Shard.close before close_shard writes, and in merge_shard_infos by merging the children before the parent is written); DatasetWriting.write_config writes the description after all lists. Not proved: tearing inside library writers (A-FS), write_multiprocessing, power loss (outside the property). Bounded: directory snapshot after every file-system effect of continued sessions",
        trusted_base=_TB_MD),
    "C08": dict(level="other", assumptions=_MD,
        explanation="proof part: a list already on disk is loaded and extended, never recreated (load_or_create / close_shard: new list = old list ++ [shard]); merge_shard_infos re-reads every list it rewrites from disk, keeps its shard entries and all children that are not superseded by an update with the same path (distinctness invariant: the defect F2 is exactly a failing obligation of it); DatasetWriting.write_config leaves the entries of splits without an update untouched; Dataset.create over an existing description raises with an unchanged effect counter and disk. Not proved: a reachability statement 'every shard listed before is listed after' over the whole tree (flat invariants say each rewritten list keeps its own shard entries; the composition over the tree is by A-LEMMA-TREE-style induction, stated); write_multiprocessing. Bounded: session histories incl. reused / nested / prefix-named directories",
        trusted_base=_TB_MD),
    "C09": dict(level="other", assumptions=_MD + ["A-LEMMA-CONC"],
        explanation="proof part: per-writer frames: a filler with auto_update_dataset=False never calls the dataset's write_config and leaves DatasetInfo.splits untouched; a filler only touches files and certificates below the directories of the splits it writes (OTHER_SPLITS_KEPT); its lists live under its own relative path (validated SAFE); it hands back one valid info per list it wrote; merge_shard_infos merges any set of valid infos with distinct paths, whatever order they arrive in. Not decided by contracts: OS process scheduling, pickling, the body of write_multiprocessing (Pool plumbing outside the subset): bounded runs with real worker processes of skewed speeds",
        trusted_base=_TB_MD),
    "C10": dict(level="proof", assumptions=["A-ENC", "A-SMT", "A-PYD"],
        explanation="object invariant of the filler context (0 <= written = recorded count = records accepted <= examples_per_shard, open shard per split, an empty open shard carries no label) preserved by write_example on every normal and exceptional path; close_shard requires >= 1 example; a shard closed by write_example is full unless the label changed (call-site obligation); __exit__ closes exactly the shards with written > 0",
        trusted_base=["pyvc encoder", "z3/cvc5", "abstract writer contract (each concrete writer proved against it)"]),
    "C11": dict(level="proof", assumptions=["A-ENC", "A-SMT", "A-STD"],
        explanation="ownership contract of write_example: the label stored equals the value passed; the stored dict object is never the caller's object (fresh deep copy or the object stored before), so the environment cannot change it; the label of a shard that stays open never changes once set",
        trusted_base=["pyvc encoder", "z3/cvc5", "copy.deepcopy returns an equal, disjoint object (A-STD)"]),
    "C16": dict(level="proof", assumptions=["A-ENC", "A-SMT", "A-HASH", "A-IO"],
        explanation="hash_checksums: loop invariant 'every hash object has been fed exactly the file prefix read so far' for symbolic file length and buffer size; result[j] = digest under hashes[j] of the whole file; name -> algorithm map of all 13 names; every site that stores a digest passes the dataset's configured algorithm tuple and the path of the file it names (call-site obligations)",
        trusted_base=["pyvc encoder", "z3/cvc5", "hashlib / xxhash (A-HASH, audited)", "readinto (A-IO)"]),
    "C17": dict(level="proof", assumptions=["A-ENC", "A-SMT", "A-PYD", "A-SYMLINK"],
        explanation="validators proved: normal return => relative and '..'-free (SAFE) (+ file name); the filler's sub-directory option likewise; every file-system access of the functions under contract with a declared root is proved to stay lexically inside it (fs-inside-root obligations), given that parsed documents satisfy the validators (A-PYD)",
        trusted_base=["pyvc encoder", "z3/cvc5", "lexical path model (audited against pathlib)", "pydantic runs validators on nested models (A-PYD)"]),
    "C18": dict(level="proof", assumptions=["A-ENC", "A-SMT", "A-NP", "A-TF", "A-FB"],
        explanation="exceptional postconditions 'state unchanged' proved for ShardWriterBase.write, the three _write implementations (example list / per-attribute buffers / records handed to TFRecordWriter), Shard.write and write_example; normal postconditions: shapes checked before storing, safe cast (fb), exactly the declared names and no object dtype (npz), names / shapes / dtype kinds / supported dtypes (tfrec). Library effects (builder, tf) assumed",
        trusted_base=["pyvc encoder", "z3/cvc5", "library calls do not partially store (A-FB, A-TF)", "numpy dtype / shape reporting (A-NP)"]),
    "C20": dict(level="other", assumptions=["A-ENC", "A-SMT", "A-PYD", "A-SEMVER", "A-SYMLINK"],
        explanation="proof part: version gate (loads iff recorded version <= running version under semver compare), description returned = document on disk, write and load use the same config path, every stored path is relative (SAFE) so the root only enters through self.path. Assumed + audited (bounded): pydantic JSON round trip of arbitrary descriptions; relocation runs",
        trusted_base=["pyvc encoder", "z3/cvc5", "semver (A-SEMVER)", "pydantic JSON round trip (A-PYD, audited)"]),
})

NOT_APPLICABLE = {
    "C15": "Rust reader vs Python reader under every thread timing: no deductive verifier for Rust is installed (no Verus/Kani/Creusot/Prusti) and the quantifier is over native thread schedules, which function contracts do not decide; the native reader is an audited assumption (A-RUST) of C02/C03/C07/C14/C19 instead",
}
