"""Per-property plan: claimed level, explanation, trusted base.  Read by
pyvc/check.py (evidence) and tools/gen_manifest.py (MANIFEST.json)."""

ASSUMPTIONS = {
    "A-ENC": "the encoding of the Python subset (DESIGN 2.3) is faithful to CPython 3.12; audited by harness/encoder_audit.py (bounded)",
    "A-SMT": "z3 / cvc5 are sound",
    "A-ASYNC": "async generators behave as their synchronous reading; single task",
    "A-STD": "stdlib specs: queue.Queue FIFO/blocking get, ThreadPoolExecutor.map ordered and re-raising, Pool.imap ordered, itertools/zip/map laziness and order, random.shuffle permutes in place, dict insertion order, uuid4 hex values pairwise distinct and fresh",
    "A-LCG": "the shuffle state r is an arbitrary integer; nothing proved depends on its value",
    "A-PYD": "pydantic: model_validate_json runs field validators and restores omitted fields with declared defaults; plain attribute assignment neither copies nor validates",
    "A-FS": "POSIX: rename within a directory is atomic; a file opened for writing is Partial until close returns; process crash only (no power loss)",
    "A-SYMLINK": "no symlinks inside the dataset directory; containment is lexical",
    "A-HASH": "hashlib.new(n)/xxhash.xxhN() compute the standard digest named n of exactly the bytes fed, lowercase hex; digests treated as injective",
    "A-IO": "readinto(buf) returns n in [0,len(buf)], 0 iff EOF, fills buf[:n] with the next n file bytes",
    "A-NP": "numpy array algebra used by the FlatBuffers path (copy, flatten C order, can_cast safe => value preserving, byteswap, tobytes C, frombuffer, reshape)",
    "A-NPZ": "np.savez/np.load return per key the stacked list of arrays in append order (S/U dtypes lose trailing NULs: F10)",
    "A-TF": "TensorFlow record writer/reader and tf.data ops preserve content and unshuffled order (float32 sNaN payloads quieted: F11)",
    "A-CODEC": "decompress(compress(x)) = x for gzip, bz2, lzma, lz4.frame, zstandard",
    "A-FB": "flatbuffers Builder / generated accessors round-trip byte vectors and keep vector order",
    "A-RUST": "the in-repo native reader yields exactly the examples of its file list, file by file in list order, or raises (audited; fails for damaged shards: F6)",
    "A-SEMVER": "semver.Version.parse(a).compare(b) is the sign of semver-2.0 precedence",
    "A-LEMMA-CONC": "per-thread contracts imply the whole-pool property under every interleaving (argument in DESIGN.md, not machine-checked)",
}

_IT = ["A-ENC", "A-SMT", "A-STD", "A-LCG", "A-ASYNC"]

_ALG = ["A-ALG", "A-STREAMLAWS", "A-READER", "A-TREE", "A-JSON"]
_TB_IT = ["pyvc encoder (A-ENC, audited)", "z3 / cvc5 (A-SMT)", "stdlib specs (A-STD)",
          "sequence/stream algebra laws (A-ALG, A-STREAMLAWS: list theory + reading of proved generator contracts)",
          "reader / pydantic / tf.data library behaviour (A-READER, A-PYD, A-TF; audited, bounded)",
          "native reader (A-RUST; audited, bounded)", "thread composition lemma (A-LEMMA-CONC, not machine-checked)"]

PLAN = {
    "C02": dict(level="proof", assumptions=_IT + _ALG + ["A-RUST", "A-TF", "A-LEMMA-CONC", "A-PYD"],
        explanation="exactly-once: inductive invariants over the real generator bodies (multisets / position tokens) for shuffle_buffer, round_robin and the lazy pool consumer; the shard-list tree walk and every iteration interface are proved equal (as multisets) to the canonical stream of the selected shards in a sequence/stream algebra; process_record applied once per example in process_and_list",
        trusted_base=_TB_IT),
    "C03": dict(level="proof", assumptions=_IT + _ALG + ["A-RUST", "A-TF", "A-PYD"],
        explanation="unshuffled iteration: every interface is proved EQUAL (as a sequence) to the canonical stream = depth-first walk of the shard-list tree, shards in list order; the contract depends only on arguments and disk (determinism); batch loop invariant covers every file_parallelism",
        trusted_base=_TB_IT),
    "C07": dict(level="other", assumptions=_IT + _ALG + ["A-RUST", "A-TF", "A-LEMMA-CONC"],
        explanation="proof part: exceptional postconditions: a failing source / mapped function propagates through every generator under contract (no handler other than StopIteration), the lazy-pool worker forwards a failure as its terminal item on every exit path, the consumer re-raises it, a missing or unparsable shard list raises; FAILS propagates through the stream algebra of every interface. Not proved: bounded time under real threads (A-LEMMA-CONC), library decoders actually rejecting damaged files (audited: bounded damage matrix), native reader (known finding F6)",
        trusted_base=_TB_IT),
    "C12": dict(level="proof", assumptions=_IT + _ALG + ["A-TF", "A-PYD"],
        explanation="shard_paths_dataset is proved against a declarative selection (filter, first k, at most n per metadata value, order kept; empty selection raises) with loop invariants for the limit loop; every interface is proved to hand its own selection options unchanged to that selection (stream equalities / call-site obligations), so all interfaces select identically",
        trusted_base=_TB_IT),
    "C13": dict(level="other", assumptions=_IT + ["A-LEMMA-CONC"],
        explanation="per-thread, schedule-independent contracts proved on the real code: consumer (prefill 2T+2, one put per result, one yield per result, T sentinels counted, idle state restored on every exit incl. failure), worker (exactly one terminal item on every exit path, failure forwarded), reset. The quantifier over interleavings is NOT decided by this technique (composition argument A-LEMMA-CONC is written, not machine-checked); bounded stress runs with real threads as stand-in",
        trusted_base=_TB_IT),
    "C14": dict(level="proof", assumptions=_IT + _ALG,
        explanation="at-yield read-ahead bounds asserted at every yield of every stage (shuffle buffer <= b+1, round robin <= b open inner iterators, lazy pool <= 2T+3 in flight, unshuffled concurrent <= file_parallelism paths), with sources that may be infinite, so no bound mentions the stream length",
        trusted_base=_TB_IT),
    "C19": dict(level="proof", assumptions=_IT + _ALG + ["A-RUST", "A-TF"],
        explanation="with repeat the normal exit of every interface is proved unreachable (the generator diverges yielding a stream proved not finite); unshuffled the yielded stream is proved equal to the canonical stream over the cycled path list (cycle applied before any shuffle); RustGenerator: every epoch is a complete pass with a fresh native iterator (loop invariant ALLEPOCHS)",
        trusted_base=_TB_IT),
}

NOT_APPLICABLE = {
    "C15": "Rust reader vs Python reader under every thread timing: no deductive verifier for Rust is installed (no Verus/Kani/Creusot/Prusti) and the quantifier is over native thread schedules, which function contracts do not decide; the native reader is an audited assumption (A-RUST) of C02/C03/C07/C14/C19 instead",
}
