"""Per-property plan: claimed level, explanation, trusted base.  Read by
pyvc/check.py (evidence) and tools/gen_manifest.py (MANIFEST.json)."""

ASSUMPTIONS = {
    "A-ENC": "the encoding of the Python subset (DESIGN 2.3) is faithful to CPython 3.12; audited by harness/encoder_audit.py (bounded)",
    "A-SMT": "z3 / cvc5 are sound",
    "A-ASYNC": "async generators behave as their synchronous reading; single task",
    "A-STD": "stdlib specs: queue.Queue FIFO/blocking get, ThreadPoolExecutor.map ordered and re-raising, Pool.imap ordered, itertools/zip/map laziness and order, random.shuffle permutes in place, dict insertion order, uuid4 hex values pairwise distinct and fresh",
    "A-LCG": "the shuffle state r is an arbitrary integer; nothing proved depends on its value",
    "A-PYD": "pydantic: model_validate_json runs field validators and restores omitted fields with declared defaults; plain attribute assignment neither copies nor validates",
    "A-FS": "POSIX: rename within a directory is atomic; a file opened for writing is Partial until close returns; process crash only (no power loss)",
    "A-SYMLINK": "no symlinks inside the dataset directory; containment is lexical",
    "A-HASH": "hashlib.new(n)/xxhash.xxhN() compute the standard digest named n of exactly the bytes fed, lowercase hex; digests treated as injective",
    "A-IO": "readinto(buf) returns n in [0,len(buf)], 0 iff EOF, fills buf[:n] with the next n file bytes",
    "A-NP": "numpy array algebra used by the FlatBuffers path (copy, flatten C order, can_cast safe => value preserving, byteswap, tobytes C, frombuffer, reshape)",
    "A-NPZ": "np.savez/np.load return per key the stacked list of arrays in append order (S/U dtypes lose trailing NULs: F10)",
    "A-TF": "TensorFlow record writer/reader and tf.data ops preserve content and unshuffled order (float32 sNaN payloads quieted: F11)",
    "A-CODEC": "decompress(compress(x)) = x for gzip, bz2, lzma, lz4.frame, zstandard",
    "A-FB": "flatbuffers Builder / generated accessors round-trip byte vectors and keep vector order",
    "A-RUST": "the in-repo native reader yields exactly the examples of its file list, file by file in list order, or raises (audited; fails for damaged shards: F6)",
    "A-SEMVER": "semver.Version.parse(a).compare(b) is the sign of semver-2.0 precedence",
    "A-LEMMA-CONC": "per-thread contracts imply the whole-pool property under every interleaving (argument in DESIGN.md, not machine-checked)",
}

_IT = ["A-ENC", "A-SMT", "A-STD", "A-LCG", "A-ASYNC"]

PLAN = {
    "C02": dict(level="proof", assumptions=_IT + ["A-RUST", "A-TF", "A-LEMMA-CONC"],
        explanation="exactly-once as inductive invariants over the real generator bodies (multisets / position tokens)",
        trusted_base=["pyvc encoder (audited)", "z3/cvc5", "stdlib specs A-STD", "native reader A-RUST (audited)", "tf.data A-TF"]),
    "C14": dict(level="proof", assumptions=_IT,
        explanation="at-yield read-ahead bounds asserted at every yield of every stage, independent of stream length (sources may be infinite)",
        trusted_base=["pyvc encoder (audited)", "z3/cvc5", "stdlib specs A-STD"]),
}

NOT_APPLICABLE = {
    "C15": "Rust reader vs Python reader under every thread timing: no deductive verifier for Rust is installed (no Verus/Kani/Creusot/Prusti) and the quantifier is over native thread schedules, which function contracts do not decide; the native reader is an audited assumption (A-RUST) of C02/C03/C07/C14/C19 instead",
}
